#!/usr/bin/env python3
"""vx/mutscore.py: a mechanical measure of how much the contracts pin down.

For every function that a Verus unit verifies WHOLE (`//@ fn`, not stubs) - and, with `--regions`, for every function a
region is taken from (4K sites there; a mutant that leaves the generated text unchanged lies outside the region and is not
counted) - up to K random one-token mutants of its real text in /repo/src are made (comparison and boolean operators flipped,
`+ 1`/`- 1` shifted, `true`/`false` swapped, a negation dropped); each mutant is written to a scratch copy of the sources
and the function's unit is run against it.
  killed     - an obligation fails (the check would print VIOLATION)
  undecided  - the generator lost an anchor or the verifier met a construct it cannot handle (exit 2, no alarm)
  survived   - everything still verifies: the mutant is equivalent, or the contracts do not pin this token down
Second stage (`--tests`): every survivor is applied to a scratch git worktree and the crate's own test suite is run, to tell
how many of the survivors the 430 tests would have caught.
Usage: mutscore.py [--k 2] [--seed 1] [--jobs 12] [--units U01,U04]   -> .work/mutscore.json + a table
       mutscore.py --tests                                            -> adds `tests` to the survivors in .work/mutscore.json
       mutscore.py --one <unit> <rel> <offset> <oldlen> <new>         (worker)"""
import os, sys, re, json, random, shutil, subprocess, tempfile, time
import concurrent.futures as cf
sys.path.insert(0, os.path.dirname(os.path.abspath(__file__)))
import gen, run

V = os.path.dirname(os.path.dirname(os.path.abspath(__file__)))
OUT = os.path.join(V, ".work", "mutscore.json")
OPS = [
    (r" == ", " != "), (r" != ", " == "),
    (r" <= ", " < "), (r" >= ", " > "), (r" < ", " <= "), (r" > ", " >= "),
    (r" && ", " || "), (r" \|\| ", " && "),
    (r" \+ 1\b", " + 2"), (r" - 1\b", " - 2"),
    (r"\btrue\b", "false"), (r"\bfalse\b", "true"),
    (r"\bif !", "if "), (r"&& !", "&& "),
]

def sites_of(text):
    """(offset, old, new) candidates outside comments and string literals"""
    out = []
    masked = list(text)
    from rustlex import lex
    for t in lex(text):
        if t.kind in ("comment", "doc", "str", "string", "char", "rawstr") or t.text.startswith('"') or t.text.startswith("//") or t.text.startswith("/*"):
            for i in range(t.start, t.end):
                if masked[i] != "\n":
                    masked[i] = "\x00"
    m = "".join(masked)
    for rx, new in OPS:
        for mm in re.finditer(rx, m):
            old = text[mm.start():mm.end()]
            # generics / arrows / lifetimes are not comparisons
            ctx = m[max(0, mm.start() - 2):mm.end() + 2]
            if "->" in ctx or "=>" in ctx or "::<" in ctx:
                continue
            out.append((mm.start(), old, new))
    return out

def collect(units, k, seed, regions=False):
    rnd = random.Random(seed)
    G = gen.Generator(repo="/repo", verif=V)
    todo, seen = [], set()
    for u in units:
        try:
            g = G.generate(u)
        except Exception as e:
            print("skip %s: %r" % (u, e)); continue
        for it in g.items:
            if it.get("kind") != "fn" or it.get("mode") != "verified":
                continue
            is_region = it["name"].endswith("[region]")
            if is_region and not regions:
                continue
            if is_region:
                it = dict(it, name=it["name"][:-len("[region]")])
            key = (u, it["src"], it["name"])
            if key in seen:
                continue
            seen.add(key)
            try:
                item = G.find(it["src"], it["name"])
            except Exception:
                continue
            sf = G.source(it["src"])
            if item.body_open is None:
                continue
            b0, b1 = sf.toks[item.body_open].start, sf.toks[item.body_close].end
            body = sf.src[b0:b1]
            ss = sites_of(body)
            rnd.shuffle(ss)
            for (off, old, new) in ss[:(k * 4 if is_region else k)]:
                line = sf.src.count("\n", 0, b0 + off) + 1
                todo.append(dict(unit=u, fn=it["name"] + ("[region]" if is_region else ""), src=it["src"], offset=b0 + off, old=old, new=new, line=line))
    return todo

def one(unit, rel, offset, oldlen, new):
    d = tempfile.mkdtemp(prefix="mutscore.", dir="/tmp")
    try:
        shutil.copytree("/repo/src", os.path.join(d, "src"))
        shutil.copy("/repo/Cargo.toml", os.path.join(d, "Cargo.toml"))
        p = os.path.join(d, "src", rel[len("src/"):] if rel.startswith("src/") else rel)
        s = open(p, encoding="utf-8").read()
        s = s[:offset] + new + s[offset + oldlen:]
        open(p, "w", encoding="utf-8").write(s)
        run.WORK = os.path.join(d, "work")
        # a mutant outside every extracted region leaves the generated text as it was: it is not a mutant of verified code
        try:
            if gen.Generator(repo=d, verif=V).generate(unit).text() == gen.Generator(repo="/repo", verif=V).generate(unit).text():
                print("MUTRESULT " + json.dumps(dict(status="outside", reason="outside the extracted text", failed=[], props=[])))
                return
        except Exception:
            pass
        r = run.run_unit(unit, (), d, False)
        res = dict(status=r.status, reason=(r.reason or "")[:200],
                   failed=sorted({(f.get("tag") or f.get("kind") or "?")[:80] for f in r.failures}),
                   props=sorted({p for f in r.failures for p in f["props"]}))
        print("MUTRESULT " + json.dumps(res))
    finally:
        shutil.rmtree(d, ignore_errors=True)

def worker(m):
    cmd = [sys.executable, os.path.abspath(__file__), "--one", m["unit"], m["src"], str(m["offset"]), str(len(m["old"])), m["new"]]
    try:
        p = subprocess.run(cmd, capture_output=True, text=True, timeout=900)
        mm = re.search(r"^MUTRESULT (.*)$", p.stdout, re.M)
        res = json.loads(mm.group(1)) if mm else dict(status="undecided", reason="worker: " + (p.stderr or p.stdout)[-200:], failed=[], props=[])
    except subprocess.TimeoutExpired:
        res = dict(status="undecided", reason="timeout", failed=[], props=[])
    m = dict(m)
    m.update(res)
    m["verdict"] = "killed" if res["failed"] else ("outside" if res["status"] == "outside" else ("undecided" if res["status"] == "undecided" else "survived"))
    return m

def table(rs):
    by = {}
    rs = [m for m in rs if m["verdict"] != "outside"]
    for m in rs:
        by.setdefault(m["unit"], []).append(m)
    tot = dict(killed=0, undecided=0, survived=0)
    print("%-26s %6s %6s %9s %8s" % ("unit", "mutants", "killed", "undecided", "survived"))
    for u in sorted(by):
        c = dict(killed=0, undecided=0, survived=0)
        for m in by[u]:
            c[m["verdict"]] += 1; tot[m["verdict"]] += 1
        print("%-26s %6d %6d %9d %8d" % (u, len(by[u]), c["killed"], c["undecided"], c["survived"]))
    n = sum(tot.values())
    print("%-26s %6d %6d %9d %8d" % ("TOTAL", n, tot["killed"], tot["undecided"], tot["survived"]))
    if any("tests" in m for m in rs):
        sv = [m for m in rs if m["verdict"] == "survived" and "tests" in m]
        print("survivors checked against the crate's tests: %d, of which the tests fail on %d, do not compile %d, pass on %d" % (
            len(sv), sum(1 for m in sv if m["tests"] == "fail"), sum(1 for m in sv if m["tests"] == "nocompile"), sum(1 for m in sv if m["tests"] == "pass")))

def tests_stage():
    rs = json.load(open(OUT))
    wt = "/tmp/mutscore_wt"
    subprocess.run("git -C /repo worktree remove --force %s; rm -rf %s; git -C /repo worktree prune; git -C /repo worktree add -q --detach %s HEAD && cp -r /repo/target %s/target" % (wt, wt, wt, wt), shell=True, capture_output=True)
    env = dict(os.environ, CARGO_NET_OFFLINE="true")
    try:
        for m in rs:
            if m["verdict"] != "survived" or "tests" in m:
                continue
            p = os.path.join(wt, m["src"])
            s = open(p, encoding="utf-8").read()
            assert s[m["offset"]:m["offset"] + len(m["old"])] == m["old"], m
            open(p, "w", encoding="utf-8").write(s[:m["offset"]] + m["new"] + s[m["offset"] + len(m["old"]):])
            r = subprocess.run("cargo test --workspace --offline 2>&1 | tail -40", shell=True, cwd=wt, capture_output=True, text=True, env=env, timeout=1800)
            out = r.stdout
            if re.search(r"test result: ok\. \d+ passed; 0 failed", out) and "FAILED" not in out:
                m["tests"] = "pass"
            elif "could not compile" in out or re.search(r"^error(\[E\d+\])?:", out, re.M) and "test result" not in out:
                m["tests"] = "nocompile"
            else:
                m["tests"] = "fail"
            print("%s %s:%d %r -> %r  tests=%s" % (m["unit"], m["src"], m["line"], m["old"], m["new"], m["tests"]), flush=True)
            open(p, "w", encoding="utf-8").write(s)
            os.utime(p, None)
            json.dump(rs, open(OUT, "w"), indent=1)
    finally:
        subprocess.run("git -C /repo worktree remove --force %s; rm -rf %s; git -C /repo worktree prune" % (wt, wt), shell=True, capture_output=True)
    table(rs)

def main():
    a = sys.argv[1:]
    if a and a[0] == "--one":
        one(a[1], a[2], int(a[3]), int(a[4]), a[5]); return
    if a and a[0] == "--tests":
        tests_stage(); return
    if a and a[0] == "--table":
        table(json.load(open(OUT))); return
    k, seed, jobs, units, regions = 2, 1, 12, None, False
    i = 0
    while i < len(a):
        if a[i] == "--k": k = int(a[i + 1]); i += 2
        elif a[i] == "--seed": seed = int(a[i + 1]); i += 2
        elif a[i] == "--jobs": jobs = int(a[i + 1]); i += 2
        elif a[i] == "--regions": regions = True; i += 1
        elif a[i] == "--units": units = [u for u in run.all_units() if u.split("_")[0] in a[i + 1].split(",")]; i += 2
        else: i += 1
    units = units or run.all_units()
    todo = collect(units, k, seed, regions)
    print("%d mutants of %d units" % (len(todo), len(units)), flush=True)
    rs = []
    t0 = time.time()
    with cf.ThreadPoolExecutor(max_workers=jobs) as ex:
        for m in ex.map(worker, todo):
            rs.append(m)
            if m["verdict"] == "outside":
                continue
            print("%-9s %s %s:%d %r -> %r %s" % (m["verdict"], m["unit"], m["src"], m["line"], m["old"], m["new"], ",".join(m["failed"])[:90] or m["reason"][:90]), flush=True)
            json.dump(rs, open(OUT, "w"), indent=1)
    print("wall %.0f s" % (time.time() - t0))
    table(rs)

if __name__ == "__main__":
    main()
