#!/bin/sh
# Run checks against a scratch copy of /repo/src with a patch applied (engine V reads text only).
#   vx/mut.sh <patch.diff> <prop> [<prop> ...]
# Prints the summary lines of each check; the scratch copy is removed afterwards.
set -u
P="$1"; shift
D=$(mktemp -d /tmp/mutsrc.XXXXXX)
mkdir -p "$D" && cp -r /repo/src "$D/src" && cp /repo/Cargo.toml "$D/"
( cd "$D" && git init -q . 2>/dev/null && git apply --whitespace=nowarn "$P" ) || { echo "PATCH DID NOT APPLY: $P"; rm -rf "$D"; exit 3; }
for prop in "$@"; do
  VERIF_REPO="$D" /verif/check "$prop" --tier quick 2>&1 | grep -E "^VIOLATION|^KNOWN|^UNDECIDED|obligations discharged" | sed "s|^|[$prop] |" | cut -c1-260
  echo "[$prop] exit=$?"
done
rm -rf "$D"
