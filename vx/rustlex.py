"""Minimal Rust lexer + item locator used by the extractor (engine V).

It does not parse Rust.  It tokenises (comments, strings, raw strings, char
literals vs lifetimes, punctuation, identifiers), matches brackets, and splits a
token range into top-level *items* (fn / struct / enum / impl / mod / ...).
Item text is always taken byte-for-byte from the source between token offsets.
"""
import re

class Tok:
    __slots__ = ("kind", "text", "start", "end")
    def __init__(self, kind, text, start, end):
        self.kind, self.text, self.start, self.end = kind, text, start, end
    def __repr__(self):
        return f"Tok({self.kind},{self.text!r},{self.start})"

_ident_re = re.compile(r"[A-Za-z_][A-Za-z0-9_]*")
_num_re = re.compile(r"[0-9][0-9A-Za-z_]*(\.[0-9][0-9A-Za-z_]*)?")
_raw_re = re.compile(r"b?r(#*)\"")

class LexError(Exception):
    pass

def lex(src):
    """Return list of tokens. kinds: id, num, str, char, life, punct, comment, doc."""
    toks = []
    i, n = 0, len(src)
    while i < n:
        c = src[i]
        if c.isspace():
            i += 1
            continue
        if src.startswith("//", i):
            j = src.find("\n", i)
            if j < 0:
                j = n
            text = src[i:j]
            kind = "doc" if (text.startswith("///") and not text.startswith("////")) or text.startswith("//!") else "comment"
            toks.append(Tok(kind, text, i, j))
            i = j
            continue
        if src.startswith("/*", i):
            depth, j = 1, i + 2
            while j < n and depth:
                if src.startswith("/*", j):
                    depth += 1; j += 2
                elif src.startswith("*/", j):
                    depth -= 1; j += 2
                else:
                    j += 1
            toks.append(Tok("comment", src[i:j], i, j))
            i = j
            continue
        m = _raw_re.match(src, i)
        if m:
            hashes = m.group(1)
            close = '"' + hashes
            j = src.find(close, m.end())
            if j < 0:
                raise LexError("unterminated raw string at %d" % i)
            j += len(close)
            toks.append(Tok("str", src[i:j], i, j))
            i = j
            continue
        if c == '"' or (c == 'b' and i + 1 < n and src[i + 1] == '"'):
            j = i + (2 if c == 'b' else 1)
            while j < n and src[j] != '"':
                j += 2 if src[j] == '\\' else 1
            j += 1
            toks.append(Tok("str", src[i:j], i, j))
            i = j
            continue
        if c == "'" or (c == 'b' and i + 1 < n and src[i + 1] == "'"):
            k = i + (1 if c == 'b' else 0)
            # char literal or lifetime?
            if k + 1 < n and src[k + 1] == '\\':
                j = k + 3
                while j < n and src[j] != "'":
                    j += 1
                j += 1
                toks.append(Tok("char", src[i:j], i, j)); i = j; continue
            if k + 2 < n and src[k + 2] == "'":
                j = k + 3
                toks.append(Tok("char", src[i:j], i, j)); i = j; continue
            # multi-byte char literal e.g. '│'
            m2 = re.match(r"'[^'\\\n]'", src[k:k + 8])
            if m2 and not _ident_re.match(src, k + 1):
                j = k + m2.end()
                toks.append(Tok("char", src[i:j], i, j)); i = j; continue
            m3 = _ident_re.match(src, k + 1)
            if m3:
                j = m3.end()
                toks.append(Tok("life", src[i:j], i, j)); i = j; continue
            raise LexError("bad quote at %d" % i)
        m = _ident_re.match(src, i)
        if m:
            toks.append(Tok("id", m.group(0), i, m.end()))
            i = m.end()
            continue
        m = _num_re.match(src, i)
        if m:
            # avoid eating `0..n` as a float
            text = m.group(0)
            if "." in text and src.startswith("..", i + text.index(".")):
                text = text[:text.index(".")]
            toks.append(Tok("num", text, i, i + len(text)))
            i += len(text)
            continue
        for p in ("...", "..=", "::", "->", "=>", "==", "!=", "&&", "||",
                  "+=", "-=", "*=", "/=", "%=", "^=", "&=", "|=", ".."):
            if src.startswith(p, i):
                toks.append(Tok("punct", p, i, i + len(p)))
                i += len(p)
                break
        else:
            toks.append(Tok("punct", c, i, i + 1))
            i += 1
    return toks

OPEN = {"(": ")", "[": "]", "{": "}"}
CLOSE = {")", "]", "}"}

def code_tokens(toks):
    return [t for t in toks if t.kind not in ("comment", "doc")]

def match_brackets(toks):
    """dict index->matching index for bracket tokens (on a code-token list)."""
    stack, pairs = [], {}
    for idx, t in enumerate(toks):
        if t.kind != "punct":
            continue
        if t.text in OPEN:
            stack.append(idx)
        elif t.text in CLOSE:
            if not stack:
                raise LexError("unbalanced close at %d" % t.start)
            o = stack.pop()
            if OPEN[toks[o].text] != t.text:
                raise LexError("mismatched bracket at %d" % t.start)
            pairs[o] = idx
            pairs[idx] = o
    if stack:
        raise LexError("unbalanced open at %d" % toks[stack[-1]].start)
    return pairs

ITEM_KW = ("fn", "struct", "enum", "union", "type", "const", "static", "trait", "mod", "impl", "use", "macro_rules", "extern")

class Item:
    def __init__(self, kind, name, toks, lo, hi, attrs, src, body_open=None, body_close=None):
        self.kind, self.name = kind, name
        self.toks, self.lo, self.hi = toks, lo, hi      # token index range [lo, hi] inclusive; lo = first non-attr token
        self.attrs = attrs                               # list of attribute texts
        self.src = src
        self.body_open, self.body_close = body_open, body_close
        self.impl_type = None
        self.impl_trait = None
    @property
    def start(self):
        return self.toks[self.lo].start
    @property
    def end(self):
        return self.toks[self.hi].end
    @property
    def text(self):
        return self.src[self.start:self.end]
    def line(self):
        return self.src.count("\n", 0, self.start) + 1
    def is_cfg_test(self):
        return any(re.sub(r"\s", "", a) in ("#[cfg(test)]", "#[test]") for a in self.attrs)

def split_items(src, toks, pairs, lo, hi):
    """Split code tokens toks[lo:hi] (exclusive hi) at nesting level 0 into items."""
    items = []
    i = lo
    while i < hi:
        attrs = []
        # attributes
        while i < hi and toks[i].text == "#" and i + 1 < hi and (toks[i + 1].text == "[" or (toks[i + 1].text == "!" and toks[i + 2].text == "[")):
            j = i + 1
            if toks[j].text == "!":
                j += 1
            end = pairs[j]
            attrs.append(src[toks[i].start:toks[end].end])
            i = end + 1
        if i >= hi:
            break
        first = i
        # modifiers
        j = i
        kind = None
        name = None
        while j < hi:
            t = toks[j]
            if t.kind == "id" and t.text in ("pub", "unsafe", "async", "default"):
                j += 1
                if toks[j].text == "(" and toks[j - 1].text == "pub":
                    j = pairs[j] + 1
                continue
            if t.kind == "id" and t.text == "const" and toks[j + 1].kind == "id" and toks[j + 1].text in ("fn", "unsafe"):
                j += 1
                continue
            if t.kind == "id" and t.text == "extern" and toks[j + 1].kind == "str":
                j += 2
                continue
            break
        t = toks[j]
        if t.kind == "id" and t.text in ITEM_KW:
            kind = t.text
            if kind == "impl":
                name = None
            elif kind == "macro_rules":
                name = toks[j + 2].text
            elif kind == "use" or kind == "extern":
                name = None
            else:
                name = toks[j + 1].text
        elif t.kind == "id" and j + 1 < hi and toks[j + 1].text == "!":
            kind = "macro_call"
            name = t.text
        else:
            kind = "other"
        # find end: first `{` at depth 0 -> its match (then optional ';' not consumed), or ';'
        k = j
        body_open = body_close = None
        end = None
        while k < hi:
            tt = toks[k]
            if tt.kind == "punct" and tt.text in ("(", "["):
                k = pairs[k] + 1
                continue
            if tt.kind == "punct" and tt.text == "{" and kind in ("use", "type", "const", "static", "extern"):
                k = pairs[k] + 1
                continue
            if tt.kind == "punct" and tt.text == "{":
                body_open, body_close = k, pairs[k]
                end = pairs[k]
                # `struct X {..}` / macro_call `{}` may be followed by ';' rarely
                break
            if tt.kind == "punct" and tt.text == ";":
                end = k
                break
            k += 1
        if end is None:
            end = hi - 1
        if kind == "macro_call" and end + 1 < hi and toks[end + 1].text == ";":
            end += 1
        it = Item(kind, name, toks, first, end, attrs, src, body_open, body_close)
        if kind == "impl":
            _parse_impl_header(it, j)
        items.append(it)
        i = end + 1
    return items

def _parse_impl_header(it, j):
    toks = it.toks
    # tokens between `impl` and body_open
    k = j + 1
    # skip generics
    if toks[k].text == "<":
        depth = 0
        while True:
            if toks[k].text == "<":
                depth += 1
            elif toks[k].text == ">":
                depth -= 1
                if depth == 0:
                    k += 1
                    break
            k += 1
    hdr = toks[k:it.body_open]
    # split at top-level `for` (not inside <>), stop at `where`
    depth = 0
    for_idx = None
    where_idx = len(hdr)
    for idx, t in enumerate(hdr):
        if t.text == "<":
            depth += 1
        elif t.text == ">":
            depth -= 1
        elif depth == 0 and t.kind == "id" and t.text == "for" and for_idx is None:
            for_idx = idx
        elif depth == 0 and t.kind == "id" and t.text == "where":
            where_idx = idx
            break
    def main_ident(ts):
        # last identifier of the path before generics
        depth = 0
        last = None
        for t in ts:
            if t.text == "<":
                depth += 1
            elif t.text == ">":
                depth -= 1
            elif depth == 0 and t.kind == "id":
                last = t.text
        return last
    if for_idx is None:
        it.impl_type = main_ident(hdr[:where_idx])
    else:
        it.impl_trait = main_ident(hdr[:for_idx])
        it.impl_type = main_ident(hdr[for_idx + 1:where_idx])

class SourceFile:
    def __init__(self, path, src):
        self.path = path
        self.src = src
        self.alltoks = lex(src)
        self.toks = code_tokens(self.alltoks)
        self.pairs = match_brackets(self.toks)
        self.items = split_items(src, self.toks, self.pairs, 0, len(self.toks))

    def children(self, item):
        if item.body_open is None:
            return []
        return split_items(self.src, self.toks, self.pairs, item.body_open + 1, item.body_close)

    def find(self, path):
        """path: 'name' | 'Type::method' | 'Type@Trait::method' | 'mod::name' | 'mod::Type::method'.
        Returns the unique non-test Item, or raises KeyError."""
        nth = None
        m = re.search(r"#(\d+)", path)
        if m:
            # `Type@Trait#2::method`: the 2nd of several impls of the same trait for the same type (file order)
            nth = int(m.group(1))
            path = path.replace(m.group(0), "")
        parts = path.split("::")
        cands = self._find(self.items, parts)
        cands = [c for c in cands if not c.is_cfg_test()]
        if nth is not None:
            if not (1 <= nth <= len(cands)):
                raise KeyError("%s: %d candidates for %s, wanted #%d" % (self.path, len(cands), path, nth))
            return cands[nth - 1]
        if len(cands) > 1:
            # a macro_rules! of the same name as an item is never what a directive means
            nm = [c for c in cands if c.kind not in ("macro_rules", "macro_call")]
            if len(nm) == 1:
                cands = nm
        if len(cands) != 1:
            raise KeyError("%s: %d candidates for %s" % (self.path, len(cands), path))
        return cands[0]

    def _find(self, items, parts):
        head, rest = parts[0], parts[1:]
        out = []
        trait = None
        if "@" in head:
            head, trait = head.split("@")
        for it in items:
            if it.is_cfg_test():
                continue
            if it.kind == "impl":
                if it.impl_type == head and rest and (trait is None or it.impl_trait == trait):
                    out += self._find(self.children(it), rest)
                continue
            if it.kind == "mod" and it.name == head and rest and it.body_open is not None:
                out += self._find(self.children(it), rest)
                continue
            if it.kind == "trait" and it.name == head and rest:
                out += self._find(self.children(it), rest)
                continue
            if it.kind == "fn" and it.name == head and rest and it.body_open is not None:
                # items declared inside a function body (`wrap_line::CurrLine::reset`)
                out += self._find(self.children(it), rest)
                continue
            if it.kind == "macro_call" and it.name == "lazy_static" and not rest:
                # `lazy_static` names the (single) lazy_static! block of a file: region directives only
                if head == "lazy_static" and it.body_open is not None:
                    out.append(it)
                continue
            if it.name == head and not rest and it.kind in ("fn", "struct", "enum", "type", "const", "static", "trait", "union", "macro_rules"):
                out.append(it)
        return out
