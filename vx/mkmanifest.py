#!/usr/bin/env python3
"""Writes /verif/MANIFEST.json from the table below (single source for levels/notes)."""
import json, os
V = "/verif"
BASE_CMD = "cd /repo && cargo test --workspace --no-fail-fast --offline"
CLAIMS = {}   # filled by claims.py
NA = {}
exec(open(os.path.join(V, "vx", "claims.py")).read())
checks = []
for pid in sorted(CLAIMS):
    c = CLAIMS[pid]
    checks.append(dict(
        property_id=pid,
        quick_cmd="./check %s --tier quick" % pid,
        thorough_cmd="./check %s --tier thorough" % pid,
        evidence_file="/verif/evidence/%s.json" % pid,
        replay_cmd_template="./check --replay {path}",
        engine=c.get("engine", "V"),
        level_claimed=dict(category=c.get("category", "proof"), text=c["text"], design_ref=c.get("design_ref", "DESIGN.md section 4 (%s)" % pid)),
        level_note=c["note"],
        technique=c.get("technique", "contract-based deductive verification (Verus) of function text extracted from /repo on every run"),
    ))
m = dict(
    version=1,
    setup_cmd="./setup.sh",
    hooks=dict(
        guard="none (no hook is needed: no source change of /repo is guarded; cfg(kani) exists only inside the files generated under /verif/.work)",
        enable="both engines read /repo/src as text on every run and verify the extracted functions in generated files (engine V: verus; engine K: standalone kani, which sets cfg(kani) for the generated file only)",
        baseline_off_cmd=BASE_CMD,
        source_commits=HOOK_COMMITS,
        add_only=True,
    ),
    engines=[
        dict(name="V", path="/verif/vx", serves_properties=sorted(CLAIMS), kind_free_text="Verus 0.2026.09.13 on function text extracted mechanically from /repo/src on every run, contracts in /verif/contracts"),
        dict(name="K", path="/verif/vx/kani.py", serves_properties=sorted(p for p in CLAIMS if "K" in CLAIMS[p].get("engine", "")), kind_free_text="Kani 0.68 function contracts (proof_for_contract) on loop-free functions extracted mechanically from /repo/src on every run (contracts/K*.rs); a counterexample from CBMC's trace is replayed on the extracted function compiled with rustc"),
    ],
    checks=checks,
    notes="Exit codes: 0 all obligations discharged; 1 + VIOLATION line(s) when a ledgered obligation fails; 2 (no VIOLATION line) when the verifier could not decide (anchor lost, unsupported construct, resource limit). See DESIGN.md.",
    not_applicable=[dict(property_id=p, reason=NA[p]) for p in sorted(NA)],
)
json.dump(m, open(os.path.join(V, "MANIFEST.json"), "w"), indent=1)
print("MANIFEST.json: %d checks, %d not_applicable" % (len(checks), len(NA)))
