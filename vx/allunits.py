#!/usr/bin/env python3
"""Run EVERY unit of engine V once against /repo (or $VERIF_REPO) and list every failed obligation under every
property it is tagged with (a contract edit made for one property can break an obligation that only another
property's check reports).  Exit 0 = nothing fails and nothing is undecided.  Usage: allunits.py"""
import os, sys, tempfile, shutil
import concurrent.futures as cf
sys.path.insert(0, os.path.dirname(os.path.abspath(__file__)))
import run, report

def main():
    repo = os.environ.get("VERIF_REPO", "/repo")
    d = tempfile.mkdtemp(prefix="allunits.", dir="/tmp")
    run.WORK = os.path.join(d, "work")
    known = report.load_known()
    bad = 0
    try:
        units = run.all_units()
        with cf.ThreadPoolExecutor(max_workers=8) as ex:
            futs = {ex.submit(run.run_unit, u, (), repo, False): u for u in units}
            for f in cf.as_completed(futs):
                r = f.result()
                if r.status == "undecided":
                    bad += 1
                    print("UNDECIDED %s: %s" % (r.unit, (r.reason or "")[:200]), flush=True)
                for fl in r.failures:
                    props = [p for p in fl["props"] if not report.is_known(fl, p, known)]
                    if props:
                        bad += 1
                        print("FAILS %s under %s" % (fl["obligation"], ",".join(props)), flush=True)
        import kani as kanimod
        kunits = kanimod.all_units()
        for u in kunits:
            r = kanimod.run_unit(u, repo=repo, work=run.WORK)
            if r["status"] == "undecided":
                bad += 1
                print("UNDECIDED %s: %s" % (u, r["reason"][:200]), flush=True)
            for fl in r["failures"]:
                props = [p for p in fl["props"] if not report.is_known(fl, p, known)]
                if props:
                    bad += 1
                    print("FAILS %s under %s" % (fl["obligation"], ",".join(props)), flush=True)
        print("%d units, %d problem(s)" % (len(units) + len(kunits), bad))
    finally:
        shutil.rmtree(d, ignore_errors=True)
    sys.exit(1 if bad else 0)

if __name__ == "__main__":
    main()
