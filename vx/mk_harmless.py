import subprocess,os,shutil
edits=[
 ('src/handlers/diff_header_diff.rs', '''        let name = get_repeated_file_path_from_diff_line(&self.line).unwrap_or_default();
        self.minus_file.clone_from(&name);
        self.plus_file.clone_from(&name);
        self.minus_file_event = FileEvent::Change;
        self.plus_file_event = FileEvent::Change;''','''        // (harmless edit: local renamed, two independent statements swapped, a comment added)
        let repeated_path = get_repeated_file_path_from_diff_line(&self.line).unwrap_or_default();
        self.minus_file.clone_from(&repeated_path);
        self.plus_file.clone_from(&repeated_path);
        self.plus_file_event = FileEvent::Change;
        self.minus_file_event = FileEvent::Change;'''),
 ('src/handlers/hunk.rs','''                let n_parents = diff_type.n_parents();
                let line = prepare(&self.line, n_parents, self.config);
                let state = HunkPlus(diff_type, raw_line);''','''                // an added line
                let n_parents =
                    diff_type.n_parents();
                let line = prepare(&self.line, n_parents, self.config);
                let state = HunkPlus(diff_type, raw_line);'''),
 ('src/features/line_numbers.rs','''    let nr_left = line_numbers_data.line_number[Left];
    let nr_right = line_numbers_data.line_number[Right];''','''    let nr_right = line_numbers_data.line_number[Right];
    let nr_left = line_numbers_data.line_number[Left];'''),
 ('src/git_config/mod.rs','''        match git_config.config.get_i64(key) {
            Ok(value) => Some(value as usize),
            _ => None,
        }''','''        // from the file
        match git_config.config.get_i64(key) {
            Ok(number) => Some(number as usize),
            Err(_) => None,
        }'''),
 ('src/handlers/merge_conflict.rs','''    fn enter_theirs(&mut self, merge_parents: &MergeParents) -> bool {
        use State::*;
        if self.line.starts_with("++=======") {''','''    fn enter_theirs(&mut self, merge_parents: &MergeParents) -> bool {
        use State::*;
        let is_marker = self.line.starts_with("++=======");
        if is_marker {'''),
 ('src/wrapping.rs','''            1 => max_line_length,''','''            // no wrapping
            1 => max_line_length,'''),
]
d='/tmp/mkh'
shutil.rmtree(d,ignore_errors=True)
os.makedirs(d+'/a'); os.makedirs(d+'/b')
out=''
for f,a,b in edits:
    src=open('/repo/'+f).read()
    assert src.count(a)==1,(f,a[:40])
    m=src.replace(a,b)
    for side,txt in (('a',src),('b',m)):
        os.makedirs(os.path.dirname(d+'/'+side+'/'+f),exist_ok=True)
        open(d+'/'+side+'/'+f,'w').write(txt)
    r=subprocess.run(['diff','-u','a/'+f,'b/'+f],cwd=d,capture_output=True,text=True)
    out+=r.stdout
open('/verif/.work/harmless.diff','w').write(out)
shutil.rmtree(d)
print(len(out))
