# Per-property claims (read by mkmanifest.py).  Keep in sync with DESIGN.md section 4.
HOOK_COMMITS = []
_V = "contract-based deductive verification (Verus) of function text extracted mechanically from /repo/src on every run"
_COMMON_NOTE = ("Assumed (listed in the evidence under trusted_base / assumptions): the contracts of stubbed callees that have no home unit, vstd's std specs, "
                "the std contracts in prelude/std_assumed.rs, ansi_term/syntect/regex behaviour, 64-bit usize. Exit 2 (undecided) when an anchor is lost or the verifier cannot decide; never a VIOLATION then.")
CLAIMS = {
 "C01": dict(
    text="Proof (Verus, unbounded) of the per-call contracts that carry 'every hunk line once, in order, intact, not moved past a header': handle_hunk_line extends the ghost sequence all_lines = rendered ++ pending by exactly one entry (the prepared line of the new state's marker width) and never reorders it; paint_buffered/emit/prepare/emit_line_unchanged and every file-header handler preserve all_lines; the output buffer is empty at every direct write (OD); detect_source's table. Per-call invariants quantify over all inputs and histories, which tests cannot.",
    note=_COMMON_NOTE + " Not decided: ansi_term/syntect string assembly inside paint_lines, the side-by-side path, what the regexes accept."),
 "C02": dict(
    text="Proof (Verus) of the handler-level facts that make --color-only line-for-line: hunk lines are added to the rendered sequence exactly once and in order; under color_only should_skip_line is false, the mode-line handler captures nothing and declines, the submodule-short handler declines, header writers emit exactly one record (no blank line, `omit` ignored), the commit line is kept, and painted hunk lines are flushed before a following header.",
    note=_COMMON_NOTE + " The whole-run count (one output line per input line) is not proved as a loop invariant of consume; text preservation relies on the raw-style presets (a constant table). Known finding (open): a hunk header that is not followed by a hunk line is never emitted."),
 "C03": dict(
    text="Proof (Verus) of the safety obligations the verifier generates for every extracted function of every unit - no arithmetic overflow/underflow, no division by zero, indices and slices in bounds, unwrap only on Some/Ok, panic!/unreachable!/delta_unreachable sites unreachable, termination where a decreases clause is given - plus the named crash-corner contracts (hunk-header coordinates non-empty, get_style defined, n_parents known).",
    note=_COMMON_NOTE + " Covers only the functions listed in the evidence (functions_under_contract); panics in unextracted code and in dependencies, allocation size and main.rs are not decided. Preconditions tagged *.assumed (srcinv, sm_wf) are state-machine invariants assumed at handler entry."),
 "C05": dict(
    text="Proof (Verus) of the line-number contracts: the seven-row table of linenumbers_and_styles (which number is shown, which counter moves, wrapped rows carry none), per-hunk initialisation from the first/last coordinate of the parsed header, the hunk header's number is the new-file start and its path is the plus file unless that is /dev/null.",
    note=_COMMON_NOTE + " format::pad, the number-format regex and the side-by-side compensation loop are not (yet) under contract."),
 "C04": dict(
    text="Proof (Verus) that emit_line_unchanged flushes and then writes exactly format_raw_line(raw_line) followed by a newline, that format_raw_line is the identity unless hyperlinks are on and stdout is a tty, and of the 'decline' facet of the handlers under contract (predicate false => Ok(false), nothing written, state unchanged).",
    note=_COMMON_NOTE + " Conditional on 'no handler's predicate holds' (regex semantics are not modelled)."),
 "C07": dict(
    text="Proof (Verus) of the side-by-side geometry kernels: SideBySideData::new_sbs gives two panels of half the configured width whose sum never exceeds it; get_right_fill_style_for_panel always pads the left panel with spaces (never the fill-to-end-of-line ANSI sequence); pad_panel_line_to_width leaves the left panel exactly panel_width columns wide (truncating when wider, padding when narrower, no underflow), so the right panel starts at the same column on every row.",
    note=_COMMON_NOTE + " Assumed: measure_text_width is a width function for which appending n painted spaces adds n columns, truncate_str cuts a wider string to exactly the requested width, empty rows are never wrapped continuation rows. Lossless wrapping (wrap_line, wrap_minusplus_block), row pairing and has_long_lines are out of the verifier's reach (iterator pipelines, nested fns) and are NOT decided."),
 "C08": dict(
    text="Proof (Verus) of the relation that decides whether an input line carries 'something other than git's plain colour': ansi_term_style_equality is exactly 'all eight attributes equal and both colours equal up to the named/0-7 identification' (reflexive, symmetric), the equality key agrees with it, Style::is_applied_to and line_has_style_other_than compose it as stated.",
    note=_COMMON_NOTE + " The two-run relation (coloured vs plain input give the same output) is not decided; escape-sequence stripping and the SGR parser are assumed (first_style_spec uninterpreted)."),
 "C09": dict(
    text="Proof (Verus) that format_osc8_hyperlink returns opener + text + closer in one string (every link that is opened is closed on the same line, the text between is unchanged).",
    note=_COMMON_NOTE + " ansi_term's Display (reset after every painted run) is assumed, not verified; truncation (truncate_str_impl) and the background fill are not yet under contract."),
 "C15": dict(
    text="Proof (Verus) of the closure that superimposes the syntax style on the diff style inside the real coalesce(): the result equals the diff style except for ansi_term_style.foreground, which changes only if the diff style is marked is_syntax_highlighted and the syntax style is not the null style, and then to to_ansi_color(syntect foreground). Background, attributes and decoration are never touched. Safety of the trailing-newline truncation.",
    note=_COMMON_NOTE + " syntect itself, theme independence as a two-run relation and the language lookup are not decided; the loop that groups characters is checked for safety only."),
 "C16": dict(
    text="Proof (Verus) that make_style_sections never slices outside the line or inside a character whatever submatch offsets an `rg --json` record carries: the cursor stays on a char boundary inside the line, invalid/overlapping ranges are skipped.",
    note=_COMMON_NOTE + " Only this kernel is under contract: the grep regexes, serde parsing and expand_tabs' offset shift (closures, partition_point) are outside the verifier's reach; 'sections concatenate to the line' is not yet proved (vstd's str slicing theory)."),
 "C20": dict(
    category="other",
    text="Restricted, sequential claim: the two critical sections on the shared CALLER cell (the background guess inside the spawned closure, and set_calling_process) and the waiter's predicate are extracted by anchor from the real source with three token substitutions (atomic load/store -> field, *caller -> field, notify_all -> ghost flag) and verified by Verus against the lock invariant 'source == KNOWN => cell holds the launched command and is not Pending': the guess never overwrites a launched command, always leaves a non-Pending answer and notifies; the known section records KNOWN under the lock and notifies; the waiter sleeps exactly while Pending. Level `other`, not `proof`, because the extraction is substitution-based (closer to a model) and interleavings are covered only by the assumption that the mutex serialises these sections.",
    note="Assumed: Mutex gives mutual exclusion; Condvar::wait_while re-checks the predicate under the lock; the spawned thread is scheduled and determine_calling_process() returns (never Pending) - liveness beyond that is not decided. CallingProcess is abstracted to Pending/None/Some(id).",
    technique="contract-based deductive verification (Verus) of the critical sections extracted by anchor with stated substitutions; sequential lock invariant"),
 "C17": dict(
    text="Proof (Verus) of the colour rules of the real get_color/get_next_color: a repeated attribution gets the colour recorded for it, a line attributed differently from its predecessor never gets the predecessor's colour (palette of >= 2 distinct entries), a reappearing attribution keeps its colour unless that collides with the line above; no division by zero, no unreachable arm.",
    note=_COMMON_NOTE + " Assumed: String obeys vstd's hash-table key model, a borrowed key maps to at most one value, the palette is non-empty (Config::from exits otherwise). The blame regex and chrono are not modelled."),
 "C19": dict(
    text="Proof (Verus) that a file hyperlink is osc8(url, text) with url = link format with {path} <- the given path, {host} <- hostname, {line} <- the decimal of exactly the line number passed (or empty), and that the OSC 8 wrapper leaves the text unchanged between opener and closer.",
    note=_COMMON_NOTE + " str::replace is uninterpreted; layout transparency (widths ignore OSC sequences) is a two-run relation and is not decided."),
 "C10": dict(
    text="Proof (Verus) of the reset contract of handle_diff_header_diff_line (per-file fields become functions of the current line, nothing stays buffered, pending header and mode info are consumed), of OD at the section boundary, and that file-header writers consume mode_info.",
    note=_COMMON_NOTE + " The concatenation theorem over whole runs is not decided; determinism of hash-ordered iterations is handled by the fixes recorded in known-findings.txt."),
 "C11": dict(
    text="Proof (Verus, unbounded) of the per-line streaming contract of the real handle_hunk_line: after every handled hunk line the output buffer has been emitted, at most line_buffer_size+1 removed/added lines are held back, an unchanged line leaves nothing buffered, and the ghost sequence of rendered lines is only ever extended (never revised).",
    note=_COMMON_NOTE + " OS/pager buffering in main.rs is outside the claim."),
 "C12": dict(
    text="Proof (Verus) that the canonical style string printed by `impl Display for Style` (what --show-config reports) consists of exactly: one word for EVERY attribute that is set (omit, blink, bold, dim, hidden, italic, reverse, strike, ul - with the spelling the parser reads back as a text attribute), then the foreground word (syntax / colour / normal), then the background colour if any; `raw` alone for raw styles.",
    note=_COMMON_NOTE + " Only the printing half is under contract: parse_ansi_term_style (word iterator with closures), parse_color/#rrggbb, to_ansi_color and the actual SGR bytes (ansi_term) are not; the round-trip lemma parse(canon(s)) ~ s is therefore not proved."),
 "C13": dict(
    text="Proof (Verus) of the per-option lookup in the real code: GetOptionValue::get_option_value returns the main [delta] value when there is one, else the value of the first feature - scanning the features string from the last listed word to the first - that has one; get_provenanced_value_for_feature asks the custom [delta \"feature\"] section before the built-in feature's value function; the String/Option<String> getters let a GIT_CONFIG_PARAMETERS override beat the file; GitConfig::get answers nothing when disabled, and the prologue of set_options disables it under --no-gitconfig. Results are equal to spec functions of the arguments, hence deterministic.",
    note=_COMMON_NOTE + " Assumed: String keys obey vstd's hash model and a borrowed &str key finds the entry with these characters; git2 Config::get_string is a function of file and key; split_whitespace/rev give the same words in opposite order; value functions and From/Into<OptionValue> are uninterpreted. NOT decided: the assembly of the feature list (gather_features*: VecDeque, iterator chains, recursion), the set_options! macro (command line beats everything), bool/usize/f64 getters."),
 "C14": dict(
    text="Proof (Verus) of the header-emission contracts: each file-header handler writes at most one header per call (bounded growth of the ghost history), write_generic's blank-line/omit/color-only cases, the diff-line handler resets the handled/current pair, claims exactly the lines with the literal prefix 'diff '.",
    note=_COMMON_NOTE + " Exact header counts over whole histories and box drawing are not decided."),
}
_NOT_YET = "check not built yet in this session (planned, see DESIGN.md section 4)"
NA = {p: _NOT_YET for p in ["C06"]}
NA["C18"] = "quantifies over OS-level fault sequences, child exit statuses and pager selection (run_app / OutputType::try_pager: Command::spawn, wait, process::exit); neither installed deductive verifier has a model of these and no function with a meaningful contract can be separated without refactoring unguarded source (DESIGN.md section 5)"
for _p in CLAIMS:
    CLAIMS[_p].setdefault("technique", _V)
