# Per-property claims (read by mkmanifest.py).  Keep in sync with DESIGN.md section 4.
HOOK_COMMITS = []
CLAIMS = {
 "C11": dict(
    text="Proof (Verus, unbounded) of the per-line streaming contract of the real handle_hunk_line: after every handled hunk line the output buffer has been emitted, at most line_buffer_size+1 removed/added lines are held back, an unchanged line leaves nothing buffered, and the writer's ghost history is only ever extended. This is the right level because the property quantifies over all input prefixes and the bound is a loop-free per-call invariant.",
    note="Assumed: contracts of the callee stubs listed in the evidence (verified in their home units where one exists), OS/pager buffering in main.rs is outside the claim.",
 ),
}
_NOT_YET = "check not built yet in this session (planned, see DESIGN.md section 4)"
NA = {p: _NOT_YET for p in ["C01","C02","C03","C04","C05","C06","C07","C08","C09","C10","C12","C13","C14","C15","C16","C17","C19","C20"]}
NA["C18"] = "quantifies over OS-level fault sequences, child exit statuses and pager selection (run_app / OutputType::try_pager: Command::spawn, wait, process::exit); neither installed deductive verifier has a model of these and no function with a meaningful contract can be separated without refactoring unguarded source (DESIGN.md section 5)"
