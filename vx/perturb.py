#!/usr/bin/env python3
"""vx/perturb.py <mode> <dest>: write a scratch copy of /repo/src in which EVERY .rs file is re-laid-out without changing a token.

  mode `layout`  : indentation removed, runs of blank lines dropped, a line break after every `{` and `;` that ends a line
                   is kept, and every line that ends in `,` `{` or `;` gets a trailing `// perturbed` comment
  mode `comments`: a block comment `/* perturbed */` is put in front of every line that starts a statement
                   (first token an identifier or keyword) inside function bodies

Both are token-preserving (checked with the lexer of vx/rustlex.py: the sequence of code tokens is unchanged), so the
crate still compiles to the same program.  Used by vx/perturb.sh: every unit must verify on the perturbed text exactly
as on the original - no alarm, nothing undecided (anchors are whitespace-insensitive, comments are dropped: rule E0)."""
import os, re, sys, shutil
sys.path.insert(0, os.path.dirname(os.path.abspath(__file__)))
from rustlex import lex, code_tokens

def toks(text):
    return [t.text for t in code_tokens(lex(text))]

def _protected_lines(text):
    """line numbers (0-based) that lie inside a token spanning several lines (string literals, block comments)"""
    prot = set()
    for t in lex(text):
        if "\n" in t.text:
            a = text.count("\n", 0, t.start)
            b = text.count("\n", 0, t.end)
            prot.update(range(a, b + 1))
    return prot

def layout(text):
    out = []
    prot = _protected_lines(text)
    for k, line in enumerate(text.split("\n")):
        if k in prot:
            out.append(line)
            continue
        s = line.strip()
        if not s:
            continue
        if re.search(r"[,{;]$", s) and '"' not in s and "'" not in s and "//" not in s:
            s += "  // perturbed"
        out.append(s)
    return "\n".join(out) + "\n"

def comments(text):
    out = []
    for line in text.split("\n"):
        m = re.match(r"^(\s{8,})((let|if|for|while|match|return|self)\b.*)$", line)
        if m and '"' not in line:
            out.append(m.group(1) + "/* perturbed */ " + m.group(2))
        else:
            out.append(line)
    return "\n".join(out)

def main():
    mode, dest = sys.argv[1], sys.argv[2]
    src = os.environ.get("VERIF_SRC", "/repo/src")
    f = dict(layout=layout, comments=comments)[mode]
    n = changed = skipped = 0
    for root, _, files in os.walk(src):
        for fn in files:
            p = os.path.join(root, fn)
            q = os.path.join(dest, "src", os.path.relpath(p, src))
            os.makedirs(os.path.dirname(q), exist_ok=True)
            if not fn.endswith(".rs"):
                shutil.copy(p, q); continue
            text = open(p).read()
            new = f(text)
            n += 1
            if toks(new) != toks(text):
                # a multi-line string literal or a macro whose layout matters: leave this file alone
                new = text; skipped += 1
                print("   left alone:", os.path.relpath(p, src))
            elif new != text:
                changed += 1
            open(q, "w").write(new)
    shutil.copy(os.path.join(os.path.dirname(src), "Cargo.toml"), os.path.join(dest, "Cargo.toml"))
    print("perturb %s: %d files, %d re-laid-out, %d left alone (token check)" % (mode, n, changed, skipped))

if __name__ == "__main__":
    main()
