"""Engine V runner: generate -> verus -> classify diagnostics against the tag ledger."""
import threading, os, re, sys, json, time, subprocess, hashlib, glob
sys.path.insert(0, os.path.dirname(os.path.abspath(__file__)))
import gen

VERIF = os.environ.get("VERIF_DIR", "/verif")
REPO = os.environ.get("VERIF_REPO", "/repo")
WORK = os.path.join(VERIF, ".work")

TAG_RX = re.compile(r"/[/\*]\s*@([A-Z0-9,]+):([\w\.\-<>]+)")

SEMANTIC = (
    "postcondition not satisfied",
    "precondition not satisfied",
    "precondition not met",
    "assertion failed",
    "assertion not satisfied",
    "invariant not satisfied",
    "loop invariant not",
    "possible arithmetic underflow/overflow",
    "possible division by zero",
    "possible bit shift underflow/overflow",
    "decreases not satisfied",
    "could not prove termination",
    "unreachable code may be reachable",
    "unable to prove post-condition of closure",
    "Call to non-static function fails to satisfy",
)
SAFETY = (
    "possible arithmetic underflow/overflow",
    "possible division by zero",
    "possible bit shift underflow/overflow",
    "decreases not satisfied",
    "could not prove termination",
)
UNDECIDED_HINTS = ("rlimit", "Resource limit", "timed out", "solver", "z3")

def verus_cmd(path, extra=()):
    extra = list(extra)
    base = ["verus", path, "--output-json", "--time", "--multiple-errors", "8", "--error-format=json", "--num-threads", "4"]
    if "--rlimit" not in extra:       # an option may be given only once
        base += ["--rlimit", "40"]
    return base + extra

class UnitResult:
    def __init__(self, unit):
        self.unit = unit
        self.status = "ok"            # ok | failed | undecided
        self.reason = ""
        self.tags = []                # [(line, props, name)]
        self.failures = []            # dicts
        self.vacuity_expected = []    # reach-probe fn names
        self.vacuity_missing = []
        self.verified = 0
        self.errors = 0
        self.times = {}
        self.items = []
        self.log = []
        self.assumptions = []
        self.cmd = ""
        self.gen_path = ""
        self.gen_sha = ""
        self.sources = {}
        self.wall = 0.0
        self.raw_diags = []

def scan_tags(lines):
    tags = []
    for i, l in enumerate(lines, 1):
        for m in TAG_RX.finditer(l):
            tags.append((i, m.group(1).split(","), m.group(2)))
    return tags

def scan_assumptions(lines):
    out = []
    for i, l in enumerate(lines):
        s = l.strip()
        if s.startswith("//"):
            continue
        if "verifier::external_body" in s:
            # name = next line with fn/struct
            for k in range(i + 1, min(i + 6, len(lines))):
                m = re.search(r"\b(fn|struct)\s+(\w+)", lines[k])
                if m:
                    out.append("external_body %s %s" % (m.group(1), m.group(2)))
                    break
        m = re.search(r"assume_specification\s*(<[^>]*>)?\s*\[\s*([^\]]+)\]", s)
        if m:
            out.append("assume_specification %s" % m.group(2).strip())
        if re.search(r"\b(assume|admit)\s*\(", s):
            out.append("assume/admit at generated line %d: %s" % (i + 1, s[:80]))
        if re.search(r"\baxiom\b", s) and "fn" in s:
            out.append("axiom: %s" % s[:80])
        if re.search(r"\buninterp\s+spec\s+fn\s+(\w+)", s):
            out.append("uninterpreted %s" % re.search(r"\buninterp\s+spec\s+fn\s+(\w+)", s).group(1))
    return out

def run_unit(unit, extra=(), repo=REPO, keep=True):
    r = UnitResult(unit)
    t0 = time.time()
    os.makedirs(WORK, exist_ok=True)
    try:
        G = gen.Generator(repo=repo, verif=VERIF)
        g = G.generate(unit)
    except gen.AnchorLost as e:
        r.status, r.reason = "undecided", "anchor lost: %s" % e
        r.wall = time.time() - t0
        return r
    except Exception as e:  # generator bug: never an alarm
        r.status, r.reason = "undecided", "generator error: %r" % e
        r.wall = time.time() - t0
        return r
    text = g.text()
    path = os.path.join(WORK, unit + ".rs")
    if not (os.path.exists(path) and open(path).read() == text):   # (re-runs of a unit within one check share the file)
        tmp = path + ".%d.tmp" % threading.get_ident()
        open(tmp, "w").write(text)
        os.replace(tmp, path)
    lines = text.split("\n")
    r.gen_path, r.gen_sha = path, hashlib.sha256(text.encode()).hexdigest()
    r.items, r.sources = g.items, g.sources
    r.tags = scan_tags(lines)
    r.assumptions = scan_assumptions(lines)
    r.vacuity_expected = re.findall(r"fn\s+(verif_reach_\w+)", text)
    cmd = verus_cmd(path, extra)
    r.cmd = " ".join(cmd)
    try:
        p = subprocess.run(cmd, capture_output=True, text=True, timeout=900, cwd=WORK)
    except subprocess.TimeoutExpired:
        r.status, r.reason = "undecided", "verus timeout"
        r.wall = time.time() - t0
        return r
    try:
        out = json.loads(p.stdout)
    except Exception:
        out = None
    diags = []
    for l in p.stderr.split("\n"):
        l = l.strip()
        if l.startswith("{"):
            try:
                diags.append(json.loads(l))
            except Exception:
                pass
    r.raw_diags = diags
    if out is None:
        r.status, r.reason = "undecided", "verus produced no JSON (exit %s): %s" % (p.returncode, p.stderr[-400:])
        r.wall = time.time() - t0
        return r
    vr = out.get("verification-results", {})
    r.verified, r.errors = vr.get("verified", 0), vr.get("errors", 0)
    tm = out.get("times-ms", {})
    r.times = {"total_ms": tm.get("total"), "smt_run_ms": (tm.get("smt") or {}).get("smt-run"),
               "verify_ms": tm.get("total-verify")}
    fb = {}
    for m in ((tm.get("smt") or {}).get("smt-run-module-times") or []):
        for f in m.get("function-breakdown", []) or []:
            fb[f["function"]] = {"ms": f.get("time"), "ok": f.get("success")}
    r.times["functions"] = fb
    # classify diagnostics
    errs = [d for d in diags if d.get("level") == "error"]
    reach_hit = set()
    for d in errs:
        msg = d.get("message", "")
        if msg.startswith("aborting due to"):
            continue
        spans = d.get("spans", [])
        sem = any(msg.startswith(k) for k in SEMANTIC)
        if not sem:
            r.status = "undecided"
            r.reason = "non-verification error from verus/rustc: %s" % msg[:300]
            continue
        # which function?
        prim = [s for s in spans if s.get("is_primary")] or spans
        line = prim[0]["line_start"] if prim else 0
        item = None
        for it in g.items:
            if it["gen_lo"] <= line <= it["gen_hi"]:
                item = it
        fn_name = item["name"] if item else "<template>"
        # reach probes
        in_reach = None
        for s in spans:
            for k in range(max(0, s["line_start"] - 30), s["line_start"]):
                pass
        rp = _enclosing_reach(lines, line)
        if rp:
            reach_hit.add(rp)
            continue
        tags = []
        for s in spans:
            if not s.get("file_name", "").endswith(unit + ".rs"):
                continue
            for ln in range(s["line_start"], s["line_end"] + 1):
                for (tl, props, name) in r.tags:
                    if tl == ln:
                        tags.append((props, name))
        src_line = None
        if item:
            src_line = item["src_line"] + max(0, line - item["gen_lo"] - 1)
        kind = next(k for k in SEMANTIC if msg.startswith(k))
        snippet = lines[line - 1].strip() if 0 < line <= len(lines) else ""
        if tags:
            for props, name in tags:
                r.failures.append(dict(unit=unit, obligation="%s/%s@%s" % (unit, name, fn_name), tag=name, props=props,
                                       fn=fn_name, kind=kind, gen_line=line, src=item["src"] if item else None,
                                       src_line=src_line, snippet=snippet, message=_render(d)))
        elif kind.startswith("precondition") and _callee_is_lemma(lines, spans, line, unit):
            # a proof step (call of a lemma of the contract file) inside a function under contract no longer
            # goes through: the function's own tagged contract is what this step establishes
            lem = _callee_is_lemma(lines, spans, line, unit)
            props = _fn_props(r, item)
            r.failures.append(dict(unit=unit, obligation="%s/%s.proofstep.%s" % (unit, fn_name, lem), tag=None, props=props,
                                   fn=fn_name, kind=kind, gen_line=line, src=item["src"] if item else None,
                                   src_line=src_line, snippet=snippet, message=_render(d)))
        else:
            props = ["C03"] if (kind in SAFETY or kind.startswith("precondition")) else _fn_props(r, item)
            r.failures.append(dict(unit=unit, obligation="%s/%s.safety" % (unit, fn_name) if props == ["C03"] else "%s/%s.%s" % (unit, fn_name, kind.split()[0]),
                                   tag=None, props=props, fn=fn_name, kind=kind, gen_line=line,
                                   src=item["src"] if item else None, src_line=src_line, snippet=snippet, message=_render(d)))
    r.vacuity_missing = [p for p in r.vacuity_expected if p not in reach_hit]
    if r.status != "undecided":
        if r.failures:
            r.status = "failed"
        elif r.errors and not r.failures and len(reach_hit) != r.errors:
            # errors that we could not attribute
            r.status, r.reason = "undecided", "unattributed verus errors (%d)" % r.errors
        if r.vacuity_missing:
            r.status, r.reason = "undecided", "vacuous precondition (reach probe verified): %s" % r.vacuity_missing
        if r.verified == 0:
            r.status, r.reason = "undecided", "no function verified"
    if vr.get("encountered-vir-error"):
        r.status = "undecided"
        r.reason = r.reason or "VIR error"
    r.wall = time.time() - t0
    return r

def _enclosing_reach(lines, line):
    for k in range(line - 1, max(0, line - 60), -1):
        m = re.search(r"fn\s+(verif_reach_\w+)", lines[k])
        if m:
            return m.group(1)
        if lines[k].startswith("// >>>") or lines[k].startswith("// <<<"):
            return None
    return None

def _callee_is_lemma(lines, spans, primary_line, unit):
    """name of the `proof fn` whose `requires` a failed-precondition diagnostic points at, else None"""
    for s in spans:
        if s.get("is_primary") or not s.get("file_name", "").endswith(unit + ".rs"):
            continue
        for k in range(s["line_start"] - 1, max(0, s["line_start"] - 80), -1):
            m = re.search(r"\bfn\s+(\w+)", lines[k])
            if m:
                return m.group(1) if re.search(r"\bproof\s+fn\b", lines[k]) else None
            if lines[k].startswith("// >>>") or lines[k].startswith("// <<<"):
                break
    return None

def _fn_props(r, item):
    if not item:
        return sorted({p for (_, ps, _) in r.tags for p in ps}) or ["C03"]
    ps = sorted({p for (l, ps, _) in r.tags if item["gen_lo"] <= l <= item["gen_hi"] for p in ps})
    return ps or ["C03"]

def _render(d):
    return d.get("rendered") or d.get("message", "")

def all_units():
    return sorted(os.path.basename(p)[:-3] for p in glob.glob(os.path.join(VERIF, "contracts", "U*.rs")))
