"""Engine V generator: builds one Verus file per unit from a committed template
(contracts/<unit>.rs) plus item text extracted byte-for-byte from /repo/src.

Directives (lines whose first non-blank characters are `//@`):

  //@ include <path relative to /verif/contracts>
  //@ type <src> <ItemPath> [keep=a,b] [derives=Clone,Copy] [noderive]
  //@ fn   <src> <ItemPath> [spec=NAME] [od=off] [vis=keep] [as=NEWNAME]
  //@ stub <src> <ItemPath> [spec=NAME] [vis=keep]
  continuation lines (apply to the preceding fn/stub directive):
  //@| <contract text: requires/ensures/decreases ...>
  //@loop N| <invariant/decreases text for the N-th loop of the body>
  //@rewrite <<<exact source text>>> => <<<replacement>>>     (R3 opaque-expression hatch; must match exactly once)
  //@rewriteall <<<exact source text>>> => <<<replacement>>>  (must match at least once)
  //@before <<<anchor>>>| <ghost text inserted before the anchor>
  //@after  <<<anchor>>>| <ghost text inserted after the anchor>

Everything else in the template is copied as is (hand-written specs, stubs for
dependencies, lemmas).  See DESIGN.md section 2.1 for the rule list E1-E8.
"""
import os, re, hashlib, json
from rustlex import SourceFile, lex, code_tokens, match_brackets, LexError

class AnchorLost(Exception):
    """Item / text / loop named by a template is not in /repo any more, or a
    construct is outside the generator's rules.  Mapped to exit 2, never to a
    VIOLATION."""

KEEP_DERIVES = ("Clone", "Copy", "PartialEq", "Eq", "Default")
TYPE_TABLE = [
    ("dyn std::io::Write", "Writer"),
    ("dyn io::Write", "Writer"),
    ("dyn Write", "Writer"),
]

def _strip_comments(text):
    """Remove // and /* */ comments (string aware) -- used on signatures only."""
    out, last = [], 0
    for t in lex(text):
        if t.kind in ("comment", "doc"):
            out.append(text[last:t.start]); last = t.end
    out.append(text[last:])
    return "".join(out)

class Specs:
    def __init__(self, specdir):
        self.blocks = {}
        self.where = {}
        if not os.path.isdir(specdir):
            return
        for fn in sorted(os.listdir(specdir)):
            if not fn.endswith(".spec"):
                continue
            name, buf = None, []
            for line in open(os.path.join(specdir, fn)).read().split("\n"):
                m = re.match(r"^###\s+(\S+)\s*$", line)
                if m:
                    if name:
                        self._add(name, buf, fn)
                    name, buf = m.group(1), []
                elif name is not None:
                    buf.append(line)
            if name:
                self._add(name, buf, fn)
    def _add(self, name, buf, fn):
        if name in self.blocks:
            raise AnchorLost("duplicate spec block %s" % name)
        self.blocks[name] = "\n".join(buf).rstrip() + "\n"
        self.where[name] = fn
    def get(self, name):
        if name not in self.blocks:
            raise AnchorLost("no spec block named %s" % name)
        return self.blocks[name]

class Generated:
    def __init__(self):
        self.lines = []          # output lines
        self.items = []          # dicts: kind, name, src, src_line, gen_lo, gen_hi, rules
        self.log = []            # extraction-drop log (strings)
        self.sources = {}        # src path -> sha256
    def text(self):
        return "\n".join(self.lines) + "\n"

class Generator:
    def __init__(self, repo="/repo", verif="/verif"):
        self.repo, self.verif = repo, verif
        self.cdir = os.path.join(verif, "contracts")
        self.specs = Specs(os.path.join(self.cdir, "specs"))
        self._files = {}

    # ---------------------------------------------------------------- sources
    def source(self, rel):
        if rel not in self._files:
            p = os.path.join(self.repo, rel)
            if not os.path.exists(p):
                raise AnchorLost("source file %s missing" % rel)
            try:
                self._files[rel] = SourceFile(rel, open(p, encoding="utf-8").read())
            except LexError as e:
                raise AnchorLost("cannot tokenise %s: %s" % (rel, e))
        return self._files[rel]

    def find(self, rel, path):
        try:
            return self.source(rel).find(path)
        except KeyError as e:
            raise AnchorLost("item not found: %s" % e)

    # ---------------------------------------------------------------- template
    def generate(self, unit):
        g = Generated()
        self.g = g
        self.unit = unit
        self._broadcast = None
        self._reach_n = 0
        self._vars = {}
        self._lits = {}
        self._process_file(os.path.join(self.cdir, unit + ".rs"), g)
        for rel, sf in self._files.items():
            g.sources[rel] = hashlib.sha256(sf.src.encode()).hexdigest()
        return g

    def _subst_lit(self, line):
        if "${" not in line:
            return line
        def rep(mm):
            if mm.group(1) not in self._lits:
                raise AnchorLost("unknown literal constant ${%s}" % mm.group(1))
            return self._lits[mm.group(1)]
        return re.sub(r"\$\{(\w+)\}", rep, line)

    def _process_file(self, path, g):
        lines = open(path).read().split("\n")
        i = 0
        while i < len(lines):
            line = lines[i]
            s = line.strip()
            if not s.startswith("//@"):
                g.lines.append(self._subst_lit(line))
                i += 1
                continue
            m = re.match(r"^//@\s*(\w+)\s*(.*)$", s)
            if not m:
                raise AnchorLost("bad directive: %s" % s)
            cmd, rest = m.group(1), m.group(2)
            if cmd == "set":
                k, _, v = rest.partition(" ")
                self._vars[k] = v.strip()
                i += 1
                continue
            if cmd == "define":
                # `//@ define NAME text...`: `${NAME}` in the contract text that follows stands for this text
                # (abbreviation for proof text that has to be repeated at several anchors)
                mm = re.match(r"^(\w+)\s+(.*)$", rest)
                if not mm:
                    raise AnchorLost("bad define directive")
                self._lits[mm.group(1)] = self._subst_lit(mm.group(2))
                i += 1
                continue
            if cmd == "litconst":
                # `//@ litconst <src> <CONST> as=NAME`: the integer literal a `const` of the real source is
                # initialised with becomes `${NAME}` in the spec text that follows (specs follow the code's constants)
                pos, opts = self._opts(rest)
                it = self.find(pos[0], pos[1])
                mm = re.search(r"=\s*([0-9][0-9_]*)\s*;\s*$", it.text.strip())
                if not mm or "as" not in opts:
                    raise AnchorLost("litconst: %s is not initialised with an integer literal" % pos[1])
                self._lits[opts["as"]] = mm.group(1).replace("_", "")
                g.lines.append("// litconst %s = %s (%s)" % (opts["as"], self._lits[opts["as"]], pos[1]))
                i += 1
                continue
            rest = re.sub(r"\$(\w+)", lambda mm: self._vars.get(mm.group(1), ""), rest)
            # collect continuation lines
            cont = []
            j = i + 1
            while j < len(lines):
                sj = lines[j].strip()
                if re.match(r"^//@(\||loop\s|rewrite|rewriteall|before|afterstmt|after|sig\s|from\s|fromafter\s|to\s|toblock|until\s|tail\s|ghostdefault\s|localdefault\s)", sj):
                    cont.append(self._subst_lit(sj))
                    j += 1
                else:
                    break
            i = j
            if cmd == "include":
                self._process_file(os.path.join(self.cdir, rest.strip()), g)
            elif cmd == "type":
                self._emit_type(rest, cont, g)
            elif cmd in ("fn", "stub"):
                self._emit_fn(cmd, rest, cont, g)
            elif cmd == "region":
                self._emit_region(rest, cont, g)
            elif cmd == "shims":
                self._emit_shims(rest, g)
            elif cmd == "broadcast":
                # `broadcast use` is inserted at the top of every verified body (a module-level
                # `broadcast use` makes every definition of the module depend on the lemmas it names)
                self._broadcast = rest.split()
            elif cmd == "unit" or cmd == "note":
                g.lines.append("// " + s[3:])
            else:
                raise AnchorLost("unknown directive %s" % cmd)

    def _emit_region(self, rest, cont, g):
        """`//@ region <src> <fnpath>` + `//@sig <signature text>` + `//@from <<<anchor>>>` + `//@to <<<anchor>>>`
        (+ rewrite / `//@|` contract lines): the statements of the named function between the two
        anchors (inclusive) are copied verbatim and wrapped as the body of a function with the given
        signature.  Used only for critical sections that live inside closures (C20); this is a
        substitution-based extraction and is reported as such (level `other`)."""
        pos, opts = self._opts(rest)
        rel, path = pos[0], pos[1]
        it = self.find(rel, path)
        sf = self.source(rel)
        text = _strip_comments(sf.src[sf.toks[it.body_open].start:sf.toks[it.body_close].end])   # E0: comments dropped
        sig = frm = to = None
        fromafter = False   # `//@fromafter <<<a>>>`: the region starts just AFTER the anchor
        until = False   # `//@until <<<a>>>`: the region ends just BEFORE the anchor; `//@from <<<^>>>`: starts at the body's first statement
        spec, edits = "", []
        rloops = {}
        tail = None   # `//@tail EXPR`: the value of the wrapper function (names of the region's own locals)
        for c in cont:
            m = re.match(r"^//@sig\s+(.*)$", c)
            if m: sig = m.group(1); continue
            m = re.match(r"^//@from\s*<<<(.*)>>>\s*$", c)
            if m: frm = m.group(1); continue
            m = re.match(r"^//@fromafter\s*<<<(.*)>>>\s*$", c)
            if m: frm = m.group(1); fromafter = True; continue
            m = re.match(r"^//@to\s*<<<(.*)>>>\s*$", c)
            if m: to = m.group(1); continue
            m = re.match(r"^//@until\s*<<<(.*)>>>\s*$", c)
            if m: to = m.group(1); until = True; continue
            if re.match(r"^//@toblock\s*$", c):
                to = "\x00block"; continue   # the region ends with the `}` that closes the first `{` at or after the `from` anchor
            m = re.match(r"^//@\|\s?(.*)$", c)
            if m: spec += m.group(1) + "\n"; continue
            m = re.match(r"^//@loop\s+(\d+)\|\s?(.*)$", c)
            if m: rloops.setdefault(int(m.group(1)), []).append(m.group(2)); continue
            m = re.match(r"^//@tail\s+(.*)$", c)
            if m: tail = m.group(1); continue
            edits.append(c)
        if not (sig and frm and to):
            raise AnchorLost("region needs sig/from/to")
        mf = list(re.finditer(r"\{", text))[:1] if frm == "^" else list(self._ws_regex(frm).finditer(text))
        if len(mf) == 0 and frm != "^" and not opts.get("optional"):
            mf = list(self._ws_regex_tolerant(frm).finditer(text))
        if to == "\x00block":
            mt = []
            if len(mf) == 1:
                toks = code_tokens(lex(text))
                pairs = match_brackets(toks)
                for k, t in enumerate(toks):
                    if t.start >= mf[0].start() and t.text == "{":
                        class _M:   # minimal stand-in for a regex match object
                            def __init__(self, a, b): self._a, self._b = a, b
                            def start(self): return self._a
                            def end(self): return self._b
                        mt = [_M(toks[pairs[k]].start, toks[pairs[k]].end)]
                        break
        else:
            mt = list(self._ws_regex(to).finditer(text))
            if len(mt) == 0:
                mt = list(self._ws_regex_tolerant(to).finditer(text))
        if len(mf) == 0 and opts.get("optional"):
            # the statement was introduced by a repair; on a tree without it the contracts of the code that would
            # have used it decide (the rewrites that direct calls to this region are skipped with it)
            g.lines.append("// (optional region `%s` absent from %s)" % (frm[:50], path))
            return
        if len(mf) != 1 or len(mt) != 1 or mt[0].end() <= mf[0].start():
            raise AnchorLost("region anchors not found exactly once in %s (from:%d to:%d)" % (path, len(mf), len(mt)))
        body = text[(mf[0].end() if (frm == "^" or fromafter) else mf[0].start()):(mt[0].start() if until else mt[0].end())]
        rules = ["E1' region of %s between `%s` and `%s` wrapped as `%s` (substitution-based extraction)" % (path, frm[:50], to.replace("\x00block", "the end of that block")[:50], sig[:80])]
        if body.rstrip().endswith(","):
            # a field initialiser `name: EXPR,` used as the value of a function: the separating comma is dropped
            body = body.rstrip()[:-1]
            rules.append("E1' trailing `,` of an initialiser expression dropped")
        for c in edits:
            if c.startswith("//@rewrite"):
                body = self._apply_cont_rewrite(c, body, rules, it)
        body = self._generic_desugar(body, rules)
        body = self._rewrite_macros(body, rules, od=False)
        for c in edits:
            if c.startswith("//@before") or c.startswith("//@after"):
                body = self._apply_insert(c, "{" + body + "}", rules, it)[1:-1]
        if rloops:
            body = self._splice_loops("{" + body + "}", rloops, it)[1:-1]
        for c in edits:
            # `//@localdefault NAME: TYPE = VALUE`: the wrapper's `//@tail` / contract names a local of the region; on a
            # tree whose text no longer declares it, a constant stands in, so that the obligations (not the front end)
            # decide.  Nothing is added when the local exists.
            m = re.match(r"^//@localdefault\s+(\w+)\s*:\s*(.+?)\s*=\s*(.+)$", c)
            if m and not re.search(r"\blet\s+(mut\s+)?%s\b" % re.escape(m.group(1)), body):
                body = " let %s: %s = %s; " % (m.group(1), m.group(2), m.group(3)) + body
                rules.append("localdefault: local `%s` absent from the region, constant %s used" % (m.group(1), m.group(3)))
        if tail:
            body = body + "\n" + tail
            rules.append("E1' wrapper returns `%s`" % tail)
        line = sf.src.count("\n", 0, sf.toks[it.body_open].start + mf[0].start()) + 1
        lo = len(g.lines) + 1
        g.lines.append("// >>> [region] %s:%d %s" % (rel, line, path))
        g.lines.append(sig)
        if spec.strip():
            g.lines += ["    " + l for l in spec.rstrip("\n").split("\n")]
        g.lines.append("{")
        if getattr(self, "_broadcast", None):
            g.lines.append(" broadcast use {%s}; " % ", ".join(self._broadcast))
            body = self._broadcast_in_loops(body)
        g.lines += body.split("\n")
        g.lines.append("}")
        g.lines.append("// <<<")
        g.items.append(dict(kind="fn", name=path + "[region]", src=rel, src_line=line, gen_lo=lo, gen_hi=len(g.lines),
                            rules=rules, mode="verified", spec=None))

    def _emit_shims(self, rest, g):
        """`//@ shims a::b c` -> nested modules that glob re-export the crate root, so that the
        module-qualified paths of the real code (`utils::tabs::expand`, `config::Config`) resolve
        to the single-file crate's items."""
        tree = {}
        for p in rest.split():
            node = tree
            for part in p.split("::"):
                node = node.setdefault(part, {})
        def emit(node, ind):
            for name, sub in node.items():
                g.lines.append("%spub mod %s { #[allow(unused_imports)] pub use crate::*;" % (ind, name))
                emit(sub, ind + "    ")
                g.lines.append("%s}" % ind)
        emit(tree, "")

    @staticmethod
    def _opts(rest):
        parts = rest.split()
        pos = [p for p in parts if "=" not in p or p.startswith("<")]
        opts = dict(p.split("=", 1) for p in parts if "=" in p and not p.startswith("<"))
        return pos, opts

    # ---------------------------------------------------------------- types
    def _emit_type(self, rest, cont, g):
        pos, opts = self._opts(rest)
        rel, path = pos[0], pos[1]
        it = self.find(rel, path)
        sf = self.source(rel)
        derives = []
        for a in it.attrs:
            m = re.match(r"#\[derive\((.*)\)\]$", a, re.S)
            if m:
                derives += [d.strip() for d in m.group(1).split(",") if d.strip()]
        kept = [d for d in derives if d.split("::")[-1] in KEEP_DERIVES]
        if "derives" in opts:
            kept = [d for d in opts["derives"].split(",") if d]
        if "noderive" in pos:
            kept = []
        dropped = [d for d in derives if d not in kept]
        text = it.text
        rules = []
        if it.kind == "struct" and it.body_open is not None and sf.toks[it.body_open].text == "{":
            text = self._struct_fields(sf, it, opts.get("keep"), rules)
        elif it.kind == "struct":
            # tuple struct: make fields pub
            text = re.sub(r"\(\s*(?!pub\b)", "(pub ", text, count=1) if "(" in text else text
        text = self._make_pub(text)
        text = self._apply_type_table(text, rules)
        if it.kind == "const" and re.search(r":\s*&\s*str\s*=", text):
            # E2: the elided lifetime of a `const X: &str` is 'static by definition; inside `verus!` it must be written
            text = re.sub(r":\s*&\s*str\s*=", ": &'static str =", text, count=1)
            rules.append("E2 const %s: elided lifetime written out (&'static str)" % it.name)
        if not any(k.split("::")[-1] == "Default" for k in kept):
            text = re.sub(r"#\[default\]\s*", "", text)
        for c in cont:
            text = self._apply_cont_rewrite(c, text, rules, it)
        lo = len(g.lines) + 1
        g.lines.append("// >>> [%s] %s:%d %s" % (it.kind, rel, it.line(), path))
        clone_impl = None
        has_generics = bool(re.match(r"^\s*pub\s+(struct|enum)\s+\w+\s*<", text))
        if "Clone" in kept and "Copy" not in kept and not has_generics and it.kind in ("struct", "enum"):
            # E2: Verus gives no specification to a derived non-Copy Clone; replace the derive by the
            # (assumed) contract that a derived clone returns an equal value.
            kept = [k for k in kept if k != "Clone"]
            clone_impl = ["impl Clone for %s {" % it.name,
                          "    #[verifier::external_body]",
                          "    fn clone(&self) -> (r: Self) ensures r == *self { unimplemented!() }",
                          "}"]
            rules.append("E2 derive(Clone) on %s replaced by assumed contract `clone() == *self`" % it.name)
        if kept:
            g.lines.append("#[derive(%s)]" % ", ".join(kept))
        g.lines += text.split("\n")
        if clone_impl:
            g.lines += clone_impl
        g.lines.append("// <<<")
        if dropped:
            rules.append("E2 derives dropped: " + ",".join(dropped))
        g.items.append(dict(kind=it.kind, name=path, src=rel, src_line=it.line(), gen_lo=lo, gen_hi=len(g.lines), rules=rules, mode="type"))

    def _struct_fields(self, sf, it, keep, rules):
        toks = sf.toks
        o, c = it.body_open, it.body_close
        head = sf.src[it.start:toks[o].end]
        # split fields at depth-0 commas
        fields, cur, k = [], o + 1, o + 1
        while k < c:
            t = toks[k]
            if t.kind == "punct" and t.text in ("(", "[", "{"):
                k = sf.pairs[k] + 1
                continue
            if t.kind == "punct" and t.text == "<":
                # generics: walk to matching '>'
                depth = 0
                while k < c:
                    if toks[k].text == "<": depth += 1
                    elif toks[k].text == ">":
                        depth -= 1
                        if depth == 0: break
                    elif toks[k].text in ("(", "[", "{"):
                        k = sf.pairs[k]
                    k += 1
                k += 1
                continue
            if t.kind == "punct" and t.text == ",":
                fields.append((cur, k - 1))
                cur = k + 1
            k += 1
        if cur < c:
            fields.append((cur, c - 1))
        keepset = set(keep.split(",")) if keep else None
        out = [head]
        kept_names, dropped_names = [], []
        for (a, b) in fields:
            # skip attributes
            while toks[a].text == "#" and toks[a + 1].text == "[":
                a = sf.pairs[a + 1] + 1
            k2 = a
            if toks[k2].text == "pub":
                k2 += 1
                if toks[k2].text == "(":
                    k2 = sf.pairs[k2] + 1
            name = toks[k2].text
            if keepset is not None and name not in keepset:
                dropped_names.append(name)
                continue
            kept_names.append(name)
            ftext = sf.src[toks[k2].start:toks[b].end]
            out.append("    pub " + _strip_comments(ftext) + ",")
        if keepset is not None:
            missing = keepset - set(kept_names)
            if missing:
                raise AnchorLost("struct %s lacks fields %s" % (it.name, sorted(missing)))
            rules.append("E6 fields dropped from %s: %s" % (it.name, ",".join(dropped_names)))
        out.append("}")
        return "\n".join(out)

    @staticmethod
    def _make_pub(text):
        text = re.sub(r"^\s*pub\s*\([^)]*\)\s*", "pub ", text)
        if not re.match(r"^\s*pub\b", text):
            text = "pub " + text
        return text

    def _apply_type_table(self, text, rules):
        for a, b in TYPE_TABLE + getattr(self, "extra_types", []):
            if a in text:
                text = text.replace(a, b)
                rules.append("E6 type %s -> %s" % (a, b))
        return text

    # ---------------------------------------------------------------- fns
    def _emit_fn(self, cmd, rest, cont, g):
        pos, opts = self._opts(rest)
        rel, path = pos[0], pos[1]
        try:
            it = self.find(rel, path)
        except AnchorLost:
            if opts.get("optional"):
                # the function was introduced by a repair; on a tree without it the callers' contracts
                # (which do not mention it) decide, so its absence is not an anchor loss
                g.lines.append("// (optional item %s absent from %s)" % (path, rel))
                return
            raise
        if it.kind != "fn":
            raise AnchorLost("%s in %s is not a fn" % (path, rel))
        sf = self.source(rel)
        rules = []
        toks = sf.toks
        if it.body_open is None:
            raise AnchorLost("fn %s has no body" % path)
        sig = sf.src[it.start:toks[it.body_open].start]
        body = sf.src[toks[it.body_open].start:toks[it.body_close].end]
        if not opts.get("plain"):
            # E0: comments of the body are dropped (anchors then do not depend on them); nothing executable is touched
            body = _strip_comments(body)
        sig = _strip_comments(sig).rstrip()
        in_trait_impl = "@" in path or opts.get("vis") == "keep"
        if not in_trait_impl:
            sig = self._make_pub(sig)
        sig = self._apply_type_table(sig, rules)
        if "as" in opts:
            sig = re.sub(r"\bfn\s+%s\b" % re.escape(it.name), "fn " + opts["as"], sig, count=1)
        if "self" in opts:
            # E8': a trait-impl method extracted as a free function: `Self` is spelled out as the
            # impl's self type (given in the directive; a wrong type is a type error, not a proof)
            sig = re.sub(r"\bSelf\b", opts["self"], sig)
            body = re.sub(r"\bSelf\b", opts["self"], body)
            rules.append("E8' Self := %s" % opts["self"])
        sig_head, ret, where = self._split_sig(sig)
        spec = ""
        if "spec" in opts:
            spec += self.specs.get(opts["spec"])
        loops, edits = {}, []
        for c in cont:
            m = re.match(r"^//@\|\s?(.*)$", c)
            if m:
                spec += m.group(1) + "\n"
                continue
            m = re.match(r"^//@loop\s+(\d+)\|\s?(.*)$", c)
            if m:
                loops.setdefault(int(m.group(1)), []).append(m.group(2))
                continue
            edits.append(c)
        out_sig = sig_head
        plain = bool(opts.get("plain"))   # engine K (Kani): the function is emitted as written (no Verus syntax, no desugaring)
        if ret is not None:
            out_sig += (" -> %s" % ret.strip()) if plain else (" -> (r: %s)" % ret.strip())
        if where:
            out_sig += "\n    " + where.strip()
        lo = len(g.lines) + 1
        g.lines.append("// >>> [%s] %s:%d %s" % (cmd, rel, it.line(), path))
        if cmd == "stub":
            g.lines.append("#[verifier::external_body]")
            g.lines += out_sig.split("\n")
            if spec.strip():
                g.lines += ["    " + l for l in spec.rstrip("\n").split("\n")]
            g.lines.append("{ unimplemented!() }")
            mode = "stub"
        else:
            body = self._apply_type_table(body, rules)
            # user rewrites first (they match exact source text), then generic rules
            for c in edits:
                if c.startswith("//@rewrite"):
                    body = self._apply_cont_rewrite(c, body, rules, it)
            if not plain:
                body = self._generic_desugar(body, rules)
                self._flush = (opts.get("flush") == "on")
                body = self._rewrite_macros(body, rules, od=(opts.get("od") != "off"))
                if opts.get("od") != "off":
                    body = self._od_wrap(body, rules)
            for c in edits:
                if c.startswith("//@before") or c.startswith("//@after"):  # incl. afterstmt
                    body = self._apply_insert(c, body, rules, it)
            if loops:
                body = self._splice_loops(body, loops, it)
            for c in edits:
                # `//@ghostdefault NAME: TYPE = VALUE`: contract text may name a local of the real body; on a tree
                # whose body no longer declares it, a ghost constant stands in, so that the obligations (not the
                # front end) decide.  Nothing is added when the local exists.
                m = re.match(r"^//@ghostdefault\s+(\w+)\s*:\s*(.+?)\s*=\s*(.+)$", c)
                if m and not re.search(r"\blet\s+(mut\s+)?%s\b" % re.escape(m.group(1)), body):
                    b = body.index("{")
                    body = body[:b + 1] + " let ghost %s: %s = %s; " % (m.group(1), m.group(2), m.group(3)) + body[b + 1:]
                    rules.append("ghostdefault: local `%s` absent from the body, ghost constant %s used" % (m.group(1), m.group(3)))
            if getattr(self, "_broadcast", None):
                # a function-level `broadcast use` is not in effect inside loop bodies: repeat it there
                body = self._broadcast_in_loops(body)
                b = body.index("{")
                body = body[:b + 1] + " broadcast use {%s}; " % ", ".join(self._broadcast) + body[b + 1:]
            for a in [x for x in opts.get("attrs", "").split(";") if x]:
                g.lines.append("#[%s]" % a)   # verifier attributes only (e.g. verifier::rlimit(200))
            g.lines += out_sig.split("\n")
            if spec.strip():
                g.lines += ["    " + l for l in spec.rstrip("\n").split("\n")]
            g.lines += body.split("\n")
            mode = "verified"
            req = self._requires_of(spec)
            if req:
                # vacuity guard: the same precondition must not be contradictory -> this probe must FAIL
                self._reach_n = getattr(self, "_reach_n", 0) + 1
                pname = "verif_reach_%d_%s" % (self._reach_n, re.sub(r"\W", "_", path))
                psig = re.sub(r"\bfn\s+\w+", "fn " + pname, sig_head, count=1)
                g.lines.append("// vacuity probe (must fail): precondition of %s is satisfiable" % path)
                g.lines += psig.split("\n")
                if where:
                    g.lines.append("    " + where.strip())
                g.lines.append("    requires")
                g.lines += ["        " + l for l in req]
                g.lines.append("{ assert(false); }")
        g.lines.append("// <<<")
        g.items.append(dict(kind="fn", name=path, src=rel, src_line=it.line(), gen_lo=lo, gen_hi=len(g.lines),
                            rules=rules, mode=mode, spec=opts.get("spec")))

    @staticmethod
    def _requires_of(spec):
        out, on = [], False
        for l in spec.split("\n"):
            st = l.strip()
            if re.match(r"^(requires)\b", st):
                on = True
                st = st[len("requires"):].strip()
                if not st:
                    continue
            elif re.match(r"^(ensures|decreases|recommends|returns|no_unwind|opens_invariants)\b", st):
                on = False
            if on and st:
                out.append(re.sub(r"//.*$", "", st).rstrip())
        return [o for o in out if o]

    def _split_sig(self, sig):
        """-> (head up to and including the parameter list, return type text or None, where clause or '')"""
        toks = code_tokens(lex(sig))
        pairs = match_brackets(toks)
        # find `fn`, then skip generics, then the param list
        k = 0
        while toks[k].text != "fn":
            k += 1
        k += 2
        if toks[k].text == "<":
            depth = 0
            while True:
                if toks[k].text == "<": depth += 1
                elif toks[k].text == ">":
                    depth -= 1
                    if depth == 0: break
                k += 1
            k += 1
        if toks[k].text != "(":
            raise AnchorLost("cannot find parameter list in: %s" % sig[:80])
        close = pairs[k]
        head = sig[:toks[close].end]
        rest_toks = toks[close + 1:]
        ret, where = None, ""
        # where at depth 0
        widx = None
        depth = 0
        for idx, t in enumerate(rest_toks):
            if t.text in ("<", "(", "["): depth += 1
            elif t.text in (">", ")", "]"): depth -= 1
            elif depth == 0 and t.kind == "id" and t.text == "where":
                widx = idx
                break
        end_ret = rest_toks[widx].start if widx is not None else len(sig)
        if rest_toks and rest_toks[0].text == "->":
            ret = sig[rest_toks[0].end:end_ret]
        if widx is not None:
            where = sig[rest_toks[widx].start:]
        return head, ret, where

    # ---------------------------------------------------------------- body edits
    @staticmethod
    def _parse_arrow(c):
        m = re.match(r"^//@(rewrite|rewriteall)\s*<<<(.*?)>>>\s*=>\s*<<<(.*?)>>>\s*$", c, re.S)
        if not m:
            raise AnchorLost("bad rewrite directive: %s" % c)
        return m.group(1), m.group(2), m.group(3)

    def _apply_cont_rewrite(self, c, text, rules, it):
        if not c.startswith("//@rewrite"):
            return text
        kind, old, new = self._parse_arrow(c)
        old = old.replace("\\n", "\n")
        new = new.replace("\\n", "\n")
        n = self._count_ws(text, old)
        if n == 0:
            # the named construct is not in the current source: nothing to abstract (if it was only
            # re-spelled, the verifier's front end rejects the unit -> undecided, never an alarm)
            rules.append("R3 anchor absent, rewrite skipped: `%s`" % old.strip()[:120])
            return text
        if kind == "rewrite" and n != 1:
            raise AnchorLost("rewrite anchor occurs %d times in %s: %s" % (n, it.name, old[:60]))
        rules.append("R3 abstracted expression `%s` -> `%s`" % (old.strip()[:120], new.strip()[:120]))
        return self._replace_ws(text, old, new)

    @staticmethod
    def _ws_regex(old):
        # whitespace-insensitive exact match of the token sequence
        parts = [re.escape(p) for p in old.split()]
        return re.compile(r"\s*".join(parts)) if False else re.compile(r"\s+".join(parts))

    @staticmethod
    def _ws_regex_tolerant(old):
        # the same token sequence up to ONE kind of small change: a comparison or boolean operator replaced by another of
        # its class, `true`/`false` swapped, a leading `!` dropped.  Used ONLY for anchors that give a POSITION (inserts,
        # region ends) and ONLY when the exact anchor is absent: the changed statement is then verified as it stands and
        # fails its obligation, instead of the unit losing its anchor (exit 2).  Never used for rewrites.
        classes = [("==", "!="), ("<", "<=", ">", ">="), ("&&", "||")]
        parts = []
        for p in old.split():
            alt = None
            for c in classes:
                if p in c:
                    alt = "(?:%s)" % "|".join(re.escape(x) for x in c)
            if alt is None:
                e = re.escape(p)
                e = re.sub(r"(?<![A-Za-z0-9_])(?:true|false)(?![A-Za-z0-9_])", "(?:true|false)", e)
                if p.startswith("!") and not p.startswith("!="):
                    e = "!?" + e[len(re.escape("!")):]
                alt = e
            parts.append(alt)
        return re.compile(r"\s+".join(parts))

    def _count_ws(self, text, old):
        return len(self._ws_regex(old).findall(text))

    def _replace_ws(self, text, old, new):
        return self._ws_regex(old).sub(lambda m: new, text)

    def _apply_insert(self, c, body, rules, it):
        m = re.match(r"^//@(before|afterstmt|after)(\?)?(?:#(\d+)/(\d+))?\s*<<<(.*?)>>>\|\s?(.*)$", c, re.S)
        if not m:
            raise AnchorLost("bad insert directive: %s" % c)
        where, opt, kth, ofn, anchor, ins = m.groups()
        rx = self._ws_regex(anchor)
        ms = list(rx.finditer(body))
        if len(ms) == 0 and not opt:
            ms = list(self._ws_regex_tolerant(anchor).finditer(body))
            if ms:
                rules.append("insert anchor matched up to a flipped operator or literal: %s" % anchor[:60])
        if kth and not (opt and len(ms) == 0):
            # `//@before#2/3 <<<a>>>|`: the second of exactly three occurrences of a short anchor (statements that
            # recur in a function; a longer anchor would tie the proof step to the order of the neighbouring statements)
            if len(ms) != int(ofn):
                raise AnchorLost("insert anchor occurs %d times (expected %s) in %s: %s" % (len(ms), ofn, it.name, anchor[:60]))
            ms = [ms[int(kth) - 1]]
        if opt and len(ms) == 0:
            # `//@before? ...`: ghost bookkeeping attached to a statement that a tree need not have (the obligations
            # that read the ghost decide what its absence means); nothing is inserted
            rules.append("optional insert skipped (anchor absent): %s" % anchor[:60])
            return body
        if len(ms) != 1:
            raise AnchorLost("insert anchor occurs %d times in %s: %s" % (len(ms), it.name, anchor[:60]))
        if where == "afterstmt":
            # the anchor names the beginning of a statement; insert after that statement's `;`
            toks = code_tokens(lex(body))
            depth, p = 0, None
            for t in toks:
                if t.start < ms[0].start():
                    continue
                if t.text in ("(", "[", "{"):
                    depth += 1
                elif t.text in (")", "]", "}"):
                    depth -= 1
                    if depth < 0:
                        break
                elif t.text == ";" and depth == 0:
                    p = t.end
                    break
            if p is None:
                raise AnchorLost("statement end not found after anchor in %s: %s" % (it.name, anchor[:60]))
        else:
            p = ms[0].start() if where == "before" else ms[0].end()
        return body[:p] + " " + ins + " " + body[p:]

    def _generic_desugar(self, body, rules):
        # R5: A.clone_from(&B)  ->  A = B.clone()
        rx = re.compile(r"([A-Za-z_][A-Za-z0-9_\.]*)\s*\.clone_from\(\s*&\s*([A-Za-z_][A-Za-z0-9_\.]*)\s*\)")
        def r5(m):
            rules.append("R5 clone_from: %s" % m.group(0))
            return "%s = %s.clone()" % (m.group(1), m.group(2))
        body = rx.sub(r5, body)
        # R7: `for (I, V) in E.iter().enumerate() {`  ->  `for I in 0..E.len() { let V = &E[I];`
        # (Verus has no specification for the Enumerate adapter; E is a field/variable path, so it is
        # evaluated without side effects and the two forms visit the same (index, &element) pairs)
        rx7 = re.compile(r"for\s*\(\s*([A-Za-z_]\w*)\s*,\s*([A-Za-z_]\w*)\s*\)\s*in\s*([A-Za-z_][\w\.]*)\s*\.iter\(\)\s*\.enumerate\(\)\s*\{")
        def r7(m):
            rules.append("R7 enumerate: %s" % m.group(0))
            i, v, e = m.group(1), m.group(2), m.group(3)
            return "for %s in 0..%s.len() { let %s = &%s[%s];" % (i, e, v, e, i)
        body = rx7.sub(r7, body)
        # R10: `for X in &V[A..B] {`  ->  `for X in vitK: verif_slice(&V, A, B) {`  (`A..` -> verif_slice_from(&V, A)).
        # Verus has no specification for range-indexing a Vec; the unit declares the two helpers, whose `requires`
        # (the range lies inside the vector) is an obligation at this very place, and whose `ensures` is the sub-sequence.
        rx10 = re.compile(r"for\s+([A-Za-z_]\w*)\s+in\s+&\s*([A-Za-z_][\w\.]*)\s*\[([^\[\]]*?)\.\.([^\[\]]*?)\]\s*\{")
        cnt10 = [0]
        def r10(m):
            cnt10[0] += 1
            x, v, lo, hi = m.group(1), m.group(2), m.group(3).strip(), m.group(4).strip()
            if hi.startswith("="):
                raise AnchorLost("inclusive range slice (R10)")
            lo = lo or "0"
            call = "verif_slice(&%s, %s, %s)" % (v, lo, hi) if hi else "verif_slice_from(&%s, %s)" % (v, lo)
            rules.append("R10 range slice in a for header: %s" % m.group(0)[:100])
            return "for %s in vit%d: %s {" % (x, cnt10[0], call)
        body = rx10.sub(r10, body)
        body = self._desugar_labelled_continue(body, rules)
        body = self._desugar_break_value(body, rules)
        body = self._desugar_continue(body, rules)
        return body

    def _desugar_labelled_continue(self, body, rules):
        """R9: `'L: for .. { A; for .. { .. continue 'L; .. } B }`  ->
               `for .. { A; let mut verif_continue_L = false; for .. { .. { verif_continue_L = true; break; } .. } if !verif_continue_L { B } }`
        (Verus has no labelled `continue`).  Shape required: exactly one `continue 'L;`, inside a loop that is a direct
        statement of the body of the loop labelled 'L; `continue 'L` then means: leave the inner loop and skip the rest
        (B) of the outer body, which is what the flag does.  Anything else is an anchor loss (undecided)."""
        m = re.search(r"continue\s+'([A-Za-z_]\w*)\s*;", body)
        if not m:
            return body
        lab = m.group(1)
        if len(re.findall(r"continue\s+'%s\s*;" % lab, body)) != 1 or re.search(r"break\s+'%s\b" % lab, body):
            raise AnchorLost("labelled continue/break outside the supported shape (R9)")
        ml = re.search(r"'%s\s*:\s*(?=for\b|while\b|loop\b)" % lab, body)
        if not ml:
            raise AnchorLost("label '%s not found on a loop (R9)" % lab)
        toks = code_tokens(lex(body))
        pairs = match_brackets(toks)
        # body block of the labelled loop: first `{` at nesting level 0 after the label
        k = next(i for i, t in enumerate(toks) if t.start >= ml.end())
        while toks[k].text != "{":
            if toks[k].text in ("(", "["):
                k = pairs[k]
            k += 1
        outer_open, outer_close = k, pairs[k]
        ci = next(i for i, t in enumerate(toks) if t.start >= m.start())
        if not (outer_open < ci < outer_close):
            raise AnchorLost("`continue '%s` is not inside the loop it names (R9)" % lab)
        # the direct child statement of the outer body that contains the continue must be a loop
        stmt_start, inner_open = outer_open + 1, None
        i = outer_open + 1
        while i < ci:
            t = toks[i].text
            if t in ("{", "(", "["):
                if pairs[i] > ci:
                    if t != "{":
                        raise AnchorLost("`continue '%s` inside an expression (R9)" % lab)
                    inner_open = i
                    break
                i = pairs[i] + 1
                if t == "{":
                    stmt_start = i
                continue
            if t == ";":
                stmt_start = i + 1
            i += 1
        if inner_open is None:
            raise AnchorLost("`continue '%s` directly in the labelled loop (R9 expects an inner loop)" % lab)
        kw, kpos = self._block_header_kw(toks, pairs, inner_open)
        if kw not in ("for", "while", "loop") or kpos < stmt_start:
            raise AnchorLost("`continue '%s` is not inside an inner loop that is a statement of the labelled loop's body (R9)" % lab)
        inner_close = pairs[inner_open]
        flag = "verif_continue_%s" % lab
        rest = body[toks[inner_close].end:toks[outer_close].start]
        new = (body[:ml.start()] + body[ml.end():toks[kpos].start] + "let mut %s = false; " % flag
               + body[toks[kpos].start:m.start()] + "%s = true; break;" % flag + body[m.end():toks[inner_close].end]
               + " if !%s {" % flag + rest + "} " + body[toks[outer_close].start:])
        rules.append("R9 labelled continue: `continue '%s` -> flag `%s` + `break`, rest of the outer loop body under `if !%s`" % (lab, flag, flag))
        return new

    def _desugar_break_value(self, body, rules):
        """R8: `let V = loop { .. break E; .. };`  ->  `let V; loop { .. { V = E; break; } .. }`
        (Verus: "complex break expressions" are unsupported).  V is assigned exactly once on every path that
        leaves the loop, which rustc checks (deferred initialisation); semantics are unchanged."""
        m = re.search(r"\blet\s+([A-Za-z_]\w*)\s*=\s*loop\s*\{", body)
        if not m:
            return body
        var = m.group(1)
        toks = code_tokens(lex(body))
        pairs = match_brackets(toks)
        # the loop's opening brace
        open_idx = None
        for i, t in enumerate(toks):
            if t.start >= m.start() and t.text == "{":
                open_idx = i
                break
        close_idx = pairs[open_idx]
        # rewrite `break EXPR;` directly belonging to this loop (not to nested loops)
        edits = []
        depth_loops = []
        i = open_idx + 1
        nested = []   # (open, close) of nested loops
        for k in range(open_idx + 1, close_idx):
            t = toks[k]
            if t.kind == "id" and t.text in ("for", "while", "loop") and not (k > 0 and toks[k - 1].text in (".", "::")):
                j = k + 1
                while j < close_idx and toks[j].text != "{":
                    if toks[j].text in ("(", "["):
                        j = pairs[j]
                    j += 1
                if j < close_idx:
                    nested.append((j, pairs[j]))
        def in_nested(k):
            return any(o < k < c for o, c in nested)
        for k in range(open_idx + 1, close_idx):
            t = toks[k]
            if t.kind == "id" and t.text == "break" and not in_nested(k) and toks[k + 1].text != ";":
                j = k + 1
                while toks[j].text != ";":
                    if toks[j].text in ("(", "[", "{"):
                        j = pairs[j]
                    j += 1
                expr = body[toks[k + 1].start:toks[j].start]
                edits.append((toks[k].start, toks[j].end, "{ %s = %s; break; }" % (var, expr.strip())))
        if not edits:
            return body
        # the statement ends with `};` after the loop's closing brace
        after = toks[close_idx + 1] if close_idx + 1 < len(toks) else None
        if after is None or after.text != ";":
            raise AnchorLost("`let V = loop {..}` not followed by `;` (R8)")
        out = body
        for a, b, rep in sorted(edits, reverse=True):
            out = out[:a] + rep + out[b:]
        out = out[:m.start()] + "let %s; loop {" % var + out[m.end():]
        rules.append("R8 `let %s = loop { .. break E; .. }` -> deferred initialisation + plain break" % var)
        return out

    def _desugar_continue(self, body, rules):
        """R6: inside a loop body `{ PRE if COND { continue; } REST }`  ->  `{ PRE if COND { } else { REST } }`
        (Verus: "for-loops do not yet support continue").  Applied only when `continue;` is the sole
        statement of an `if` block that sits directly in a loop body; semantics are unchanged."""
        for _ in range(8):
            toks = code_tokens(lex(body))
            pairs = match_brackets(toks)
            hit = None
            for i in range(len(toks) - 3):
                if toks[i].text == "{" and toks[i + 1].text == "continue" and toks[i + 2].text == ";" and toks[i + 3].text == "}":
                    hit = i
                    break
            if hit is None:
                return body
            # enclosing block
            depth, enc = 0, None
            for k in range(hit - 1, -1, -1):
                t = toks[k].text
                if t in ("}", ")", "]"):
                    depth += 1
                elif t in ("{", "(", "["):
                    if depth == 0:
                        enc = k
                        break
                    depth -= 1
            if enc is None or toks[enc].text != "{":
                raise AnchorLost("`continue` outside the supported shape (R6)")
            # the enclosing block must be a loop body: walk back to a for/while/loop keyword without crossing ; or }
            k, is_loop = enc - 1, False
            while k >= 0:
                t = toks[k]
                if t.text in (")", "]"):
                    k = pairs[k] - 1
                    continue
                if t.text in (";", "}", "{"):
                    break
                if t.kind == "id" and t.text in ("for", "while", "loop"):
                    is_loop = True
                    break
                k -= 1
            if not is_loop and not self._block_is_tail_of_loop(toks, pairs, enc):
                raise AnchorLost("`continue` inside a nested block is not supported (R6)")
            if not is_loop:
                rules.append("R6 (nested): the enclosing if/else chain is the last statement of the loop body, so skipping the rest of its block is `continue`")
            # the `if` must be a plain `if COND {continue;}` with no else
            close_if = hit + 3
            if close_if + 1 < len(toks) and toks[close_if + 1].text == "else":
                raise AnchorLost("`continue` in an if/else is not supported (R6)")
            enc_close = pairs[enc]
            rest = body[toks[close_if].end:toks[enc_close].start]
            body = body[:toks[hit].start] + "{ } else {" + rest + "}" + body[toks[enc_close].start:]
            rules.append("R6 `if C { continue; } REST` -> `if C { } else { REST }` in a loop body")
        return body

    @staticmethod
    def _block_header_kw(toks, pairs, enc):
        """keyword that introduces the block opening at token index enc: for/while/loop/if/else or None"""
        k = enc - 1
        if k >= 0 and toks[k].kind == "id" and toks[k].text == "else":
            return "else", k
        while k >= 0:
            t = toks[k]
            if t.text in (")", "]"):
                k = pairs[k] - 1
                continue
            if t.text in (";", "}", "{"):
                return None, k
            if t.kind == "id" and t.text in ("for", "while", "loop", "if"):
                return t.text, k
            k -= 1
        return None, -1

    def _block_is_tail_of_loop(self, toks, pairs, enc, depth=0):
        """True iff control reaching the end of the block at `enc` reaches the end of a loop body without
        executing anything else: the block belongs to an if/else chain that is the last statement of its
        parent block, and the parent is a loop body or has the same property."""
        if depth > 6:
            return False
        kw, kpos = self._block_header_kw(toks, pairs, enc)
        if kw in ("for", "while", "loop"):
            return True
        if kw not in ("if", "else"):
            return False
        # end of the whole if/else chain
        end = pairs[enc]
        while end + 1 < len(toks) and toks[end + 1].text == "else":
            k = end + 2
            while k < len(toks) and toks[k].text != "{":
                if toks[k].text in ("(", "["):
                    k = pairs[k]
                k += 1
            if k >= len(toks):
                return False
            end = pairs[k]
        nxt = end + 1
        if nxt < len(toks) and toks[nxt].text == ";":
            nxt += 1
        if nxt >= len(toks) or toks[nxt].text != "}":
            return False
        # start of the chain: walk back over `else if` links to the first `if`
        parent_open = pairs[nxt]
        if toks[parent_open].text != "{":
            return False
        pk, _ = self._block_header_kw(toks, pairs, parent_open)
        if pk in ("for", "while", "loop"):
            return True
        return self._block_is_tail_of_loop(toks, pairs, parent_open, depth + 1)

    def _broadcast_in_loops(self, body):
        toks = code_tokens(lex(body))
        pairs = match_brackets(toks)
        pos = []
        for idx, t in enumerate(toks):
            if t.kind == "id" and t.text in ("for", "while", "loop"):
                if idx + 1 < len(toks) and toks[idx + 1].text == "<":
                    continue
                if idx > 0 and toks[idx - 1].text in (".", "::"):
                    continue
                k = idx + 1
                while k < len(toks):
                    tt = toks[k]
                    if tt.text in ("(", "["):
                        k = pairs[k] + 1
                        continue
                    if tt.text == "{":
                        break
                    k += 1
                if k < len(toks):
                    pos.append(toks[k].end)
        ins = " broadcast use {%s}; " % ", ".join(self._broadcast)
        for p in sorted(pos, reverse=True):
            body = body[:p] + ins + body[p:]
        return body

    def _splice_loops(self, body, loops, it):
        toks = code_tokens(lex(body))
        pairs = match_brackets(toks)
        heads = []
        for idx, t in enumerate(toks):
            if t.kind == "id" and t.text in ("for", "while", "loop"):
                if idx + 1 < len(toks) and toks[idx + 1].text == "<":
                    continue
                if idx > 0 and toks[idx - 1].text in (".", "::"):
                    continue
                # find the body brace
                k = idx + 1
                while k < len(toks):
                    tt = toks[k]
                    if tt.text in ("(", "["):
                        k = pairs[k] + 1
                        continue
                    if tt.text == "{":
                        break
                    k += 1
                heads.append(toks[k].start)
        inserts = []
        for n, texts in loops.items():
            if n < 1 or n > len(heads):
                raise AnchorLost("loop %d not found in %s (has %d loops)" % (n, it.name, len(heads)))
            inserts.append((heads[n - 1], "\n" + "\n".join("        " + t for t in texts) + "\n    "))
        for pos, text in sorted(inserts, reverse=True):
            body = body[:pos] + text + body[pos:]
        return body

    # -- macros ---------------------------------------------------------------
    MACROS = ("write", "writeln", "format", "panic", "unreachable", "todo", "unimplemented",
              "debug_assert", "debug_assert_eq", "assert", "assert_eq", "eprintln", "println", "eprint", "print")

    def _rewrite_macros(self, text, rules, od=True):
        # innermost-first: repeatedly rewrite the *last* macro occurrence
        while True:
            toks = code_tokens(lex(text))
            pairs = match_brackets(toks)
            target = None
            for idx in range(len(toks) - 2):
                t = toks[idx]
                if t.kind == "id" and t.text in self.MACROS and toks[idx + 1].text == "!" and toks[idx + 2].text in ("(", "[", "{"):
                    if idx > 0 and toks[idx - 1].text in ("::",) and toks[idx - 2].text not in ("std", "core"):
                        pass
                    target = idx
            if target is None:
                return text
            o = target + 2
            c = pairs[o]
            args = self._split_args(text, toks, pairs, o, c)
            name = toks[target].text
            repl = self._macro_repl(name, args, rules)
            start = toks[target].start
            # swallow a `std::` / `core::` path prefix
            text = text[:start] + repl + text[toks[c].end:]

    @staticmethod
    def _split_args(text, toks, pairs, o, c):
        args, cur, k = [], toks[o].end, o + 1
        while k < c:
            t = toks[k]
            if t.text in ("(", "[", "{"):
                k = pairs[k] + 1
                continue
            if t.text == ",":
                args.append(text[cur:t.start].strip())
                cur = t.end
            k += 1
        last = text[cur:toks[c].start].strip()
        if last:
            args.append(last)
        return args

    def _fmt(self, args, rules):
        """Rewrite the argument list of format!-like macros into an expression of type String."""
        if not args:
            return 'verif_fmt0("")'
        fmt = args[0]
        rest = args[1:]
        if not (fmt.startswith('"') and fmt.endswith('"')):
            rules.append("E4 format! with non-literal format -> opaque")
            return "verif_format_opaque()"
        lit = fmt[1:-1]
        segs, holes = [], []
        pos, cur, ok = 0, "", True
        pos_idx = 0
        while pos < len(lit):
            ch = lit[pos]
            if ch == "{" and lit.startswith("{{", pos):
                cur += "{"; pos += 2; continue
            if ch == "}" and lit.startswith("}}", pos):
                cur += "}"; pos += 2; continue
            if ch == "{":
                end = lit.index("}", pos)
                inner = lit[pos + 1:end]
                if ":" in inner or "?" in inner:
                    ok = False
                    break
                segs.append(cur); cur = ""
                if inner == "":
                    if pos_idx >= len(rest):
                        ok = False; break
                    holes.append(rest[pos_idx]); pos_idx += 1
                elif inner.isdigit():
                    if int(inner) >= len(rest):
                        ok = False; break
                    holes.append(rest[int(inner)])
                else:
                    named = [r for r in rest if re.match(r"^%s\s*=[^=]" % re.escape(inner), r)]
                    if named:
                        holes.append(named[0].split("=", 1)[1].strip())
                    else:
                        holes.append(inner)
                pos = end + 1
                continue
            cur += ch
            pos += 1
        segs.append(cur)
        if not ok or len(holes) > 6 or "\\" in lit.replace("\\n", "").replace('\\"', ""):
            rules.append("E4 format!(%s, ..) -> opaque string (arguments still evaluated)" % fmt[:40])
            if rest:
                ev = ", ".join("&(%s)" % (r.split("=", 1)[1].strip() if re.match(r"^\w+\s*=[^=]", r) else r) for r in rest)
                return "{ let _ = (%s,); verif_format_opaque() }" % ev
            return "verif_format_opaque()"
        parts = []
        for i, h in enumerate(holes):
            parts.append('"%s"' % segs[i])
            parts.append("&(%s)" % h)
        parts.append('"%s"' % segs[-1])
        return "verif_fmt%d(%s)" % (len(holes), ", ".join(parts))

    def _macro_repl(self, name, args, rules):
        if name in ("write", "writeln"):
            ln = "true" if name == "writeln" else "false"
            w = args[0]
            if len(args) == 1:
                rules.append("E4 %s!(%s) -> verif_write_str" % (name, w))
                return 'verif_write_str(%s, "", %s)' % (w, ln)
            if args[1] == '"{}"' and len(args) == 3 and getattr(self, "_flush", False) and name == "write":
                rules.append("E4 write!(%s, \"{}\", buf) -> verif_flush (whole-buffer flush event)" % w)
                return "verif_flush(%s, &(%s))" % (w, args[2])
            if args[1] == '"{}"' and len(args) == 3:
                rules.append("E4 %s!(%s, \"{}\", e) -> verif_write_display" % (name, w))
                return "verif_write_display(%s, &(%s), %s)" % (w, args[2], ln)
            s = self._fmt(args[1:], rules)
            rules.append("E4 %s!(%s, ..) -> verif_write_display(.., format)" % (name, w))
            return "verif_write_display(%s, &(%s), %s)" % (w, s, ln)
        if name == "format":
            return self._fmt(args, rules)
        if name in ("panic", "unreachable", "todo", "unimplemented"):
            rules.append("E4 %s! -> verif_panic() (requires false)" % name)
            return "verif_panic()"
        if name in ("debug_assert", "assert"):
            rules.append("E4 %s! -> verif_assert (obligation)" % name)
            return "verif_assert(%s)" % args[0]
        if name in ("debug_assert_eq", "assert_eq"):
            rules.append("E4 %s! -> verif_assert (obligation)" % name)
            return "verif_assert((%s) == (%s))" % (args[0], args[1])
        if name in ("eprintln", "println", "eprint", "print"):
            rules.append("E4 %s! dropped" % name)
            return "()"
        raise AnchorLost("macro %s not handled" % name)

    # -- OD -------------------------------------------------------------------
    OD_RX = re.compile(r"(?<![A-Za-z0-9_\.])((?:self\.painter|painter|self)\.writer)\b(?!\s*[\.=:\(])")

    def _od_wrap(self, body, rules):
        def repl(m):
            w = m.group(1)
            owner = w[:-len(".writer")]
            rules.append("E4' OD check inserted at use of %s" % w)
            return "{ verif_od_check(&%s.output_buffer); %s }" % (owner, w)
        return self.OD_RX.sub(repl, body)
