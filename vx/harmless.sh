# vx/harmless.sh: python3 vx/mk_harmless.py writes .work/harmless.diff (six semantics-preserving edits of functions under contract:
# locals renamed, independent statements swapped, comments added, a line split, a temporary introduced); this runs EVERY unit against a
# scratch copy with that patch applied.  Expected: `N units, 0 problem(s)` - no alarm, nothing undecided.
# apply .work/harmless.diff to a scratch copy, check that it compiles and passes the tests?  (only the engine here: text level)
D=$(mktemp -d /tmp/mutsrc.XXXXXX)
cp -r /repo/src "$D/src" && cp /repo/Cargo.toml "$D/"
( cd "$D" && git init -q . 2>/dev/null && git apply --whitespace=nowarn /verif/.work/harmless.diff ) || { echo "PATCH DID NOT APPLY"; rm -rf "$D"; exit 3; }
cd /verif
VERIF_REPO="$D" python3 vx/allunits.py 2>&1 | tail -12
rm -rf "$D"
