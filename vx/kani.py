"""Engine K: Kani function contracts on functions extracted mechanically from /repo/src (same generator as engine V).

A unit is /verif/contracts/K*.rs: plain Rust with `#[cfg_attr(kani, kani::requires/ensures(..))]` attributes in front of a
`//@ fn <src> <name>` directive (the real function text is inserted there on every run), a `proof_for_contract`
harness and a `#[cfg(not(kani))] fn main` replay driver.  A header comment
    // kani: harness=<name> fn=<name> inputs=<var>:<type>,...
names the harness and the harness locals whose values form a counterexample.  Only loop-free functions are put
here, so a successful run is a complete proof (no unwinding bound is involved).

run_for_property(prop, tier) -> dict(obligations, discharged, cmds, samples, functions, undecided, failures, bounded)
A failure carries the counterexample Kani's trace gives, REPLAYED on the extracted real function compiled with rustc."""
import os, re, sys, json, glob, time, subprocess, hashlib, tempfile, shutil
sys.path.insert(0, os.path.dirname(os.path.abspath(__file__)))
import gen, run

VERIF = os.path.dirname(os.path.dirname(os.path.abspath(__file__)))
ENV = dict(os.environ, CARGO_NET_OFFLINE="true")

def all_units():
    return sorted(os.path.basename(p)[:-3] for p in glob.glob(os.path.join(run.VERIF, "contracts", "K*.rs")))

def _header(text):
    m = re.search(r"^// kani:\s*(.*)$", text, re.M)
    d = dict(re.findall(r"(\w+)=(\S+)", m.group(1))) if m else {}
    d["inputs"] = [tuple(x.split(":")) for x in d.get("inputs", "").split(",") if x]
    return d

def run_unit(unit, repo=None, work=None):
    """-> dict(unit, status ok|failed|undecided, reason, tags, failures, cmd, wall, gen_path, gen_sha, items, sources)"""
    repo = repo or run.REPO
    work = work or run.WORK
    t0 = time.time()
    res = dict(unit=unit, status="ok", reason="", tags=[], failures=[], cmd="", wall=0.0, gen_path="", gen_sha="", items=[], sources={})
    os.makedirs(work, exist_ok=True)
    try:
        g = gen.Generator(repo=repo, verif=run.VERIF).generate(unit)
    except gen.AnchorLost as e:
        res.update(status="undecided", reason="anchor lost: %s" % e)
        return res
    except Exception as e:
        res.update(status="undecided", reason="generator error: %r" % e)
        return res
    text = g.text()
    hd = _header(text)
    d = os.path.join(work, unit + ".kani")
    shutil.rmtree(d, ignore_errors=True)
    os.makedirs(d)
    path = os.path.join(d, unit + ".rs")
    open(path, "w").write(text)
    lines = text.split("\n")
    res.update(gen_path=path, gen_sha=hashlib.sha256(text.encode()).hexdigest(), items=g.items, sources=g.sources,
               tags=run.scan_tags(lines), header=hd)
    if not hd.get("harness"):
        res.update(status="undecided", reason="no `// kani:` header")
        return res
    cmd = ["kani", unit + ".rs", "-Z", "function-contracts", "--harness", hd["harness"], "--output-format", "terse"]
    res["cmd"] = "cd %s && %s" % (d, " ".join(cmd))
    try:
        p = subprocess.run(cmd, capture_output=True, text=True, timeout=900, cwd=d, env=ENV)
    except subprocess.TimeoutExpired:
        res.update(status="undecided", reason="kani timeout", wall=time.time() - t0)
        return res
    out = p.stdout + p.stderr
    res["wall"] = time.time() - t0
    if "VERIFICATION:- SUCCESSFUL" in out:
        # vacuity guard: the contract must have generated checks and the harness must have been run
        m = re.search(r"\*\* 0 of (\d+) failed", out)
        if not m or int(m.group(1)) == 0 or "1 successfully verified harnesses" not in out:
            res.update(status="undecided", reason="kani reported success without checks (vacuous?)")
        return res
    if "VERIFICATION:- FAILED" not in out:
        res.update(status="undecided", reason="kani did not reach a verdict: %s" % out[-300:].replace("\n", " | "))
        return res
    # failed checks: description + generated line
    fails = re.findall(r"Failed Checks: (.*)\n\s*File: \"([^\"]+)\", line (\d+)", out)
    item = g.items[0] if g.items else None
    ce = _counterexample(d, unit, hd)
    for desc, fname, ln in fails:
        ln = int(ln)
        if not fname.endswith(unit + ".rs"):
            continue
        tags = [(props, name) for (tl, props, name) in res["tags"] if tl == ln]
        fn_name = hd.get("fn", "?")
        msg = "kani: Failed Checks: %s (generated line %d)\n%s" % (desc, ln, (ce or {}).get("replay_output", ""))
        if tags:
            for props, name in tags:
                res["failures"].append(dict(unit=unit, obligation="%s/%s@%s" % (unit, name, fn_name), tag=name, props=props, fn=fn_name,
                                            kind="kani postcondition", gen_line=ln, src=item["src"] if item else None,
                                            src_line=item["src_line"] if item else None, snippet=lines[ln - 1].strip()[:200],
                                            message=msg, engine="kani", counterexample=ce))
        else:
            # a check inside the function body (NaN, overflow, division by zero, index): safety
            res["failures"].append(dict(unit=unit, obligation="%s/%s.safety" % (unit, fn_name), tag=None, props=["C03"], fn=fn_name,
                                        kind="kani check: %s" % desc[:60], gen_line=ln, src=item["src"] if item else None,
                                        src_line=(item["src_line"] + max(0, ln - item["gen_lo"] - 1)) if item else None,
                                        snippet=lines[ln - 1].strip()[:200], message=msg, engine="kani", counterexample=ce))
    res["status"] = "failed" if res["failures"] else "undecided"
    if not res["failures"]:
        res["reason"] = "kani failed but no failed check could be attributed: %s" % out[-300:].replace("\n", " | ")
    return res

def _counterexample(d, unit, hd):
    """values of the harness inputs in Kani's (CBMC's) trace of a failed check, replayed on the extracted function"""
    if not hd.get("inputs"):
        return None
    cmd = ["kani", unit + ".rs", "-Z", "function-contracts", "--harness", hd["harness"], "--output-format", "old",
           "-Z", "unstable-options", "--cbmc-args", "--trace"]
    try:
        p = subprocess.run(cmd, capture_output=True, text=True, timeout=900, cwd=d, env=ENV)
    except subprocess.TimeoutExpired:
        return None
    traces = re.split(r"\nTrace for ", p.stdout)
    cands = []
    for tr in traces[1:]:
        vals = {}
        for m in re.finditer(r"function %s line \d+ thread 0\n-+\n\s+(\w+)=(\S+) \(([01 ]+)\)" % re.escape(hd["harness"]), tr):
            vals[m.group(1)] = (m.group(2), m.group(3).replace(" ", ""))
        if all(v in vals for v, _ in hd["inputs"]):
            cands.append((tr.split("\n", 1)[0][:120], vals))
    if not cands:
        return None
    # compile the same generated file with plain rustc: the replay driver
    exe = os.path.join(d, "replay")
    # (overflow checks on, as in the debug build the properties are stated for)
    p = subprocess.run(["rustc", "-O", "-C", "overflow-checks=on", "--edition", "2021", "-A", "warnings", unit + ".rs", "-o", exe], capture_output=True, text=True, cwd=d, env=ENV)
    if p.returncode:
        return dict(inputs={k: v[0] for k, v in cands[-1][1].items()}, replay_output="replay driver did not compile: %s" % p.stderr[-300:], replayed=False)
    best = None
    for check, vals in cands:
        args = [vals[v][1] for v, _ in hd["inputs"]]
        try:
            r = subprocess.run([exe] + args, capture_output=True, text=True, timeout=20)
        except subprocess.TimeoutExpired:
            # a loop that Kani could not unwind within its bound and that does not come back on the real function either
            r = subprocess.CompletedProcess([exe] + args, 1, "the extracted real function did not return within 20 s on this input (it hangs)", "")
        rec = dict(check=check, inputs={v: vals[v][0] for v, _ in hd["inputs"]}, input_bits={v: vals[v][1] for v, _ in hd["inputs"]},
                   replay_cmd="%s %s" % (exe, " ".join(args)), replay_exit=r.returncode, replay_output=(r.stdout + r.stderr).strip()[:600],
                   replayed=(r.returncode == 1), name="kani counterexample for %s" % hd.get("fn"))
        if best is None or (rec["replayed"] and not best["replayed"]):
            best = rec
    return best

def run_for_property(prop, tier="quick", repo=None):
    out = dict(obligations=0, discharged=0, cmds=[], samples=[], functions=[], undecided=[], failures=[], bounded=[], units={})
    for u in all_units():
        txt = open(os.path.join(run.VERIF, "contracts", u + ".rs")).read()
        props = set()
        for m in run.TAG_RX.finditer(txt):
            props.update(m.group(1).split(","))
        if prop not in props and prop != "C03":
            continue
        r = run_unit(u, repo=repo)
        mine = [(ln, ps, name) for (ln, ps, name) in r["tags"] if prop in ps]
        n_obl = len(mine) + (1 if prop == "C03" else 0)
        if n_obl == 0:
            continue
        out["cmds"].append(r["cmd"])
        failed = {f["tag"] for f in r["failures"] if prop in f["props"]}
        n_fail = len([1 for (_, _, name) in mine if name in failed]) + (1 if prop == "C03" and None in failed else 0)
        out["obligations"] += n_obl
        out["discharged"] += (n_obl - n_fail) if r["status"] in ("ok", "failed") else 0
        out["units"][u] = dict(status=r["status"], reason=r["reason"], obligations=n_obl, wall_s=round(r["wall"], 2), generated_sha256=r["gen_sha"], sources=r["sources"])
        if r["status"] == "undecided":
            out["undecided"].append("%s: %s" % (u, r["reason"]))
        lines = open(r["gen_path"]).read().split("\n") if r["gen_path"] else []
        for (ln, ps, name) in mine[:3]:
            out["samples"].append(dict(unit=u, obligation=name, function=(r.get("header") or {}).get("fn"), clause=lines[ln - 1].strip()[:300], section="kani::ensures"))
        for it in r["items"]:
            if it["kind"] == "fn":
                lp = (r.get("header") or {}).get("loops")
                out["functions"].append(dict(unit=u, file=it["src"], line=it["src_line"], fn=it["name"],
                                             engine=("kani (function contract; loop bounded by operand width, %s with unwinding assertions: complete)" % lp) if lp
                                                    else "kani (function contract, loop-free: complete)",
                                             mode=it["mode"], spec=None, rules=it["rules"][:12]))
        out["failures"] += [f for f in r["failures"] if prop in f["props"]]
    return out

def replay(rep):
    unit = rep["unit"]
    r = run_unit(unit)
    still = [f for f in r["failures"] if f["obligation"] == rep["obligation"]]
    if r["status"] == "undecided":
        print("UNDECIDED: %s" % r["reason"])
        return 2
    if still:
        print("obligation still fails on the current tree:")
        print(still[0]["message"])
        ce = still[0].get("counterexample")
        if ce:
            print("counterexample %s; replay on the extracted real function: exit %s\n%s" % (ce.get("inputs"), ce.get("replay_exit"), ce.get("replay_output")))
        return 1
    print("obligation is discharged on the current tree")
    return 0
