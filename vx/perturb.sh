# vx/perturb.sh: run EVERY unit against two token-preserving re-layouts of the whole of /repo/src (vx/perturb.py).
# Expected both times: `N units, 0 problem(s)` - a harmless edit of layout or comments anywhere never raises an alarm
# and never loses an anchor.
cd /verif
for mode in layout comments; do
  D=$(mktemp -d /tmp/mutsrc.XXXXXX)
  python3 vx/perturb.py $mode "$D" || { rm -rf "$D"; exit 3; }
  VERIF_REPO="$D" python3 vx/allunits.py 2>&1 | tail -6
  rm -rf "$D"
done
