#!/usr/bin/env python3
"""Re-confirm the filed seeds (/verif/seeded/<id>/) against the CURRENT /repo HEAD (fix: commits change the tree the
seeds were made for).  For each seed, in one scratch worktree outside /repo and /verif:
  git apply patch.diff (must apply) ; cargo build ; cargo test (suite must pass) ; demo.sh <changed binary> (must FAIL) ;
  demo.sh <unchanged binary = /repo/target/debug/delta> (must PASS).
Writes `reconfirmed` = {commit, ok, steps} into meta.json.  Usage: reconfirm_seeds.py [id-prefix ...]
"""
import os, sys, json, subprocess, glob, re, time
WT = "/tmp/confirm_wt"
OUT = "/verif/seeded"

def touch_patched(patch, wt):
    """after `git checkout -- .` make sure cargo sees the restored files as changed (mtime granularity)"""
    import time as _t
    _t.sleep(1.1)
    for m in re.finditer(r"^\+\+\+ b/(\S+)", open(patch).read(), re.M):
        f = os.path.join(wt, m.group(1))
        if os.path.exists(f):
            os.utime(f, None)

def sh(cmd, cwd=None, timeout=1800):
    p = subprocess.run(cmd, shell=True, cwd=cwd, capture_output=True, text=True, timeout=timeout,
                       env=dict(os.environ, RUST_BACKTRACE="0", CARGO_NET_OFFLINE="true"))
    return p.returncode, (p.stdout + p.stderr)

def main():
    sel = sys.argv[1:]
    head = subprocess.run("git -C /repo rev-parse --short HEAD", shell=True, capture_output=True, text=True).stdout.strip()
    if not os.path.isdir(WT):
        rc, out = sh("git -C /repo worktree add -q --detach %s HEAD" % WT)
        if rc:
            raise SystemExit(out)
        sh("cp -r /repo/target %s/target" % WT)
    else:
        sh("git checkout -- . && git checkout -q --detach %s" % head, cwd=WT)
    rc, out = sh("cargo build --offline 2>&1 | tail -2", cwd="/repo")
    if "Finished" not in out:
        raise SystemExit("cannot build /repo: " + out)
    bad = []
    for d in sorted(glob.glob(os.path.join(OUT, "C*-m*"))):
        mid = os.path.basename(d)
        if sel and not any(mid.startswith(s) for s in sel):
            continue
        patch, demo = os.path.join(d, "patch.diff"), os.path.join(d, "demo.sh")
        steps = []
        sh("git checkout -- .", cwd=WT)
        rc, out = sh("git apply --whitespace=nowarn %s" % patch, cwd=WT)
        steps.append("git apply -> %d" % rc)
        ok = rc == 0
        if ok:
            rc, out = sh("cargo build --offline 2>&1 | tail -3", cwd=WT)
            ok = "Finished" in out
            steps.append("cargo build -> %s" % ("ok" if ok else "FAILED"))
        if ok:
            rc, out = sh("cargo test --workspace --no-fail-fast --offline 2>&1 | grep -E '^test result|FAILED' | head -5", cwd=WT)
            m = re.search(r"test result: (\w+)\. (\d+) passed; (\d+) failed", out)
            ok = bool(m and m.group(1) == "ok" and m.group(3) == "0")
            steps.append("cargo test -> %s" % (out.strip().split("\n")[0] if out.strip() else "no output"))
        if ok:
            rc_mut, _ = sh("setsid -w bash %s %s/target/debug/delta" % (demo, WT), cwd=d, timeout=600)
            rc_orig, _ = sh("setsid -w bash %s /repo/target/debug/delta" % demo, cwd=d, timeout=600)
            steps.append("demo on the changed binary -> exit %d" % rc_mut)
            steps.append("demo on the unchanged binary -> exit %d" % rc_orig)
            ok = rc_mut != 0 and rc_orig == 0
        sh("git checkout -- .", cwd=WT)
        mp = os.path.join(d, "meta.json")
        meta = json.load(open(mp))
        meta["reconfirmed"] = dict(commit=head, ok=ok, steps=steps, at=time.strftime("%Y-%m-%d %H:%M:%S"))
        json.dump(meta, open(mp, "w"), indent=1)
        print(mid, "ok" if ok else "STALE", "" if ok else steps, flush=True)
        if not ok:
            bad.append(mid)
    print("stale:", bad)

if __name__ == "__main__":
    main()
