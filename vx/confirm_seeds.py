#!/usr/bin/env python3
"""Confirm seeded changes delivered by sub-agents and file the confirmed ones under /verif/seeded/<id>/.

For each /tmp/seed/<prop>/out/m<i>/ : in ONE scratch worktree of /repo (outside /repo and /verif)
  1. git apply patch.diff                      (must apply)
  2. cargo build --offline                     (must compile)
  3. cargo test --workspace --offline          (existing suite must still pass)
  4. demo.sh <mutated binary>                  (must FAIL: property broken)
  5. git checkout -- . ; cargo build ; demo.sh (must PASS on the unchanged tree)
Then run the /verif checks for the property against the patched source (engine V reads text) and
record which obligations report it.  Usage: confirm_seeds.py C01 C02 C06r2 ...
"""
import os, sys, json, subprocess, shutil, glob, re, time
SEED = "/tmp/seed"
WT = "/tmp/confirm_wt"
OUT = "/verif/seeded"

def touch_patched(patch, wt):
    """after `git checkout -- .` make sure cargo sees the restored files as changed (mtime granularity)"""
    import time as _t
    _t.sleep(1.1)
    for m in re.finditer(r"^\+\+\+ b/(\S+)", open(patch).read(), re.M):
        f = os.path.join(wt, m.group(1))
        if os.path.exists(f):
            os.utime(f, None)

def sh(cmd, cwd=None, timeout=1800):
    p = subprocess.run(cmd, shell=True, cwd=cwd, capture_output=True, text=True, timeout=timeout,
                       env=dict(os.environ, RUST_BACKTRACE="0", CARGO_NET_OFFLINE="true"))
    return p.returncode, (p.stdout + p.stderr)

def ensure_wt():
    if not os.path.isdir(WT):
        rc, out = sh("git -C /repo worktree add -q --detach %s HEAD" % WT)
        if rc:
            raise SystemExit(out)
        sh("cp -r /repo/target %s/target" % WT)
    else:
        sh("git checkout -q --detach $(git -C /repo rev-parse HEAD) && git checkout -- .", cwd=WT)

def main():
    props = sys.argv[1:]
    ensure_wt()
    for src in props:
        # a delivery directory may be a later round for the same property (C06r2 -> property C06, ids continue)
        prop = re.match(r"C\d\d", src).group(0)
        for d in sorted(glob.glob(os.path.join(SEED, src, "out", "m*"))):
            if src == prop:
                mid = "%s-%s" % (prop, os.path.basename(d))
            else:
                used = [int(re.search(r"-m(\d+)$", x).group(1)) for x in glob.glob(os.path.join(OUT, prop + "-m*")) + glob.glob(os.path.join(OUT, "retired", prop + "-m*"))]
                tagf = os.path.join(d, ".filed_as")
                mid = open(tagf).read().strip() if os.path.exists(tagf) else "%s-m%d" % (prop, max(used + [0]) + 1)
            patch = os.path.join(d, "patch.diff")
            demo = os.path.join(d, "demo.sh")
            if not (os.path.exists(patch) and os.path.exists(demo)):
                print(mid, "incomplete delivery"); continue
            dst = os.path.join(OUT, mid)
            if os.path.exists(os.path.join(dst, "meta.json")):
                print(mid, "already filed"); continue
            rec = dict(id=mid, property=prop, ran=[])
            sh("git checkout -- .", cwd=WT)
            rc, out = sh("git apply --whitespace=nowarn %s" % patch, cwd=WT)
            rec["ran"].append("git apply patch.diff -> %d" % rc)
            if rc:
                print(mid, "PATCH DOES NOT APPLY to current HEAD:", out[-200:]); continue
            rc, out = sh("cargo build --offline 2>&1 | tail -3", cwd=WT)
            ok_build = "Finished" in out
            rec["ran"].append("cargo build --offline -> %s" % ("ok" if ok_build else "FAILED"))
            if not ok_build:
                print(mid, "does not build"); sh("git checkout -- .", cwd=WT); continue
            rc, out = sh("cargo test --workspace --no-fail-fast --offline 2>&1 | grep -E '^test result|FAILED' | head -5", cwd=WT)
            m = re.search(r"test result: (\w+)\. (\d+) passed; (\d+) failed", out)
            ok_tests = bool(m and m.group(1) == "ok" and m.group(3) == "0")
            rec["ran"].append("cargo test --workspace --offline -> %s" % (out.strip().split("\n")[0] if out.strip() else "no output"))
            rc_mut, out_mut = sh("setsid -w bash %s %s/target/debug/delta" % (demo, WT), cwd=d, timeout=300)
            rec["ran"].append("demo.sh on the changed binary -> exit %d" % rc_mut)
            sh("git checkout -- .", cwd=WT)
            touch_patched(patch, WT)
            rc, out = sh("cargo build --offline 2>&1 | tail -3", cwd=WT)
            rc_orig, out_orig = sh("setsid -w bash %s %s/target/debug/delta" % (demo, WT), cwd=d, timeout=300)
            rec["ran"].append("demo.sh on the unchanged binary -> exit %d" % rc_orig)
            confirmed = ok_tests and rc_mut != 0 and rc_orig == 0
            rec["confirmed"] = confirmed
            if not confirmed:
                print(mid, "NOT CONFIRMED", rec["ran"]); continue
            # which checks catch it (engine V on patched text)
            rc, out = sh("/verif/vx/mut.sh %s %s" % (patch, prop), timeout=1500)
            viol = re.findall(r"VIOLATION property=\S+ replay=\S*/([^/\s]+)\.json", out)
            und = re.findall(r"UNDECIDED: ([^\n]{0,140})", out)
            rec["detected_by"] = sorted(set(re.sub(r"-\d+$", "", v) for v in viol))
            rec["undecided"] = und[:3]
            rec["check_summary"] = [l for l in out.split("\n") if "obligations discharged" in l]
            os.makedirs(dst, exist_ok=True)
            for f in os.listdir(d):
                if os.path.isfile(os.path.join(d, f)):
                    shutil.copy(os.path.join(d, f), os.path.join(dst, f))
                elif os.path.isdir(os.path.join(d, f)) and f not in ("target", ".git"):
                    shutil.copytree(os.path.join(d, f), os.path.join(dst, f), dirs_exist_ok=True)   # e.g. bin/ with a fake git
            agent_meta = {}
            try:
                agent_meta = json.load(open(os.path.join(d, "meta.json")))
            except Exception:
                pass
            meta = dict(id=mid, property=prop, breaks=agent_meta.get("what_it_breaks"), needs_to_manifest=agent_meta.get("needs_to_manifest"),
                        files_changed=agent_meta.get("files_changed"), functions_changed=agent_meta.get("functions_changed"),
                        confirmed_by=rec["ran"], base_commit=subprocess.run("git -C /repo rev-parse --short HEAD", shell=True, capture_output=True, text=True).stdout.strip(),
                        detected=bool(rec["detected_by"]), detected_by=rec["detected_by"], undecided=rec["undecided"], check_summary=rec["check_summary"],
                        checked_at=time.strftime("%Y-%m-%d %H:%M:%S"))
            json.dump(meta, open(os.path.join(dst, "meta.json"), "w"), indent=1)
            open(os.path.join(d, ".filed_as"), "w").write(mid)
            print(mid, "CONFIRMED; detected_by =", rec["detected_by"] or "NOTHING", "| undecided:", und[:1])

if __name__ == "__main__":
    main()
