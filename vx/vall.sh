#!/bin/sh
# debug helper: run units in sequence, print one summary line each (+ error heads)
cd /verif
for u in "$@"; do
  s=$(date +%s)
  vx/v.sh $u
  e=$(date +%s)
  echo "== $u ($((e-s))s): $(grep -E 'verification results' .work/last.txt)"
  grep -E '^error' -A4 .work/last.txt | grep -vE 'assert\(false\)|^--$|^ *\|$' | grep -E '^error|// @|^ +--> |failed precondition|[0-9]+ \|' | grep -v "aborting" | cut -c1-220 | head -${N:-40}
done
