import sys, os
sys.path.insert(0, os.path.dirname(os.path.abspath(__file__)))
import gen
u = sys.argv[1]
g = gen.Generator(repo=os.environ.get("VERIF_REPO", "/repo")).generate(u)
os.makedirs('/verif/.work', exist_ok=True)
open('/verif/.work/%s.rs' % u, 'w').write(g.text())
