#!/usr/bin/env python3
"""Assemble DESIGN.md: docs/design_top.md + sections 1-3 of the committed DESIGN.md (with the listed
updates) + docs/design_tail.md with the seed table generated from seeded/*/meta.json."""
import json, glob, os, re
V = "/verif"
old = open(V + "/DESIGN.md").read()
a = old.index("## 1. What the family reaches here")
b = old.index("## 4. Per-property status")
mid = old[a:b]
REPL = [
 ("  .work/                 generated files, replay files (git-ignored)", "  tools/                 helper scripts used while building (tools/README.md); no registered check needs them\n  vx/mutscore.py perturb.py harmless.sh   how much the contracts pin down; no alarm on harmless edits (section 8)\n  .work/                 generated files, replay files (git-ignored)"),
 ("  **E1′ region** (C20 only): `//@ region` copies the statements between two\n  anchors of a function and wraps them in a given signature — a\n  substitution-based extraction, reported as such.",
  "  Items declared *inside* a function body are addressed as `wrap_line::CurrLine::reset`.\n  **E1′ region**: `//@ region` copies the statements of a function between two\n  anchors (`from`/`fromafter`/`to`/`until`, `^` = start of the body; also the body of\n  the single `lazy_static!` block of a file) and wraps them in a given signature,\n  optionally returning named locals (`//@tail`); the trailing `,` of a field\n  initialiser is dropped. A substitution-based extraction, reported as such; used\n  for closures, for parts of functions whose remainder is out of reach, and for\n  C20. `optional=1` on a `//@ fn` makes the absence of a function that a repair\n  introduced a non-event (the callers' contracts then decide)."),
 ("**R4** closure with a tuple-pattern parameter", "`//@ litconst` makes the integer literal of a `const` of the source available to the\n  spec text. `//@ghostdefault n: T = v` declares a ghost constant when the body no\n  longer declares the local `n` that contract text names. **R4** closure with a tuple-pattern parameter"),
 ("in a loop body → `if C { } else { REST }` (\"for-loops do not yet support\n  continue\").", "in a loop body → `if C { } else { REST }` (\"for-loops do not yet support\n  continue\"; **R9**: a labelled `continue 'L` out of an inner loop → flag + `break`,\n  the rest of the outer body under `if !flag`; **R10**: `for x in &v[a..b]` →\n  `for x in vitK: verif_slice(&v, a, b)`, the range check being the helper's `requires`), also when the `if` sits in an if/else chain that is the last\n  statement of the loop body. **R7** `for (i, v) in E.iter().enumerate()` →\n  `for i in 0..E.len() { let v = &E[i];`. **R8** `let v = loop { … break e; … };` →\n  deferred initialisation + plain `break`. **E8′** `self=T` spells out `Self` of a\n  trait-impl method extracted as a free function."),
 ("cannot affect execution). `broadcast use` of the lemma groups named by\n  `//@ broadcast` is inserted at the top of every verified body.", "cannot affect execution). `broadcast use` of the lemma groups named by\n  `//@ broadcast` is inserted at the top of every verified body **and of every loop\n  body** (a function-level `broadcast use` is not in effect inside loops)."),
 ("and are attributed to C03, one per verified function.", "and are attributed to C03, one per verified function. A failed precondition of a\n*lemma of the contract file* called from a verified body is a **proof step** of that\nfunction and is attributed to the properties of the function's own tagged contract."),
 ("  vx/mut.sh confirm_seeds.py   run the checks against a patched scratch copy; confirm and file seeded changes", "  vx/mut.sh confirm_seeds.py seedscan.py   run the checks against a patched scratch copy; confirm and file seeded changes; scan all seeds against all units\n  vx/mkdesign.py     assembles this file (seed table from seeded/*/meta.json)"),
 ("It is therefore **not used** by any\n  registered check (the integer kernels it was planned for verify in Verus in\n  seconds). Consequence: **no check\n  produces a verifier counterexample**; every VIOLATION line ends with\n  `no-failing-input-found` and the replay file carries the failed obligation and\n  Verus' output, as the brief allows.",
  "On the real crate it is therefore not used. **Engine K** (added late, `vx/kani.py`)\n  runs *standalone* `kani file.rs -Z function-contracts` (9 s) on a file generated like\n  a Verus unit: `contracts/K*.rs` carries `#[cfg_attr(kani, kani::requires/ensures(..))]`\n  attributes in front of a `//@ fn … plain=1` directive (the real function text is\n  inserted unchanged), a `proof_for_contract` harness and a `#[cfg(not(kani))] main`. Only\n  loop-free functions go there, so success is a complete proof. On failure the\n  harness inputs are read from CBMC's trace (`--cbmc-args --trace`, bit patterns) and\n  **replayed on the extracted function compiled with rustc**; the VIOLATION line then\n  carries no `no-failing-input-found` suffix. K01 = `compute_distance` (f64, out of\n  Verus' reach). All Verus obligations still end with `no-failing-input-found`: Verus\n  gives no counterexample; the replay file carries the failed obligation and Verus'\n  output, as the brief allows."),
 ("  witnesses/             inputs that fail on the ORIGINAL tree (F01…F25), referenced from known-findings.txt", "  witnesses/             inputs that fail on the ORIGINAL tree (F01…F29), referenced from known-findings.txt"),
 ("None so far. Guard names reserved in `MANIFEST.hooks`: `kani` (set by cargo-kani)\nfor future `#[cfg(kani)]` harness modules. `/repo` carries only `fix:` commits.",
  "None: no source line of `/repo` is guarded by a flag. Both engines read `/repo/src` as\ntext and verify generated files under `/verif/.work`; `cfg(kani)` exists only inside the\ngenerated K files. `/repo` carries only `fix:` commits (F01-F29)."),
 ("Thorough tier: quick + three re-runs per\nunit with other `smt.random_seed`s and a halved rlimit (a flaky obligation is\nreported undecided, not as a violation).",
  "Thorough tier: quick + three re-runs per\nunit that verified, with other `smt.random_seed`s and a halved rlimit. The verdict is the one of the reference\nrun (same text, same seed, same limit: deterministic); the re-runs measure the margin of the proofs, are printed\n(`NOTE: … is not stable under …`) and recorded in the evidence (`stability_runs`), and do not change the verdict\n(a proof that needs more than half of the budget is still a proof; a failed re-run has no counterexample). An\nearlier version turned such a unit into *undecided* (exit 2), which made the thorough check of the unchanged tree\nfail for two units that need 20-40 rlimit units."),
 ("`optional=1` on a `//@ fn` makes the absence of a function that a repair\n  introduced a non-event (the callers' contracts then decide).",
  "`optional=1` on a `//@ fn` or `//@ region` makes the absence of a function or statement that a repair\n  introduced a non-event (the callers' contracts then decide). Insert directives: `//@before? …` is skipped when its\n  anchor is absent (ghost bookkeeping attached to a statement a tree need not have; the obligation that reads the\n  ghost decides what the absence means); `//@before#2/3 <<<a>>>` names the second of exactly three occurrences of a\n  short anchor, so that a proof step is not tied to the order of the neighbouring statements."),
 ("inputs that fail on the ORIGINAL tree (F01…F29), referenced from known-findings.txt", "inputs that fail on the ORIGINAL tree (F01…F37), referenced from known-findings.txt"),
 ("`/repo` carries only `fix:` commits (F01-F29).", "`/repo` carries only `fix:` commits (F01-F37)."),
 ("* **E2** attributes/doc comments of the item are dropped;", "* **E0** comments inside the extracted bodies are dropped (string-aware lexer), so that no anchor depends on a\n  comment and adding or editing comments never loses one.\n* **E2** attributes/doc comments of the item are dropped;"),
 ("inputs that fail on the ORIGINAL tree (F01…F37), referenced from known-findings.txt", "inputs that fail on the ORIGINAL tree (F01…F55), referenced from known-findings.txt"),
 ("`/repo` carries only `fix:` commits (F01-F37).", "`/repo` carries only `fix:` commits (F01-F55)."),
 ("inputs that fail on the ORIGINAL tree (F01…F55), referenced from known-findings.txt", "inputs that fail on the tree BEFORE the repair named (F01…F56), referenced from known-findings.txt"),
 ("`/repo` carries only `fix:` commits (F01-F55).", "`/repo` carries only `fix:` commits (F01-F56)."),
 ("`/repo` carries only `fix:` commits (F01-F56).", "`/repo` carries only `fix:` commits (F01-F58)."),
 ("tree BEFORE the repair named (F01…F56)", "tree BEFORE the repair named (F01…F58)"),
 ("tree BEFORE the repair named (F01…F58)", "tree BEFORE the repair named (F01…F60)"),
 ("`/repo` carries only `fix:` commits (F01-F58).", "`/repo` carries only `fix:` commits (F01-F60)."),
 ("`/repo` carries only `fix:` commits (F01-F60).", "`/repo` carries only `fix:` commits (F01-F62; F61 was recorded as open first and repaired three hours later)."),
 ("`/repo` carries only `fix:` commits (F01-F62; F61 is recorded, not repaired).", "`/repo` carries only `fix:` commits (F01-F62; F61 was recorded as open first and repaired three hours later)."),
 ("tree BEFORE the repair named (F01…F60)", "tree BEFORE the repair named (F01…F62)"),
 ("K01 = `compute_distance` (f64, out of\n  Verus' reach).", "K01 = `compute_distance` (f64, out of\n  Verus' reach), K02 = `WrapConfig::config_max_line_length` and K03 = `AmbiguousDiffMinusCounter::count_line` (also\n  under Verus contracts; Kani adds the counterexample that Verus cannot give)."),
]
for x, y in REPL:
    if y in mid:
        continue
    if x in mid:
        mid = mid.replace(x, y, 1)
    else:
        print("WARNING: anchor not found:", x[:60].replace("\n", " "))
# seed table
rows = []
for d in sorted(glob.glob(V + "/seeded/C*-m*")):
    try:
        m = json.load(open(os.path.join(d, "meta.json")))
    except Exception:
        continue
    own = m.get("detected_by") or []
    oth = m.get("also_reported_under") or {}
    und = m.get("undecided") or []
    def short(o):
        o = o.split("/", 1)[-1]
        return o[:70]
    if own:
        by = "; ".join("`%s`" % short(o) for o in own[:2]) + (" …" if len(own) > 2 else "")
    elif oth:
        by = "(under %s) " % ", ".join(sorted(oth)) + "; ".join("`%s`" % short(o) for v in list(oth.values())[:1] for o in v[:1])
    elif und:
        by = "**undecided** (%s)" % und[0][:80].replace("|", "/")
    else:
        by = "**not reported**"
    fl = ", ".join(os.path.basename(f) for f in (m.get("files_changed") or [])) or "?"
    fn = ", ".join(m.get("functions_changed") or [])[:60]
    rows.append("| %s | %s: %s | %s |" % (m["id"], fl, fn, by))
n_all = len(rows)
n_own = sum(1 for r in rows if "**not reported**" not in r and "**undecided**" not in r and "(under " not in r)
n_oth = sum(1 for r in rows if "(under " in r)
table = "| seed | where | reported by (own property unless noted) |\n|---|---|---|\n" + "\n".join(rows)
table += "\n\n%d seeds filed; %d reported under their own property, %d more only under another property, %d not reported (of which the undecided ones are marked)." % (n_all, n_own, n_oth, n_all - n_own - n_oth)
top = open(V + "/docs/design_top.md").read()
tail = open(V + "/docs/design_tail.md").read().replace("@@SEED_TABLE@@", table)
open(V + "/DESIGN.md", "w").write(top + "\n" + mid + tail)
print("DESIGN.md written: %d seeds, own=%d other=%d" % (n_all, n_own, n_oth))
