#!/usr/bin/env python3
"""Which checks report each filed seeded change?  For every /verif/seeded/<id>/patch.diff: copy /repo/src to a
scratch directory outside /repo and /verif, apply the patch, run EVERY unit of engine V against the patched text
(run.run_unit reads text only) and record, per property, the obligations that fail.  Open known findings are
ignored.  Rewrites `detected`, `detected_by` (own property), `also_reported_under` (other properties) and
`undecided` in meta.json.   Usage: seedscan.py [ids...]   (default: all)"""
import os, sys, json, glob, shutil, subprocess, tempfile, time, re
import concurrent.futures as cf
sys.path.insert(0, os.path.dirname(os.path.abspath(__file__)))
import run, report

BASE = "/repo"

def scan(seed_dir):
    meta_p = os.path.join(seed_dir, "meta.json")
    meta = json.load(open(meta_p))
    prop = meta["property"]
    d = tempfile.mkdtemp(prefix="seedscan.", dir="/tmp")
    try:
        shutil.copytree(os.path.join(BASE, "src"), os.path.join(d, "src"))
        shutil.copy(os.path.join(BASE, "Cargo.toml"), d)
        subprocess.run("git init -q . 2>/dev/null", shell=True, cwd=d)
        p = subprocess.run(["git", "apply", "--whitespace=nowarn", os.path.join(seed_dir, "patch.diff")], cwd=d, capture_output=True, text=True)
        if p.returncode:
            return meta["id"], None, "patch does not apply: %s" % p.stderr[-200:]
        run.WORK = os.path.join(d, "work")   # generated files of this scan stay in the scratch directory
        known = report.load_known()
        units = run.all_units()
        own, other, und = set(), {}, []
        with cf.ThreadPoolExecutor(max_workers=8) as ex:
            futs = {ex.submit(run.run_unit, u, (), d, False): u for u in units}
            for f in cf.as_completed(futs):
                r = f.result()
                if r.status == "undecided":
                    und.append("%s: %s" % (r.unit, (r.reason or "")[:160]))
                for fl in r.failures:
                    for pr in fl["props"]:
                        if report.is_known(fl, pr, known):
                            continue
                        if pr == prop:
                            own.add(fl["obligation"])
                        else:
                            other.setdefault(pr, set()).add(fl["obligation"])
        import kani as kanimod
        for u in kanimod.all_units():
            r = kanimod.run_unit(u, repo=d, work=run.WORK)
            if r["status"] == "undecided":
                und.append("%s: %s" % (u, r["reason"][:160]))
            for fl in r["failures"]:
                for pr in fl["props"]:
                    if report.is_known(fl, pr, known):
                        continue
                    if pr == prop:
                        own.add(fl["obligation"])
                    else:
                        other.setdefault(pr, set()).add(fl["obligation"])
        meta["detected_by"] = sorted(own)
        meta["also_reported_under"] = {k: sorted(v) for k, v in sorted(other.items())}
        meta["detected"] = bool(own)
        meta["detected_any"] = bool(own or other)
        meta["undecided"] = sorted(und)[:4]
        meta["checked_at"] = time.strftime("%Y-%m-%d %H:%M:%S")
        meta.pop("check_summary", None)
        json.dump(meta, open(meta_p, "w"), indent=1)
        return meta["id"], meta, None
    finally:
        shutil.rmtree(d, ignore_errors=True)

def main():
    ids = sys.argv[1:]
    # work on a snapshot of the contracts, so that the scan is not disturbed by edits made meanwhile
    snap = tempfile.mkdtemp(prefix="seedscan.snap.", dir="/tmp")
    shutil.copytree("/verif/contracts", os.path.join(snap, "contracts"))
    run.VERIF = snap
    global BASE
    os.makedirs(os.path.join(snap, "repo"))
    shutil.copytree("/repo/src", os.path.join(snap, "repo", "src"))
    shutil.copy("/repo/Cargo.toml", os.path.join(snap, "repo"))
    BASE = os.path.join(snap, "repo")
    import atexit
    atexit.register(lambda: shutil.rmtree(snap, ignore_errors=True))
    dirs = sorted(glob.glob("/verif/seeded/C*-m*"))
    if ids:
        dirs = [x for x in dirs if os.path.basename(x) in ids or os.path.basename(x).split("-")[0] in ids]
    for sd in dirs:
        mid, meta, err = scan(sd)
        if err:
            print(mid, "ERROR", err); continue
        print("%-8s own=%s other=%s undecided=%d" % (mid, [o.split("/", 1)[1][:60] for o in meta["detected_by"]] or "-",
              {k: len(v) for k, v in meta["also_reported_under"].items()} or "-", len(meta["undecided"])), flush=True)

if __name__ == "__main__":
    main()
