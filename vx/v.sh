#!/bin/sh
# debug helper: generate one unit, run verus, write the terse verdict to /verif/.work/last.txt
cd /verif && python3 vx/gen_one.py "$1" > .work/last.txt 2>&1 && cd .work && verus "$1.rs" --multiple-errors 8 --rlimit 40 2>&1 | awk '/^warning/{skip=1} /^error|^verification results/{skip=0} !skip' | head -${2:-160} >> /verif/.work/last.txt
