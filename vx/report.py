"""Property-level orchestration: which units serve a property, verdicts, evidence, replay files."""
import os, re, sys, json, time, subprocess, concurrent.futures as cf
import run, gen

VERIF = run.VERIF
REPO = run.REPO
EVID = os.path.join(VERIF, "evidence") if REPO == "/repo" else os.path.join(VERIF, ".work", "scratch-evidence")
REPLAY = os.path.join(VERIF, ".work", "replay")
KNOWN = os.path.join(VERIF, "known-findings.txt")

EXTRACTION_RULES = [
    "E1 items are located by path and copied byte-for-byte between the signature's first token and the closing brace; #[cfg(test)] items are never taken",
    "E2 attributes and doc comments on the item are dropped; derives other than Clone/Copy/PartialEq/Eq/Default are dropped; every extracted item/field is made `pub`",
    "E3 contracts are spliced between signature and body (`-> T` becomes `-> (r: T)`); loop invariants are inserted after the header of the n-th loop; ghost asserts/proof blocks at named anchors",
    "E4 macros: write!/writeln! -> verif_write_* on the ghost Writer (text kept when the format string has only {}-placeholders), format! -> exact concatenation or an opaque String (arguments still evaluated), panic!/unreachable!/delta_unreachable -> a call that requires false, debug_assert!/assert! -> an obligation, eprintln! dropped",
    "E4' every use of `<painter>.writer` as a value is preceded by the OD check `output_buffer is empty`",
    "E5 callees not extracted in the unit are external_body stubs whose signature text is re-read from /repo on every run; their contracts come from the single spec block shared with the home unit",
    "E6 struct fields not named in keep= are dropped; `dyn Write` -> ghost `Writer`; dependency types are opaque mirrors declared in the template",
    "E7 generic desugarings: R5 clone_from -> assignment of clone; R3 named expressions replaced by declared stubs (listed per function)",
]

BASE_ASSUMPTIONS = [
    "machine integers: usize/isize are 64-bit; Verus checks overflow against that width",
    "panics, overflow and non-termination inside unextracted code and inside dependencies (regex, syntect, ansi_term, unicode-*, itertools, serde, chrono, clap, git2) are not excluded",
    "termination is proved only for loops/recursions that carry a `decreases` clause",
    "vstd's specifications of std (Vec, String, Option, Result, HashMap, str slicing, iterators) are trusted as the verifier's library",
    "the extracted text is the code that runs: rules E1-E7 list everything the extraction changes (see coverage.extraction_rules and per-function `rules`)",
]

def classify_tags(r, lines):
    """-> list of dicts (name, props, line, item, mode, section, counted)"""
    out = []
    for (ln, props, name) in r.tags:
        item = None
        for it in r.items:
            if it["gen_lo"] <= ln <= it["gen_hi"]:
                item = it
        lo = item["gen_lo"] if item else max(1, ln - 12)
        section = None
        for k in range(ln, lo - 1, -1):
            s = lines[k - 1].strip()
            m = re.match(r"^(requires|ensures|invariant|decreases|assert|proof)\b", s)
            if m:
                section = m.group(1)
                break
            m = re.search(r"\b(requires|ensures|invariant|decreases)\b", s.split("//")[0])
            if m and k == ln:
                section = m.group(1)
                break
        mode = item["mode"] if item else "template"
        if mode == "verified":
            counted = section in ("ensures", "invariant", "decreases", "assert", "proof", None)
        else:
            counted = section == "requires"
            if mode == "template" and section == "ensures":
                # a hand-written lemma (proof fn with a body) is verified by Verus: its ensures is an obligation
                for k in range(ln, max(0, ln - 15), -1):
                    if re.search(r"\bfn\s+\w+", lines[k - 1]):
                        hdr = " ".join(lines[max(0, k - 3):k])
                        counted = ("proof fn" in hdr) and ("external_body" not in hdr) and ("axiom" not in hdr)
                        break
            elif counted:
                # a precondition tag is an obligation here only if some verified body calls the function
                fname = None
                for k in range(ln, max(0, ln - 15), -1):
                    m = re.search(r"\bfn\s+(\w+)", lines[k - 1])
                    if m:
                        fname = m.group(1)
                        break
                called = False
                if fname:
                    for it in r.items:
                        if it["mode"] == "verified" and any((fname + "(") in l for l in lines[it["gen_lo"] - 1:it["gen_hi"]]):
                            called = True
                            break
                counted = called
        out.append(dict(name=name, props=props, line=ln, fn=item["name"] if item else "<template>", mode=mode,
                        section=section, counted=counted, text=lines[ln - 1].strip()))
    return out

def unit_index():
    """unit -> set of property ids it serves (from tags in the generated text); every unit serves C03."""
    idx = {}
    for u in run.all_units():
        props = {"C03"}
        try:
            g = gen.Generator(repo=REPO, verif=VERIF).generate(u)
            lines = g.text().split("\n")
            fake = run.UnitResult(u)
            fake.tags, fake.items = run.scan_tags(lines), g.items
            for t in classify_tags(fake, lines):
                if t["counted"]:
                    props.update(t["props"])
        except Exception:
            # fall back to the raw template + spec files
            txt = open(os.path.join(VERIF, "contracts", u + ".rs")).read()
            for m in run.TAG_RX.finditer(txt):
                props.update(m.group(1).split(","))
            for sp in re.findall(r"spec=(\S+)", txt):
                try:
                    blk = gen.Specs(os.path.join(VERIF, "contracts", "specs")).get(sp)
                    for m in run.TAG_RX.finditer(blk):
                        props.update(m.group(1).split(","))
                except Exception:
                    pass
        idx[u] = props
    return idx

def load_known():
    out = []
    if os.path.exists(KNOWN):
        for l in open(KNOWN):
            l = l.strip()
            if not l.startswith("open:"):
                continue
            d = dict(re.findall(r"(\w+)=(\S+)", l))
            d["_line"] = l
            m = re.search(r"what=(.*)$", l)
            d["what"] = m.group(1) if m else ""
            out.append(d)
    return out

def is_known(f, prop, known):
    for k in known:
        if k.get("property") == prop and k.get("obligation") == f["obligation"]:
            site = k.get("site")
            if site is None or site in re.sub(r"\s+", "", f.get("snippet", "")):
                return k
    return None

def check_property(prop, tier="quick", only_units=None):
    t0 = time.time()
    seed = int(os.environ.get("VERIF_SEED", "0") or 0)
    idx = unit_index()
    units = [u for u, ps in idx.items() if prop in ps]
    if only_units:
        units = [u for u in units if any(u.startswith(o) for o in only_units)]
    results = []
    with cf.ThreadPoolExecutor(max_workers=6) as ex:
        futs = {ex.submit(run.run_unit, u): u for u in units}
        for f in cf.as_completed(futs):
            results.append(f.result())
    results.sort(key=lambda r: r.unit)
    stability = []
    if tier == "thorough":
        # re-run every unit that verified with two other solver seeds and with a halved resource limit.  The verdict is
        # the one of the reference run (same text, same seed, same limit: deterministic); these runs measure the margin
        # of the proofs and are recorded in the evidence (`stability_runs`) and printed, they do not change the verdict:
        # a proof that needs more than half of the budget is still a proof, and a failed re-run has no counterexample.
        jobs = [(r.unit, extra) for r in results if r.status == "ok"
                for extra in (["--smt-option", "smt.random_seed=%d" % (seed + 7)], ["--smt-option", "smt.random_seed=%d" % (seed + 101)], ["--rlimit", "20"])]
        with cf.ThreadPoolExecutor(max_workers=4) as ex:
            futs = {ex.submit(run.run_unit, u, extra=extra): (u, extra) for (u, extra) in jobs}
            for f in cf.as_completed(futs):
                u, extra = futs[f]
                r2 = f.result()
                stability.append(dict(unit=u, extra=" ".join(extra), status=r2.status, failures=len(r2.failures)))
                if r2.status != "ok":
                    print("NOTE: %s is not stable under %s (%s); the reference run decides" % (u, " ".join(extra), r2.status))
        stability.sort(key=lambda d: (d["unit"], d["extra"]))
    kani = None
    try:
        import kani as kanimod
        kani = kanimod.run_for_property(prop, tier)
    except ImportError:
        kani = None
    known = load_known()
    obligations, discharged = 0, 0
    samples, fns, assumed, drops, probes, checker_cmds = [], [], [], [], [], []
    violations, known_hits, undecided = [], [], []
    solver_ms = 0
    per_unit = {}
    for r in results:
        checker_cmds.append(r.cmd)
        if r.status == "undecided":
            undecided.append("%s: %s" % (r.unit, r.reason))
        lines = open(r.gen_path).read().split("\n") if r.gen_path and os.path.exists(r.gen_path) else []
        ct = classify_tags(r, lines) if lines else []
        mine = [t for t in ct if prop in t["props"] and t["counted"]]
        failed_tags = {(f["tag"], f["fn"]) for f in r.failures if f["tag"] and prop in f["props"]}
        failed_tagnames = {f["tag"] for f in r.failures if f["tag"] and prop in f["props"]}
        # obligations listed as open known findings are reported separately (KNOWN-FINDING lines) and
        # are excluded from both counts: they are neither discharged nor new violations
        known_tagnames = {f["tag"] for f in r.failures if f["tag"] and prop in f["props"] and is_known(f, prop, known)}
        mine = [t for t in mine if t["name"] not in known_tagnames]
        failed_tagnames = failed_tagnames - known_tagnames
        n_obl = len(mine)
        n_fail = len({t["name"] for t in mine if t["name"] in failed_tagnames})
        # a failed proof step (precondition of a lemma of the contract file) leaves the tagged obligations of that
        # function unproved, whatever the verifier says about the clauses themselves
        step_fns = {f["fn"] for f in r.failures if f["tag"] is None and prop in f["props"] and not f["obligation"].endswith(".safety")}
        n_fail += len({t["name"] for t in mine if t["fn"] in step_fns and t["name"] not in failed_tagnames})
        verified_fns = [it for it in r.items if it["mode"] == "verified"]
        if prop == "C03":
            n_obl += len(verified_fns)
            bad_fns = {f["fn"] for f in r.failures if f["tag"] is None and "C03" in f["props"]}
            n_fail += len(bad_fns)
        n_dis = (n_obl - n_fail) if r.status in ("ok", "failed") else 0
        obligations += n_obl
        discharged += n_dis
        solver_ms += (r.times.get("smt_run_ms") or 0)
        per_unit[r.unit] = dict(status=r.status, reason=r.reason, verus_verified=r.verified, verus_errors=r.errors,
                                obligations=n_obl, discharged=n_dis, wall_s=round(r.wall, 2),
                                smt_run_ms=r.times.get("smt_run_ms"), generated_sha256=r.gen_sha, sources=r.sources)
        for t in mine[:4]:
            samples.append(dict(unit=r.unit, obligation=t["name"], function=t["fn"], clause=t["text"][:300], section=t["section"]))
        for it in r.items:
            if it["kind"] == "fn":
                fns.append(dict(unit=r.unit, file=it["src"], line=it["src_line"], fn=it["name"], engine="verus",
                                mode=it["mode"], spec=it.get("spec"), rules=it["rules"][:12]))
            for ru in it["rules"]:
                if ru.startswith(("R3", "R5", "E6 fields")):
                    drops.append("%s %s: %s" % (r.unit, it["name"], ru[:300]))
        for a in r.assumptions:
            assumed.append("%s: %s" % (r.unit, a))
        probes += ["%s: %s (fails as required)" % (r.unit, p) for p in r.vacuity_expected if p not in r.vacuity_missing]
        for f in r.failures:
            if prop not in f["props"]:
                continue
            k = is_known(f, prop, known)
            if k:
                known_hits.append((f, k))
            else:
                violations.append(f)
    if kani:
        obligations += kani["obligations"]
        discharged += kani["discharged"]
        checker_cmds += kani["cmds"]
        samples += kani["samples"][:3]
        fns += kani["functions"]
        undecided += kani["undecided"]
        for f in kani["failures"]:
            k = is_known(f, prop, known)
            (known_hits.append((f, k)) if k else violations.append(f))
    # dedupe violations by obligation
    seen, uniq = set(), []
    for f in violations:
        key = (f["obligation"], f.get("snippet"))
        if key not in seen:
            seen.add(key)
            uniq.append(f)
    violations = uniq
    os.makedirs(REPLAY, exist_ok=True)
    vlines = []
    for n, f in enumerate(violations):
        path = os.path.join(REPLAY, "%s-%s-%d.json" % (prop, re.sub(r"[^\w\.\-]", "_", f["obligation"])[:80], n))
        rep = dict(property=prop, obligation=f["obligation"], unit=f["unit"], function=f["fn"], kind=f["kind"],
                   source_file=f.get("src"), source_line_approx=f.get("src_line"), failing_text=f.get("snippet"),
                   verifier_output=f["message"], engine=f.get("engine", "verus"),
                   replay_cmd="%s/check --replay %s" % (VERIF, path))
        wit = None
        if (f.get("counterexample") or {}).get("replayed"):
            # the verifier gave a counterexample and it was replayed on the (extracted) real function
            wit = f["counterexample"]
        else:
            if f.get("counterexample"):
                rep["unconfirmed_counterexample"] = f["counterexample"]
            try:
                import witness
                wit = witness.find(prop, f)
            except Exception as e:
                rep["witness_error"] = repr(e)
        if wit:
            rep["counterexample"] = wit
        else:
            rep["counterexample"] = None
            rep["note"] = "no-failing-input-found: the verifier produces no counterexample for this obligation"
        json.dump(rep, open(path, "w"), indent=1)
        vlines.append("VIOLATION property=%s replay=%s%s" % (prop, path, "" if wit else " no-failing-input-found"))
    for (f, k) in known_hits:
        print("KNOWN-FINDING: property=%s %s (%s)" % (prop, f["obligation"], k.get("what", "")))
    for l in vlines:
        print(l)
    for u in undecided:
        print("UNDECIDED: %s" % u)
    ev = dict(
        property_id=prop, tier=tier if tier in ("quick", "thorough") else "quick", seed=seed,
        level=level_of(prop),
        coverage=dict(
            obligations=obligations, discharged=discharged,
            checker_cmd=" ; ".join(checker_cmds) or "none",
            trusted_base=sorted(set(assumed)) + ["verus 0.2026.09.13 + z3 (the verifier itself)", "rustlex/gen.py extraction (rules E1-E7)"]
                         + (["kani 0.68.0 + cbmc 6.11 (engine K: function contracts on loop-free extracted functions; floating point is CBMC's bit-precise IEEE-754 model)"] if (kani or {}).get("units") else []),
            samples=samples[:12] or [dict(note="no tagged obligation in the selected units")],
            explanation=explanation_of(prop),
            functions_under_contract=fns,
            by_backend={"verus-z3": sum(v["discharged"] for v in per_unit.values()), "kani-cbmc": (kani or {}).get("discharged", 0)},
            solver_time_s=round(solver_ms / 1000.0, 3),
            units=dict(per_unit, **(kani or {}).get("units", {})),
            bounded=(kani or {}).get("bounded", []),
            extraction_rules=EXTRACTION_RULES,
            extraction_drops=sorted(set(drops)),
            vacuity_probes=probes,
            stability_runs=stability,
            known_findings=[k["_line"] for (_, k) in known_hits],
            undecided=undecided,
        ),
        assumptions=BASE_ASSUMPTIONS,
        wall_s=round(time.time() - t0, 2),
        violations=len(violations),
    )
    os.makedirs(EVID, exist_ok=True)
    json.dump(ev, open(os.path.join(EVID, prop + ".json"), "w"), indent=1)
    print("%s: %d/%d obligations discharged over %d unit(s) in %.1fs%s" % (
        prop, discharged, obligations, len(results) + len((kani or {}).get("units", {})), time.time() - t0,
        "" if not undecided else " [UNDECIDED: %d]" % len(undecided)))
    if violations:
        return 1
    if undecided or obligations == 0:
        return 2
    return 0

def level_of(prop):
    try:
        m = json.load(open(os.path.join(VERIF, "MANIFEST.json")))
        for c in m["checks"]:
            if c["property_id"] == prop:
                return c["level_claimed"]["category"]
    except Exception:
        pass
    return "proof"

def explanation_of(prop):
    return ("Contract-based deductive verification: the functions listed under functions_under_contract are extracted "
            "mechanically from /repo/src on this run and verified by Verus against the contracts in /verif/contracts; "
            "obligations counts the tagged contract clauses serving %s that are checked (not assumed) in these units%s." %
            (prop, " plus one safety obligation (overflow, bounds, unwrap, unreachable, termination where stated) per verified function" if prop == "C03" else ""))

def replay(path):
    rep = json.load(open(path))
    prop, unit, obl = rep["property"], rep["unit"], rep["obligation"]
    print("replaying %s obligation %s (unit %s)" % (prop, obl, unit))
    if rep.get("engine") == "kani":
        import kani as kanimod
        return kanimod.replay(rep)
    r = run.run_unit(unit)
    still = [f for f in r.failures if f["obligation"] == obl]
    if r.status == "undecided":
        print("UNDECIDED: %s" % r.reason)
        return 2
    if still:
        print("obligation still fails on the current tree:")
        print(still[0]["message"])
    else:
        print("obligation is discharged on the current tree")
    ce = rep.get("counterexample")
    rc = 1 if still else 0
    if ce:
        import witness
        ok = witness.run_witness(ce)
        print("witness %s: %s" % (ce.get("name"), "FAILS on the real binary (property violated)" if not ok else "passes on the real binary"))
        if not ok:
            rc = 1
    return rc
