#!/bin/bash
# F58 (C09, C19): with --hyperlinks, a commit line that ALREADY carries a (balanced) OSC 8 hyperlink around its hash was
# searched for a hash with its escape sequences in it: the hash inside the URL of the existing link was wrapped in a new
# link, which leaves an OSC sequence without its terminator and a link opened inside a link.
# usage: F58_commit_link_inside_a_link.sh /path/to/delta   (exit 0 = every link is closed and none is nested, 1 = defect)
D="${1:-/repo/target/debug/delta}"
IN=$(mktemp)
printf 'commit \033]8;;https://example.com/c/94907c0f136f46dc\033\\94907c0f136f46dc\033]8;;\033\\\nAuthor: a\n' > "$IN"
OUT=$(mktemp)
setsid -w "$D" --no-gitconfig --paging never --dark --hyperlinks --hyperlinks-commit-link-format 'https://x.test/{commit}' --commit-decoration-style ul < "$IN" > "$OUT"
rm -f "$IN"
python3 - "$OUT" <<'EOF'
import re, sys
data = open(sys.argv[1], 'rb').read().decode('utf-8', 'replace')
bad = 0
for n, line in enumerate(data.split('\n'), 1):
    # every OSC must be terminated by ST (ESC \) or BEL before the next ESC ] starts
    pos = 0; opened = False
    for m in re.finditer(r'\x1b\]8;([^;\x1b\x07]*);([^\x1b\x07]*)(\x1b\\|\x07)?', line):
        url, term = m.group(2), m.group(3)
        if term is None:
            print('line %d: OSC 8 sequence without terminator: %r' % (n, m.group(0)[:60])); bad += 1; continue
        if url:
            if opened: print('line %d: hyperlink opened inside a hyperlink' % n); bad += 1
            opened = True
        else:
            opened = False
    if opened: print('line %d: hyperlink not closed at end of line' % n); bad += 1
print(repr(data[:300]))
sys.exit(1 if bad else 0)
EOF
rc=$?
rm -f "$OUT"
if [ $rc -eq 0 ]; then echo "OK: links are well formed"; else echo "DEFECT: malformed hyperlinks"; fi
exit $rc
