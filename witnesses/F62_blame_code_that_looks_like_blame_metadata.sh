#!/bin/bash
# F62 (C17): a `git blame` line whose CODE itself contains something shaped like blame metadata (` <timestamp> <number>)` -
# e.g. a comment quoting blame output, as in delta's own handlers/blame.rs).  The author group of the blame regex was greedy,
# so the metadata ended at the LAST such shape: the line was shown with the wrong line number and author, and most of its
# code was lost.  Also: an author name of a single character was not recognised at all (the group needed two).
# usage: F62_blame_code_that_looks_like_blame_metadata.sh /path/to/delta   (exit 0 = code and line number kept, 1 = defect)
D="${1:-/repo/target/debug/delta}"
IN=$(mktemp)
printf 'a1a1a1a1 (Ada Lovelace 2021-08-22 18:20:19 -0700 1) //ea82f2d0 (Dan Davison       2021-08-22 18:20:19 -0700 120)             let mut handled_line\nb2b2b2b2 (X 2021-08-23 18:20:19 -0700 2) let y = 2;\n' > "$IN"
OUT=$(setsid -w "$D" --no-gitconfig --paging never --dark --width 250 --blame-timestamp-output-format '%Y-%m-%d' < "$IN" | sed 's/\x1b\[[0-9;]*[mK]//g; s/\x1b\]8;[^\x1b]*\x1b\\//g')
rm -f "$IN"
echo "$OUT" | cut -c1-230
bad=0
echo "$OUT" | head -1 | grep -q '//ea82f2d0 (Dan Davison       2021-08-22 18:20:19 -0700 120)             let mut handled_line' || { echo "line 1: the code of the line is not shown in full"; bad=1; }
echo "$OUT" | head -1 | grep -q 'Ada Lovelace' || { echo "line 1: the author is not Ada Lovelace"; bad=1; }
echo "$OUT" | sed -n 2p | grep -q 'let y = 2;' && echo "$OUT" | sed -n 2p | grep -vq '^b2b2b2b2 (X 2021' || { echo "line 2: the line of the one-letter author was not recognised as a blame line"; bad=1; }
if [ $bad -eq 0 ]; then echo "OK: code and attribution are kept"; exit 0; fi
echo "DEFECT"; exit 1
