#!/bin/bash
# F39 (C10): the commit names read from the markers of a merge conflict were never reset: after a diff3-style conflict
# (`++||||||| base`) the boxes of every later two-way conflict - also in the next file - read `ancestor ⟶ HEAD`.
# Output(A ++ B) must be output(A) ++ output(B).
# usage: F39_conflict_names_leak_into_the_next_conflict.sh [path to delta]      exit 0 = holds
DELTA=${1:-/repo/target/debug/delta}
T=$(mktemp -d)
cat > "$T/a.diff" <<'EOF'
diff --cc a.txt
index 1111111,2222222..0000000
--- a/a.txt
+++ b/a.txt
@@@ -1,3 -1,3 +1,9 @@@
  top
++<<<<<<< HEAD
 +ours
++||||||| base
++orig
++=======
+ theirs
++>>>>>>> branch
  bottom
EOF
cat > "$T/b.diff" <<'EOF'
diff --cc b.txt
index 3333333,4444444..0000000
--- a/b.txt
+++ b/b.txt
@@@ -1,3 -1,3 +1,7 @@@
  top2
++<<<<<<< HEAD
 +ours2
++=======
+ theirs2
++>>>>>>> other
  bottom2
EOF
run() { "$DELTA" --no-gitconfig --paging never --width 60 | sed 's/\x1b\[[0-9;]*[A-Za-z]//g'; }
cat "$T/a.diff" "$T/b.diff" | run > "$T/ab.out"
{ run < "$T/a.diff"; run < "$T/b.diff"; } > "$T/a_b.out"
st=0
if ! cmp -s "$T/ab.out" "$T/a_b.out"; then
  echo "VIOLATED: output(A++B) differs from output(A)++output(B):"; diff "$T/a_b.out" "$T/ab.out" | head -8; st=1
fi
rm -rf "$T"
[ $st -eq 0 ] && echo OK
exit $st
