#!/bin/bash
# F30/F31 (C14): "exactly one file header per file section ... Paths with spaces, non-ASCII characters ... are reported
# faithfully."  With git's default core.quotepath a non-ASCII name is written "quoted" with octal escapes.
#  F30: a renamed file with changes: the `rename from/to` lines kept their quotes while `---`/`+++` lost them, so the two
#       pairs differed and the section got TWO file headers (the first one showing the quotes).
#  F31: a quoted name that also contains a blank: git appends a tab after the closing quote, the quotes were looked for
#       before the tab was removed, so the header showed the raw `"b/..."` with quotes and prefix.
# usage: F30_quoted_rename_two_headers.sh [path to delta]      exit 0 = holds
DELTA=${1:-/repo/target/debug/delta}
T=$(mktemp -d); trap 'rm -rf "$T"' EXIT
cat > $T/a.diff <<'EOF'
diff --git "a/caf\303\251-x.txt" "b/caf\303\251-y.txt"
similarity index 50%
rename from "caf\303\251-x.txt"
rename to "caf\303\251-y.txt"
index 1234567..89abcde 100644
--- "a/caf\303\251-x.txt"
+++ "b/caf\303\251-y.txt"
@@ -1 +1 @@
-one
+two
EOF
printf 'diff --git "a/caf\\303\\251 z.txt" "b/caf\\303\\251 z.txt"\nindex 1234567..89abcde 100644\n--- "a/caf\\303\\251 z.txt"\t\n+++ "b/caf\\303\\251 z.txt"\t\n@@ -1 +1 @@\n-one\n+two\n' > $T/b.diff
st=0
out=$("$DELTA" --no-gitconfig --paging never --file-style blue --file-decoration-style none --hunk-header-style omit --file-renamed-label renamed: --file-modified-label modified: < $T/a.diff | sed 's/\x1b\[[0-9;]*m//g' | grep -E 'caf')
n=$(printf '%s\n' "$out" | wc -l)
echo "--- renamed, quoted:"; printf '%s\n' "$out"
if [ "$n" -ne 1 ]; then echo "VIOLATED (F30): $n file headers for one file section"; st=1; fi
if printf '%s' "$out" | grep -q '"'; then echo "VIOLATED (F30): the header shows git's quotes"; st=1; fi
out=$("$DELTA" --no-gitconfig --paging never --file-style blue --file-decoration-style none --hunk-header-style omit --file-modified-label modified: < $T/b.diff | sed 's/\x1b\[[0-9;]*m//g' | grep -E 'caf')
echo "--- quoted name with a blank:"; printf '%s\n' "$out"
if printf '%s' "$out" | grep -q -E '"|b/caf'; then echo "VIOLATED (F31): the header shows the raw quoted name with its prefix"; st=1; fi
[ $st -eq 0 ] && echo OK
exit $st
