#!/bin/bash
# F47 (C11): since the F32 repair the removed/added lines directly before a conflict region are rendered when the region
# begins - but they were only put into the output buffer, not written: they reached the reader together with the whole
# conflict region, however long that is.  With stdin held open after the `++<<<<<<<` line they must already be there.
# usage: F47_lines_before_a_conflict_are_written_late.sh [path to delta]      exit 0 = holds
DELTA=${1:-/repo/target/debug/delta}
python3 - "$DELTA" <<'EOF'
import os, subprocess, sys, time, select
delta = sys.argv[1]
head = ["diff --cc HDRfile.txt", "index 1111111,2222222..0000000", "--- a/HDRfile.txt", "+++ b/HDRfile.txt", "@@@ -1,6 -1,6 +1,14 @@@",
        "  ctx tok001", "- gone tok002", " -gone tok003", "++<<<<<<< HEAD", "+ ours tok004"]
rest = ["++=======", " +theirs tok005", "++>>>>>>> branch", "  ctx tok006"]
p = subprocess.Popen([delta, "--no-gitconfig", "--paging", "never", "--line-buffer-size", "2"], stdin=subprocess.PIPE, stdout=subprocess.PIPE)
os.set_blocking(p.stdout.fileno(), False)
def feed(lines):
    for l in lines:
        p.stdin.write((l + "\n").encode()); p.stdin.flush()
def drain(wait):
    out = b""; end = time.time() + wait
    while time.time() < end:
        r, _, _ = select.select([p.stdout], [], [], 0.1)
        if r:
            b = p.stdout.read()
            if b: out += b
    return out
feed(head)
early = drain(2.0)
feed(rest); p.stdin.close()
late = drain(1.0); p.wait(); late += (p.stdout.read() or b"")
ok = b"tok002" in early and b"tok003" in early
if not ok:
    print("VIOLATED: after the begin marker of the conflict region (and one line of it) the removed lines before it are not on stdout yet; so far: %r" % early[-80:])
elif not (early + late).startswith(early):
    print("VIOLATED: output revised"); ok = False
print("OK" if ok else "")
sys.exit(0 if ok else 1)
EOF
