#!/bin/bash
# F61 (C01): combined diff (`@@@`, two marker columns) in which a context line is shorter than the marker columns - an
# empty line, its two blanks stripped.  The number of marker columns of the FOLLOWING lines was taken from the length of
# this line's (shorter) markers: it dropped to 0, so the rest of the hunk lost its +/- classification (added lines were
# shown as unchanged text, markers included).
# Second part: under raw styles every line of the hunk, also a short `+` or `-`, is passed on as it came.
# usage: F61_short_line_in_combined_diff.sh /path/to/delta   (exit 0 = the added lines after the short line are shown as added, 1 = defect)
D="${1:-/repo/target/debug/delta}"
mk() { printf 'diff --cc f.txt\nindex 1111111,2222222..3333333\n--- a/f.txt\n+++ b/f.txt\n@@@ -1,4 -1,4 +1,5 @@@\n  one\n%s\n +two\n+ three\n  four\n' "$1"; }
REF=$(mk '  ' | setsid -w "$D" --no-gitconfig --paging never --dark | grep -E 'two|three|four')
OUT=$(mk ''   | setsid -w "$D" --no-gitconfig --paging never --dark | grep -E 'two|three|four')
echo "$OUT" | cat -v | cut -c1-100
if [ "$REF" != "$OUT" ]; then
  echo "DEFECT: after a line shorter than the marker columns the following lines are rendered differently:"
  echo "$REF" | cat -v | cut -c1-100
  exit 1
fi
echo "OK: the lines after the short line are rendered as after a full-length blank line"
bad=0
for mid in '  ' '' ' ' '+' '-' ' +' '+ x'; do
  want=$(mk "$mid" | tail -n +6)
  got=$(mk "$mid" | setsid -w "$D" --no-gitconfig --paging never --dark --minus-style raw --zero-style raw --plus-style raw 2>&1 | tail -n 5)
  if [ "$want" != "$got" ]; then bad=$((bad+1)); echo "DEFECT: under raw styles the hunk with the line [$mid] is not passed on as it came"; fi
done
[ $bad -eq 0 ] && echo "OK: under raw styles all seven shapes of the short line are passed on unchanged"
[ $bad -eq 0 ]
