#!/bin/bash
# F48 (C17): a blame line that the blame regex does not recognise (e.g. a one-letter author) is passed through raw - but
# the state kept the key of the line BEFORE it, so the next line, if attributed to that same commit, was taken for a
# repeat and its metadata blanked although the line directly above it belongs to another commit.
# usage: F48_blame_line_after_an_unrecognised_line_is_blanked.sh [path to delta]      exit 0 = holds
DELTA=${1:-/repo/target/debug/delta}
out=$(printf 'aaaa1111 (Ann Lee 2021-01-01 00:00:00 +0000 1) one\nbbbb2222 (X       2021-01-02 00:00:00 +0000 2) two\naaaa1111 (Ann Lee 2021-01-01 00:00:00 +0000 3) three\n' \
  | "$DELTA" --no-gitconfig --paging never --dark --width 120 --blame-format '{commit:<10} {author:<10}' | sed 's/\x1b\[[0-9;]*[A-Za-z]//g')
l3=$(echo "$out" | sed -n 3p)
if echo "$l3" | grep -q 'aaaa1111' && echo "$l3" | grep -q 'Ann Lee'; then echo OK; exit 0; fi
echo "VIOLATED: the third line is not consecutive to a line of its commit, yet its metadata is blank: '$l3'"
exit 1
