#!/bin/bash
# F35 (C01): in a combined diff (two marker columns, which delta keeps in its display) a
# `\ No newline at end of file` line reset the hunk state to that of a two-way diff; from the lines after it ONE marker
# column was cut off: ` -old end theirs` was shown as `-old end theirs`, `++new end` as `+new end`, `  context two` as
# ` context two` - the text of the lines was altered and added/removed lines were shown as unchanged ones.
# usage: F35_no_newline_marker_in_a_combined_diff.sh [path to delta]      exit 0 = holds
DELTA=${1:-/repo/target/debug/delta}
T=$(mktemp -d); trap 'rm -rf "$T"' EXIT
cat > $T/a.diff <<'EOF'
diff --cc end.txt
index 1111111,2222222..3333333
--- a/end.txt
+++ b/end.txt
@@@ -1,3 -1,3 +1,4 @@@
  first context
- old end ours
\ No newline at end of file
 -old end theirs
++new end
  context two
EOF
out=$("$DELTA" --no-gitconfig --paging never --hunk-header-style omit < $T/a.diff | sed 's/\x1b\[[0-9;]*[A-Za-z]//g' | sed 's/ *$//')
printf '%s\n' "$out"
st=0
# lines before the marker show how this configuration displays a combined-diff line: with both marker columns
for t in '  first context' '- old end ours' ' -old end theirs' '++new end' '  context two'; do
  if ! printf '%s\n' "$out" | grep -q -x -- "$t"; then echo "VIOLATED: the hunk line '$t' is not shown as the lines before the marker are (both marker columns kept)"; st=1; fi
done
[ $st -eq 0 ] && echo OK
exit $st
