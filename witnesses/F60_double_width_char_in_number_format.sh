#!/bin/bash
# F60 (C07): side-by-side view with a double-width character in the line-number format (`│{nm:^4}＃│`).  The width of the
# number column was computed from the NUMBER OF GRAPHEMES of the format's fixed text, not from its display width, so the
# text width of a panel came out one column too large: with unlimited wrapping every row of a long line was cut with the
# truncation mark `→` instead of continuing on the next row (`↵`), and text was lost.
# usage: F60_double_width_char_in_number_format.sh /path/to/delta   (exit 0 = the long line is wrapped without loss, 1 = defect)
D="${1:-/repo/target/debug/delta}"
IN=$(mktemp)
L="the quick brown fox jumps over the lazy dog and keeps on running through the forest until nightfall"
printf -- '--- a/x.txt\n+++ b/x.txt\n@@ -1,1 +1,1 @@\n-%s\n+%s!\n' "$L" "$L" > "$IN"
OUT=$(setsid -w "$D" --no-gitconfig --paging never --dark --side-by-side --width 60 --wrap-max-lines unlimited \
      --line-numbers-left-format '│{nm:^4}＃│' --line-numbers-right-format '│{np:^4}＃│' < "$IN" | sed 's/\x1b\[[0-9;]*[mK]//g')
rm -f "$IN"
echo "$OUT" | tail -8
if echo "$OUT" | grep -q '→'; then echo "DEFECT: rows were cut with the truncation mark although wrapping is unlimited"; exit 1; fi
if echo "$OUT" | grep -q '↵'; then echo "OK: the long line continues on following rows"; exit 0; fi
echo "SKIP: the line was not wrapped at all (cannot decide)"; exit 0
