#!/bin/bash
# F38 (C08): a hunk header longer than --max-line-length is exempt from truncation - but the exemption looked at the raw
# line, so the header git colours (`ESC[36m@@ ...`) was cut while the plain one was not: coloured and plain input gave
# different output.  Same for the `{` exemption of rg --json lines.
# usage: F38_coloured_hunk_header_is_truncated.sh [path to delta]      exit 0 = holds
DELTA=${1:-/repo/target/debug/delta}
T=$(mktemp -d)
python3 - "$T" <<'EOF'
import sys
t=sys.argv[1]
E='\x1b'
hdr='@@ -10,3 +10,4 @@ fn main() { and quite a lot more text follows here'
plain='diff --git a/f.rs b/f.rs\n--- a/f.rs\n+++ b/f.rs\n'+hdr+'\n ctx\n-old\n+new\n ctx\n'
col=(E+'[1mdiff --git a/f.rs b/f.rs'+E+'[m\n'+E+'[1m--- a/f.rs'+E+'[m\n'+E+'[1m+++ b/f.rs'+E+'[m\n'
     +E+'[36m@@ -10,3 +10,4 @@'+E+'[m fn main() { and quite a lot more text follows here\n ctx\n'+E+'[31m-old'+E+'[m\n'+E+'[32m+'+E+'[m'+E+'[32mnew'+E+'[m\n ctx\n')
open(t+'/plain.diff','w').write(plain)
open(t+'/col.diff','w').write(col)
EOF
st=0
for n in 20 40; do
  "$DELTA" --no-gitconfig --paging never --max-line-length $n < "$T/plain.diff" > "$T/p.out" 2>&1
  "$DELTA" --no-gitconfig --paging never --max-line-length $n < "$T/col.diff" > "$T/c.out" 2>&1
  if ! cmp -s "$T/p.out" "$T/c.out"; then
    echo "VIOLATED (--max-line-length $n): output for the coloured input differs from the output for the plain input:"
    diff <(sed 's/\x1b\[[0-9;]*[A-Za-z]//g' "$T/p.out") <(sed 's/\x1b\[[0-9;]*[A-Za-z]//g' "$T/c.out") | head -6
    st=1
  fi
done
rm -rf "$T"
[ $st -eq 0 ] && echo OK
exit $st
