#!/bin/bash
# F57 (C14, C10, C01): plain `diff -u` output (no `diff` line) in which a context line is truly empty (GNU diff
# --suppress-blank-empty, or a diff whose trailing blanks were stripped).  The empty line was shown by the catch-all arm of
# handle_hunk_line and NOT counted as a line of the old file, so the counter that tells a `--- file` header from a removed
# line `-- file` never reached zero: the second file's header lines were rendered as hunk lines and its hunk appeared under
# the first file's header.
# usage: F57_empty_context_line_not_counted.sh /path/to/delta   (exit 0 = fixed behaviour, 1 = defect present)
D="${1:-/repo/target/debug/delta}"
IN=$(mktemp)
printf -- '--- a.txt\n+++ b.txt\n@@ -1,3 +1,3 @@\n one\n\n-two\n+TWO\n--- c.txt\n+++ d.txt\n@@ -1 +1 @@\n-x\n+y\n' > "$IN"
OUT=$(setsid -w "$D" --no-gitconfig --paging never --dark < "$IN" | sed 's/\x1b\[[0-9;]*[mK]//g')
rm -f "$IN"
echo "$OUT"
if echo "$OUT" | grep -q 'c.txt.*d.txt' && ! echo "$OUT" | grep -q '^-- c.txt'; then echo "OK: the second file has its own header"; exit 0; fi
echo "DEFECT: the header lines of the second file were taken for hunk lines"; exit 1
