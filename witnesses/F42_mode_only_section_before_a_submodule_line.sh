#!/bin/bash
# F42 (C10, C14): the header of a mode-only section (old mode / new mode, no ---/+++) is held back until the next
# section starts. A `Submodule ...` line (git diff --submodule=log: no `diff` line) did not write it: the section's
# header was lost and its mode information was attached to the submodule line (`Submodule sub 1234567..89abcde: (mode +x)`).
# Output(A ++ B) must be output(A) ++ output(B).
# usage: F42_mode_only_section_before_a_submodule_line.sh [path to delta]      exit 0 = holds
DELTA=${1:-/repo/target/debug/delta}
T=$(mktemp -d)
printf 'diff --git a/run.sh b/run.sh\nold mode 100644\nnew mode 100755\n' > "$T/a.diff"
printf 'Submodule sub 1234567..89abcde:\n  > a commit message\n' > "$T/b.diff"
run() { "$DELTA" --no-gitconfig --paging never --width 60 "$@" | sed 's/\x1b\[[0-9;]*[A-Za-z]//g'; }
st=0
cat "$T/a.diff" "$T/b.diff" | run > "$T/ab.out"
{ run < "$T/a.diff"; run < "$T/b.diff"; } > "$T/a_b.out"
if ! cmp -s "$T/ab.out" "$T/a_b.out"; then
  echo "VIOLATED: output(A++B) differs from output(A)++output(B):"; diff "$T/a_b.out" "$T/ab.out" | head -10; st=1
fi
rm -rf "$T"
[ $st -eq 0 ] && echo OK
exit $st
