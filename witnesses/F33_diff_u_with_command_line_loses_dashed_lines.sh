#!/bin/bash
# F33 (C01): output of `diff -u old new` that starts with the echoed command line `diff -u old new` (as `diff -ru` prints
# for every file): the counter that tells a removed line `-- comment` (which reads `--- comment`) from a `--- file`
# header was only armed when the very first input line was `--- `.  With the `diff -u ...` line first, such a removed
# line was taken for a file header and it and every following line of the hunk were dropped.
# usage: F33_diff_u_with_command_line_loses_dashed_lines.sh [path to delta]      exit 0 = holds
DELTA=${1:-/repo/target/debug/delta}
T=$(mktemp -d); trap 'rm -rf "$T"' EXIT
cat > $T/a.diff <<'EOF'
diff -u old/conf.lua new/conf.lua
--- old/conf.lua	2024-01-01 10:00:00.000000000 +0100
+++ new/conf.lua	2024-01-02 10:00:00.000000000 +0100
@@ -1,4 +1,4 @@
 local port = 80
--- legacy comment about ports
+-- updated comment about ports
 local host = "x"
 return port
EOF
out=$("$DELTA" --no-gitconfig --paging never < $T/a.diff | sed 's/\x1b\[[0-9;]*m//g')
printf '%s\n' "$out"
st=0
for t in 'legacy comment about ports' 'updated comment about ports' 'local host' 'return port'; do
  n=$(printf '%s\n' "$out" | grep -c -- "$t")
  if [ "$n" -ne 1 ]; then echo "VIOLATED: hunk line '$t' is shown $n times"; st=1; fi
done
[ $st -eq 0 ] && echo OK
exit $st
