#!/bin/bash
# F29 (C10): concatenated plain `diff -u old new` patches (no `diff ...` command line; the ambiguous format in which a
# removed line `-- comment` looks like a `--- file` header).  delta counts the '-'/' ' lines of a hunk to tell them
# apart.  The counter was decremented without bound: more than 4096 lines starting with '-' or ' ' after the last hunk of
# one patch (quoted text, an indented trailer, a hunk longer than its header says) pushed it below the "counter is
# relevant" threshold, which switched the disambiguation off for every later patch of the input: there the removed line
# `--- World?` was taken for a file header and it and the next line were dropped.  Rendered on its own the later patch
# is right, so out(A+B) != out(A)+out(B).
# usage: F29_stray_lines_switch_off_the_minus_counter.sh [path to delta]    exit 0 = holds
DELTA=${1:-/repo/target/debug/delta}
T=$(mktemp -d); trap 'rm -rf "$T"' EXIT
{
  printf -- '--- a.lua\n+++ b.lua\n@@ -1,2 +1,2 @@\n print("Hello")\n-print("x")\n+print("y")\n'
  for i in $(seq 1 4200); do printf ' > quoted line %d\n' $i; done
} > $T/a.diff
printf -- '--- c.lua\n+++ d.lua\n@@ -1,3 +1,2 @@\n print("Hello")\n--- World?\n print("..")\n' > $T/b.diff
cat $T/a.diff $T/b.diff > $T/ab.diff
run() { "$DELTA" --no-gitconfig --paging never --width 80 --dark < "$1"; }
run $T/a.diff > $T/a.out; run $T/b.diff > $T/b.out; run $T/ab.diff > $T/ab.out
cat $T/a.out $T/b.out > $T/expected.out
plain=$(sed 's/\x1b\[[0-9;]*[A-Za-z]//g' $T/ab.out | tail -8)
st=0
if ! cmp -s $T/expected.out $T/ab.out; then echo "VIOLATED: out(A+B) != out(A)+out(B)"; st=1; fi
if ! printf '%s\n' "$plain" | grep -q -- '-- World?'; then echo "VIOLATED: removed line '-- World?' of the second patch was lost"; st=1; fi
printf '%s\n' "$plain" | tail -6
[ $st -eq 0 ] && echo "OK"
exit $st
