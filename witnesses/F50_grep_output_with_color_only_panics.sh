#!/bin/bash
# F50 (C03): `rg --json` output (or git grep output) with --color-only made delta panic: "String mismatch encountered
# while superimposing style sections": write_line_of_code_with_optional_path_and_line_number replaced the code by the
# whole input line under --color-only (meant for hunk headers, to keep `@@` lines 1-1) but kept the style sections that
# grep had computed for the code alone.
# usage: F50_grep_output_with_color_only_panics.sh [path to delta]      exit 0 = holds
DELTA=${1:-/repo/target/debug/delta}
T=$(mktemp -d)
cat > "$T/in.json" <<'EOF'
{"type":"begin","data":{"path":{"text":"src/a.rs"}}}
{"type":"match","data":{"path":{"text":"src/a.rs"},"lines":{"text":"    let x = foo(1);\n"},"line_number":3,"absolute_offset":20,"submatches":[{"match":{"text":"foo"},"start":12,"end":15}]}}
{"type":"end","data":{"path":{"text":"src/a.rs"},"binary_offset":null,"stats":{"elapsed":{"secs":0,"nanos":1,"human":"0s"},"searches":1,"searches_with_match":1,"bytes_searched":10,"bytes_printed":10,"matched_lines":1,"matches":1}}}
EOF
st=0
for opts in "--color-only" "--color-only --grep-output-type classic"; do
  "$DELTA" --no-gitconfig --paging never --dark $opts < "$T/in.json" > "$T/out" 2> "$T/err"; rc=$?
  if [ $rc -ne 0 ]; then echo "VIOLATED ($opts): exit status $rc: $(grep -m1 -i 'panicked\|mismatch' "$T/err" | head -c 200)"; st=1; fi
  grep -q 'foo' "$T/out" || { echo "VIOLATED ($opts): the hit is not shown"; st=1; }
done
rm -rf "$T"
[ $st -eq 0 ] && echo OK
exit $st
