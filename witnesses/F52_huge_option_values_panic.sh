#!/bin/bash
# F52-F55 (C03): option values delta accepts but could not digest:
#   F52  --wrap-max-lines 18446744073709551615 / 9223372036854775807: "attempt to add / multiply with overflow" (wrapping.rs)
#   F53  a width or precision above 65535 in a format string ({nm:^70000}, {author:<65536}): "Formatting argument out of range"
#   F54  --blame-timestamp-output-format with an invalid chrono item ('%Q', '%'): "a Display implementation returned an error unexpectedly"
#   F55  --parse-ansi with input that is not valid UTF-8: panic "Invalid utf-8"
# usage: F52_huge_option_values_panic.sh [path to delta]      exit 0 = holds
DELTA=${1:-/repo/target/debug/delta}
T=$(mktemp -d)
printf 'diff --git a/f.rs b/f.rs\n--- a/f.rs\n+++ b/f.rs\n@@ -1,2 +1,2 @@\n ctx\n-old line\n+new line\n' > "$T/d.diff"
printf 'ea82f2d0 (Dan Davison       2021-08-22 18:20:19 -0700 120) x\n' > "$T/b.txt"
st=0
run() { name=$1; in=$2; shift 2
  timeout 30 "$DELTA" --no-gitconfig --paging never "$@" < "$in" > "$T/out" 2> "$T/err"; rc=$?
  if [ $rc -ne 0 ]; then echo "VIOLATED ($name): exit status $rc: $(grep -m1 -a 'panicked\|overflow\|range\|error' "$T/err" | head -c 160)"; st=1; fi
}
run F52a "$T/d.diff" --wrap-max-lines 18446744073709551615
run F52b "$T/d.diff" --side-by-side --wrap-max-lines 9223372036854775807
run F52c "$T/d.diff" --max-line-length 18446744073709551615 --side-by-side --wrap-max-lines 18446744073709551614
run F53a "$T/d.diff" --line-numbers --line-numbers-left-format '{nm:^70000}'
run F53b "$T/d.diff" --line-numbers --line-numbers-left-format '{nm:^4.70000}'
run F53c "$T/b.txt" --blame-format '{author:<65536}'
run F54a "$T/b.txt" --blame-timestamp-output-format '%Q'
run F54b "$T/b.txt" --blame-timestamp-output-format '%'
printf 'abc \xff\xfe def \033[31mred\033[m\n' > "$T/bad.txt"
run F55 "$T/bad.txt" --parse-ansi
rm -rf "$T"
[ $st -eq 0 ] && echo OK
exit $st
