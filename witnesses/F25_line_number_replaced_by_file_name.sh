#!/bin/bash
# F25 (C19, C05): --hyperlinks --line-numbers, delta started in a directory that no longer exists (the absolute
# path of the file cannot be resolved): on the original tree the right line-number field showed the FILE NAME
# instead of the number.  usage: F25_line_number_replaced_by_file_name.sh <delta binary>  (exit 0 ok, 1 defect)
B=$(readlink -f ${1:-/repo/target/debug/delta})
D=$(mktemp -d /tmp/f25.XXXXXX); cd "$D"; rmdir "$D"
out=$(printf 'diff --git a/some_file.rs b/some_file.rs\nindex 1..2 100644\n--- a/some_file.rs\n+++ b/some_file.rs\n@@ -7 +7 @@\n-old\n+new\n' \
  | "$B" --no-gitconfig --hyperlinks --line-numbers 2>&1 | sed 's/\x1b\[[0-9;]*[mK]//g; s/\x1b\]8;[^\x1b]*\x1b\\//g' | grep -a -E 'old|new')
echo "$out"
case "$out" in
  *some_file.rs*) echo "the line-number field contains the file name"; exit 1;;
  *) exit 0;;
esac
