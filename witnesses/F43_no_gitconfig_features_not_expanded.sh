#!/bin/bash
# F43 (C13): a built-in feature named by --features / DELTA_FEATURES enables the features it is defined to enable
# (side-by-side enables line-numbers). With --no-gitconfig (and no --config file) this expansion was skipped, so the
# same sources gave line-numbers = false with --features side-by-side but true with --side-by-side or when any
# --config file was given.
# usage: F43_no_gitconfig_features_not_expanded.sh [path to delta]      exit 0 = holds
DELTA=${1:-/repo/target/debug/delta}
T=$(mktemp -d)
: > "$T/empty.gitconfig"
get() { HOME="$T" XDG_CONFIG_HOME="$T" "$DELTA" "$@" --show-config | sed 's/\x1b\[[0-9;]*[A-Za-z]//g' | grep -E '^ *line-numbers +=' | sed 's/ //g'; }
a=$(get --no-gitconfig --features side-by-side)
b=$(get --no-gitconfig --side-by-side)
c=$(get --no-gitconfig --config "$T/empty.gitconfig" --features side-by-side)
d=$(DELTA_FEATURES=side-by-side get --no-gitconfig)
st=0
for v in "$a" "$b" "$c" "$d"; do [ "$v" = "line-numbers=true" ] || st=1; done
if [ $st -ne 0 ]; then
  echo "VIOLATED: --features side-by-side -> '$a'; --side-by-side -> '$b'; with an empty --config file -> '$c'; DELTA_FEATURES -> '$d' (all should be line-numbers=true)"
fi
rm -rf "$T"
[ $st -eq 0 ] && echo OK
exit $st
