#!/bin/bash
# F26 (C01, C03): `--max-line-length 0` ("To prevent any truncation, set to zero") and a hunk line that is not valid
# UTF-8 (here a Latin-1 e-acute): on the original tree the whole line is emptied (floor_char_boundary(line, 0) == 0).
# usage: F26_non_utf8_line_with_unlimited_length.sh <delta binary>   (exit 0 = text kept, 1 = line emptied)
B=${1:-/repo/target/debug/delta}
out=$(printf 'diff --git a/a.txt b/a.txt\nindex 1..2 100644\n--- a/a.txt\n+++ b/a.txt\n@@ -1 +1 @@\n-caf\xe9 au lait\n+caf\xe9 noir\n' \
  | "$B" --no-gitconfig --max-line-length 0 | sed 's/\x1b\[[0-9;]*[mK]//g' | tail -2)
printf '%s\n' "$out" | cat -v
case "$out" in
  *lait*noir*) exit 0;;
  *) echo "the text of the non-UTF-8 lines is gone"; exit 1;;
esac
