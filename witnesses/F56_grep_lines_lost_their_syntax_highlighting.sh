#!/bin/bash
# F56 (C15): introduced by the first version of the F51 repair (75e9622) and found 40 minutes later when the demo of seed
# C15-m6 was re-run against the unchanged tree: lines of grep output were no longer syntax-highlighted at all (their two
# annotations legitimately differ in length, which the repair had taken for "not the same text").
# usage: F56_grep_lines_lost_their_syntax_highlighting.sh [path to delta]      exit 0 = holds
DELTA=${1:-/repo/target/debug/delta}
python3 - "$DELTA" <<'EOF'
import re, subprocess, sys
delta = sys.argv[1]
rec = '{"type":"match","data":{"path":{"text":"src/a.rs"},"lines":{"text":"    let x = \\"s\\"; // c\\n"},"line_number":3,"absolute_offset":20,"submatches":[{"match":{"text":"let"},"start":4,"end":7}]}}\n'
def fgs(theme):
    out = subprocess.run([delta, "--no-gitconfig", "--paging", "never", "--true-color", "always", "--syntax-theme", theme],
                         input=rec.encode(), capture_output=True).stdout.decode()
    return sorted(set(re.findall(r"38;2;\d+;\d+;\d+", out)))
a, b = fgs("Dracula"), fgs("none")
if len(a) >= 3 and a != b:
    print("OK"); sys.exit(0)
print("VIOLATED: a grep hit in src/a.rs is not syntax-highlighted: foregrounds under Dracula %s, without a theme %s" % (a, b))
sys.exit(1)
EOF
