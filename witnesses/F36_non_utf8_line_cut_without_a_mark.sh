#!/bin/bash
# F36 (C01): "a line is shortened only when it exceeds the configured maximum line length, and then with a visible
# truncation mark".  A line that is not valid UTF-8 was cut at --max-line-length without the truncation symbol (and its
# escape sequences were not removed before parsing, unlike for every other line).
# usage: F36_non_utf8_line_cut_without_a_mark.sh [path to delta]      exit 0 = holds
DELTA=${1:-/repo/target/debug/delta}
T=$(mktemp -d); trap 'rm -rf "$T"' EXIT
printf 'diff --git a/x b/x\n--- a/x\n+++ b/x\n@@ -1,2 +1,2 @@\n-valid line that is rather long, more than thirty bytes\n+broken \377 line that is rather long, more than thirty bytes\n' > $T/a.diff
out=$("$DELTA" --no-gitconfig --paging never --max-line-length 30 --hunk-header-style omit < $T/a.diff | sed 's/\x1b\[[0-9;]*[A-Za-z]//g')
printf '%s\n' "$out"
st=0
v=$(printf '%s\n' "$out" | grep 'valid line')
b=$(printf '%s\n' "$out" | grep 'broken')
case "$v" in *'→'*) ;; *) echo "note: the valid line carries no mark either"; esac
case "$b" in *'→'*) ;; *) echo "VIOLATED: the shortened non-UTF-8 line carries no truncation mark: '$b'"; st=1;; esac
[ $st -eq 0 ] && echo OK
exit $st
