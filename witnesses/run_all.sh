#!/bin/bash
# Runs every witness against a delta binary (default: /repo/target/debug/delta). Each witness exits 0 when the property
# holds on its input, non-zero when the defect it documents is present. On the repaired tree all must pass.
# (Run without a controlling terminal - `setsid -w witnesses/run_all.sh` - when stdin is a tty: delta asks the terminal
# for its background colour unless --light/--dark is given.)
if [ -z "$WITNESS_DETACHED" ] && command -v setsid >/dev/null; then
  # detach from the controlling terminal first (see above): a witness that does not pass --dark would otherwise wait for the terminal's answer
  exec env WITNESS_DETACHED=1 setsid -w bash "${BASH_SOURCE[0]}" "$@" < /dev/null
fi
DELTA=${1:-/repo/target/debug/delta}
here=$(cd "$(dirname "${BASH_SOURCE[0]}")" && pwd)
fail=0; n=0
for w in "$here"/F*.sh "$here"/F*.py; do
  [ -e "$w" ] || continue
  n=$((n+1))
  case "$w" in
    *.py) out=$(timeout 120 python3 "$w" "$DELTA" 2>&1); rc=$? ;;
    *)    out=$(timeout 120 bash "$w" "$DELTA" 2>&1); rc=$? ;;
  esac
  if [ $rc -ne 0 ]; then fail=$((fail+1)); echo "FAILS $(basename "$w") (exit $rc): $(echo "$out" | head -2 | cut -c1-200)"; fi
done
echo "$n witnesses, $fail failing"
[ $fail -eq 0 ]
