#!/bin/bash
# F22 (C19): user is in <repo>/src, git spawns delta from <repo> with GIT_PREFIX=src/ ; --relative-paths --hyperlinks.
# The diff-stat line for src/delta.rs is displayed as `delta.rs`; its link must point at <repo>/src/delta.rs.
# usage: F22_diff_stat_link_in_subdirectory.sh <delta binary>   (exit 0 = link right, 1 = link wrong)
B=${1:-/repo/target/debug/delta}
D=$(mktemp -d /tmp/f22.XXXXXX); mkdir -p "$D/src"; cd "$D"
out=$(printf 'commit 94907c0f136f46dc46ffae2dc92dca9af7eb7c2e\nAuthor: A <a@b>\nDate:   Thu May 14 11:13:17 2020 -0400\n\n    msg\n\n src/delta.rs  | 14 ++++++++++----\n' \
  | GIT_PREFIX=src/ "$B" --no-gitconfig --relative-paths --hyperlinks --hyperlinks-file-link-format 'file://{path}' | grep -a 'delta.rs' | cat -v)
rm -rf "$D"
echo "$out" | cut -c1-200
case "$out" in
  *"file://$D/src/delta.rs"*) echo "link ok"; exit 0;;
  *) echo "link does not point at $D/src/delta.rs"; exit 1;;
esac
