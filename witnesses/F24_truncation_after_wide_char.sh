#!/bin/bash
# F24 (C07): side-by-side, --width 20, --wrap-max-lines 0: the line `xx漢 = foo(...)` is cut at the double-width
# character; on the original tree a later (separately styled) `=` was appended after the cut, so both panels were one
# column too wide (row width 22 for --width 20) and the right panel started one column late.
# usage: F24_truncation_after_wide_char.sh <delta binary>   (exit 0 = every row fits, 1 = a row is too wide)
B=${1:-/repo/target/debug/delta}
printf 'diff --git a/a.rs b/a.rs\nindex 1..2 100644\n--- a/a.rs\n+++ b/a.rs\n@@ -1 +1 @@\n-xx漢 = foo(bar, baz) + qux(1, 2, 3);\n+xx漢 = foo(bar, baz) + quux(1, 2, 3);\n' \
 | "$B" --no-gitconfig --side-by-side --width 20 --wrap-max-lines 0 \
 | python3 -c '
import sys, re, unicodedata
bad = 0
for l in sys.stdin:
    l = re.sub(r"\x1b\[[0-9;:]*[A-Za-z]", "", l.rstrip("\n"))
    if "xx" not in l: continue
    w = sum(2 if unicodedata.east_asian_width(c) in "WF" else 1 for c in l)
    print(w, repr(l))
    if w > 20: bad = 1
sys.exit(bad)'
