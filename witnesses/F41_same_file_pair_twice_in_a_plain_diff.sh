#!/bin/bash
# F41 (C10, C14): plain `diff -u` output has no `diff` line between its file sections; the memory of "the header for this
# pair of names has been written" was reset only on a `diff` line, so when two consecutive sections name the same pair
# of files (two patches for one file, concatenated) the second section got no file header and its hunks appeared under
# the first one's.  Output(A ++ B) must be output(A) ++ output(B).
# usage: F41_same_file_pair_twice_in_a_plain_diff.sh [path to delta]      exit 0 = holds
DELTA=${1:-/repo/target/debug/delta}
T=$(mktemp -d)
printf -- '--- one.lua\t2024-01-01 00:00:00.000000000 +0000\n+++ one_new.lua\t2024-01-02 00:00:00.000000000 +0000\n@@ -1,3 +1,3 @@\n local a = 1\n--- a comment\n+-- another comment\n return a\n' > "$T/a.diff"
run() { "$DELTA" --no-gitconfig --paging never --width 60 "$@" | sed 's/\x1b\[[0-9;]*[A-Za-z]//g'; }
st=0
for opts in "" "--line-numbers" "--side-by-side"; do
  cat "$T/a.diff" "$T/a.diff" | run $opts > "$T/aa.out"
  { run $opts < "$T/a.diff"; run $opts < "$T/a.diff"; } > "$T/a_a.out"
  if ! cmp -s "$T/aa.out" "$T/a_a.out"; then
    echo "VIOLATED ($opts): output(A++A) differs from output(A)++output(A); file headers seen: $(grep -c 'one.lua ⟶' "$T/aa.out") (expected 2)"; st=1
  fi
done
rm -rf "$T"
[ $st -eq 0 ] && echo OK
exit $st
