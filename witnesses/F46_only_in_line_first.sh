#!/bin/bash
# F46 (C03): introduced by the first version of the F42 repair (878c094) and found one hour later by a round-2 agent:
# `Only in a: foo` as the first line of the input (diff -r output) made delta exit with "Unreachable code reached in
# get_style": the held-back file header was looked for before the state had been set, i.e. in state Unknown, which has
# no style.  The header is now looked for only in the DiffHeader state (the only one in which one is held back).
# usage: F46_only_in_line_first.sh [path to delta]      exit 0 = holds
DELTA=${1:-/repo/target/debug/delta}
st=0
for input in 'Only in a: foo\n' 'intro\nOnly in a: foo\nOnly in b: bar\n' 'hello\nOnly in rare cases does this matter\nbye\n'; do
  out=$(printf -- "$input" | "$DELTA" --no-gitconfig --paging never --width 40 2> /tmp/f46.err); rc=$?
  if [ $rc -ne 0 ]; then echo "VIOLATED: exit status $rc: $(head -c 160 /tmp/f46.err)"; st=1; fi
  echo "$out" | grep -q 'Only in' || { echo "VIOLATED: the line is not shown"; st=1; }
done
rm -f /tmp/f46.err
[ $st -eq 0 ] && echo OK
exit $st
