#!/bin/bash
# F51 (C03): the syntax sections and the diff style sections of a line are computed along different paths; input that
# the two see differently (a lone ESC or a TAB inside an escape sequence on a coloured hunk line, a TAB in the marker
# columns of a combined diff with a raw style) made `superimpose` panic: "String mismatch encountered while superimposing
# style sections", exit 101 - no output at all for the user.  (When only the LENGTHS differed the rest of the line was
# silently dropped.)  delta now falls back to the diff styles without syntax highlighting for such a line.
# usage: F51_style_sections_of_different_text_panic.sh [path to delta]      exit 0 = holds
DELTA=${1:-/repo/target/debug/delta}
T=$(mktemp -d)
st=0
run() { # name, options..., input via printf format in $IN
  name=$1; shift
  printf "$IN" | timeout 20 "$DELTA" --no-gitconfig --paging never "$@" > "$T/out" 2> "$T/err"; rc=$?
  if [ $rc -ne 0 ]; then echo "VIOLATED ($name): exit status $rc: $(grep -m1 -a 'panicked\|mismatch' "$T/err" | head -c 160)"; st=1; fi
}
IN='@@ -1 +1 @@\n\033[1;35m-\033\tx\033[m\n';                      run A1
IN='@@ -1 +1 @@\n\033[1;35m a\033\tx\033[m\n';                     run A1c
IN='@@ -1 +1 @@\n\033[1;35m+\033[3\t1mx\033[m\n';                  run A1d
IN='@@ -1 +1 @@\n\033[1;35m-x\033[m\033\n';                        run A2
IN='@@ -1 +1 @@\n\033[1;35m-x\033[m\033[3\n';                      run A2c
IN='diff --cc f\n@@@ -1 -1 +1 @@@\n\033[1;35m+\tx\033[m\n';        run A4
IN='@@ -1 +1 @@\n a\033\tx\n';                                     run A1-raw --zero-style raw
IN='diff --cc f\n@@@ -1 -1 +1 @@@\n-\tx\n';                        run A4-raw --minus-style raw
rm -rf "$T"
[ $st -eq 0 ] && echo OK
exit $st
