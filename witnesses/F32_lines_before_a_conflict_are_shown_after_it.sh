#!/bin/bash
# F32 (C01): "No hunk line is ... moved past a header ... in input order".  In a combined diff, removed/added lines that
# directly precede a conflict region (`++<<<<<<<`) were still in the minus/plus buffers when the region began; the
# region is painted straight to the output when it ends, and the buffered lines came out only afterwards - after the
# closing bar of the conflict.
# usage: F32_lines_before_a_conflict_are_shown_after_it.sh [path to delta]      exit 0 = holds
DELTA=${1:-/repo/target/debug/delta}
T=$(mktemp -d); trap 'rm -rf "$T"' EXIT
cat > $T/a.diff <<'EOF'
diff --cc notes.txt
index 1111111,2222222..0000000
--- a/notes.txt
+++ b/notes.txt
@@@ -1,4 -1,4 +1,9 @@@
  first context
- removed before the conflict
++added before the conflict
++<<<<<<< HEAD
 +ours line
++=======
+ theirs line
++>>>>>>> feature
  last context
EOF
out=$("$DELTA" --no-gitconfig --paging never < $T/a.diff | sed 's/\x1b\[[0-9;]*m//g')
printf '%s\n' "$out"
a=$(printf '%s\n' "$out" | grep -n 'added before the conflict' | head -1 | cut -d: -f1)
r=$(printf '%s\n' "$out" | grep -n 'removed before the conflict' | head -1 | cut -d: -f1)
o=$(printf '%s\n' "$out" | grep -n 'ours line' | head -1 | cut -d: -f1)
if [ -z "$a" ] || [ -z "$r" ] || [ -z "$o" ]; then echo "VIOLATED: a line is missing"; exit 1; fi
if [ "$a" -gt "$o" ] || [ "$r" -gt "$o" ]; then echo "VIOLATED: lines that precede the conflict region are shown after it (rows $r, $a vs $o)"; exit 1; fi
echo OK
