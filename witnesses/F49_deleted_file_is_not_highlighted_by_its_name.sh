#!/bin/bash
# F49 (C15): the language is chosen from the file name. For a DELETED file the `+++ /dev/null` line reset the language to
# the default (plain text), so its removed lines - syntax-highlighted in side-by-side mode or with a `syntax` minus
# style - were all in one colour, while the same lines under `+++ b/src/gone.rs` are coloured as Rust.
# usage: F49_deleted_file_is_not_highlighted_by_its_name.sh [path to delta]      exit 0 = holds
DELTA=${1:-/repo/target/debug/delta}
python3 - "$DELTA" <<'EOF'
import re, subprocess, sys
delta = sys.argv[1]
body = '@@ -1,3 +0,0 @@\n-fn main() {\n-    let x = "s"; // c\n-}\n'
deleted = "diff --git a/src/gone.rs b/src/gone.rs\ndeleted file mode 100644\nindex 1111111..0000000\n--- a/src/gone.rs\n+++ /dev/null\n" + body
modified = "diff --git a/src/gone.rs b/src/gone.rs\nindex 1111111..2222222 100644\n--- a/src/gone.rs\n+++ b/src/gone.rs\n" + body
def fgs(diff):
    out = subprocess.run([delta, "--no-gitconfig", "--paging", "never", "--true-color", "always", "--syntax-theme", "Dracula",
                          "--minus-style", "syntax auto", "--width", "80"], input=diff.encode(), capture_output=True).stdout.decode()
    for line in out.split("\n"):
        if "let" in re.sub(r"\x1b\[[0-9;]*[A-Za-z]", "", line) and "x =" in re.sub(r"\x1b\[[0-9;]*[A-Za-z]", "", line):
            return sorted(set(re.findall(r"38;2;\d+;\d+;\d+", line)))
    return None
d, m = fgs(deleted), fgs(modified)
if d is not None and m is not None and len(m) >= 2 and d == m:
    print("OK"); sys.exit(0)
print("VIOLATED: the removed line `let x = \"s\"; // c` of the deleted file src/gone.rs has foregrounds %s, the same line of the modified file %s" % (d, m))
sys.exit(1)
EOF
