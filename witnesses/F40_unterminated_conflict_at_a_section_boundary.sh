#!/bin/bash
# F40 (C10, C01): a conflict region whose end marker never comes (truncated section) was painted only when the INPUT
# ended; when another file section followed, its lines were silently dropped - or turned up inside the next conflict.
# Output(A ++ B) must be output(A) ++ output(B).
# usage: F40_unterminated_conflict_at_a_section_boundary.sh [path to delta]      exit 0 = holds
DELTA=${1:-/repo/target/debug/delta}
T=$(mktemp -d)
cat > "$T/a.diff" <<'EOF'
diff --cc c.txt
index 1111111,2222222..0000000
--- a/c.txt
+++ b/c.txt
@@@ -1,3 -1,3 +1,7 @@@
  top
++<<<<<<< HEAD
 +dangling ours
EOF
cat > "$T/b.diff" <<'EOF'
diff --git a/d.txt b/d.txt
index 3333333..4444444 100644
--- a/d.txt
+++ b/d.txt
@@ -1,2 +1,2 @@
 ctx
-old
+new
EOF
cat > "$T/c.diff" <<'EOF'
commit 94907c0f136f46dc46ffae2dc92dca9af7eb7c2e
Author: A <a@b>

    msg

EOF
run() { "$DELTA" --no-gitconfig --paging never --width 60 | sed 's/\x1b\[[0-9;]*[A-Za-z]//g'; }
st=0
for second in b c; do
  cat "$T/a.diff" "$T/$second.diff" | run > "$T/ab.out"
  { run < "$T/a.diff"; run < "$T/$second.diff"; } > "$T/a_b.out"
  if ! cmp -s "$T/ab.out" "$T/a_b.out"; then
    echo "VIOLATED ($second): output(A++B) differs from output(A)++output(B):"; diff "$T/a_b.out" "$T/ab.out" | head -12; st=1
  fi
  grep -q 'dangling ours' "$T/ab.out" || { echo "VIOLATED ($second): the line 'dangling ours' is not shown at all"; st=1; }
done
rm -rf "$T"
[ $st -eq 0 ] && echo OK
exit $st
