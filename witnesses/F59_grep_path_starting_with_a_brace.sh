#!/bin/bash
# F59 (C16): plain `git grep -n` output in which a path starts with `{` (e.g. a cookiecutter template directory
# `{{cookiecutter.name}}/setup.py`).  Every line that starts with `{` was handed to the rg --json reader only; when that
# failed the line was not tried as a plain grep line and came out raw - although its path has a file extension (the class
# of lines the property guarantees).
# usage: F59_grep_path_starting_with_a_brace.sh /path/to/delta   (exit 0 = read as a grep hit, 1 = defect)
D="${1:-/repo/target/debug/delta}"
here=$(cd "$(dirname "${BASH_SOURCE[0]}")" && pwd)
IN=$(mktemp)
printf '{{cookiecutter.name}}/setup.py:12:foo = 1\nsrc/a.py:3:foo = 2\n' > "$IN"
# run delta as a child of a process whose command line reads `git grep -n foo`
OUT=$( ( exec -a git bash -c 'shift; shift; "$@"; exit $?' grep -n foo "$D" --no-gitconfig --paging never --dark --grep-output-type classic < "$IN" ) | sed 's/\x1b\[[0-9;]*[mK]//g')
rm -f "$IN"
echo "$OUT"
# a recognised hit is re-rendered: classic style prints `path:12:  code` with blanks after the separator
if echo "$OUT" | grep -Eq '^src/a.py:3: +foo = 2' ; then :; else echo "SKIP: delta did not take its parent for git grep here (cannot decide)"; exit 0; fi
if echo "$OUT" | grep -Eq '^\{\{cookiecutter.name\}\}/setup.py:12: +foo = 1'; then echo "OK: the line is read as a grep hit"; exit 0; fi
echo "DEFECT: the hit in {{cookiecutter.name}}/setup.py was passed through unrecognised"; exit 1
