#!/bin/bash
# F28 (C18): "If the reader goes away at any point (pager quit, closed pipe), delta stops quietly with status 0:
# no panic, no error message."  Before the fix `delta --version`, `--help`, `--show-config` ended with
# `Error: Os { code: 32, kind: BrokenPipe, .. }` and status 1, `--parse-ansi` and `--generate-completion` panicked
# (status 101) when stdout was a pipe whose reader had gone.
# usage: F28_closed_pipe_on_version_help_show_config.sh [path to delta]     exit 0 = quiet everywhere
DELTA=${1:-/repo/target/debug/delta}
d=$(mktemp -d); trap 'rm -rf "$d"' EXIT
mkfifo "$d/p"
bad=0
probe() {  # name, stdin, args...
    name=$1; shift; input=$1; shift
    # a reader that closes the pipe without reading anything
    ( exec 3<"$d/p"; exec 3<&- ) &
    printf '%s' "$input" | HOME=$d PAGER=cat DELTA_PAGER= "$DELTA" "$@" >"$d/p" 2>"$d/err"; rc=$?
    wait
    if [ $rc -ne 0 ] || [ -s "$d/err" ]; then echo "$name: status $rc, stderr: $(head -c 200 "$d/err")"; bad=1; else echo "$name: quiet, status 0"; fi
}
probe --version '' --version
probe --help '' --no-gitconfig --paging=never --help
probe --show-config '' --no-gitconfig --show-config
probe --parse-ansi "$(printf '\033[31mred\033[0m\n%.0s' $(seq 1 20000))" --no-gitconfig --parse-ansi
probe --generate-completion '' --no-gitconfig --generate-completion bash
exit $bad
