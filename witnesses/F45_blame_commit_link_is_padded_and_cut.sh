#!/bin/bash
# F45 (C19): in blame output the commit field was linked FIRST and padded / cut to its precision afterwards: with a
# field wider than the hash (`{commit:<12}`) the padding disappeared (the escape sequences were counted), with a
# precision (`{commit:<12.6}`) the link itself was cut - an opener without closer.  Commit links are only made when
# stdout is a terminal, so delta runs on a pseudo-terminal here.
# usage: F45_blame_commit_link_is_padded_and_cut.sh [path to delta]      exit 0 = holds
DELTA=${1:-/repo/target/debug/delta}
python3 - "$DELTA" <<'EOF'
import os, pty, re, subprocess, sys, tempfile
delta = sys.argv[1]
blame = ("ea82f2d0 (Dan Davison       2021-08-22 18:20:19 -0700  120)             let mut handled_line = self.handle_commit_meta_header_line()?\n"
         "b2257cfa (Dan Davison  2020-07-18 15:34:43 -0400   1) use std::borrow::Cow;\n")
def run(args, tty):
    with tempfile.NamedTemporaryFile('w', suffix='.txt', delete=False) as f:
        f.write(blame); name = f.name
    cmd = [delta, '--no-gitconfig', '--paging', 'never', '--dark'] + args
    if not tty:
        out = subprocess.run(cmd, stdin=open(name), capture_output=True).stdout
    else:
        master, slave = pty.openpty()
        p = subprocess.Popen(cmd, stdin=open(name), stdout=slave, stderr=subprocess.DEVNULL)
        os.close(slave)
        out = b''
        while True:
            try:
                b = os.read(master, 65536)
            except OSError:
                break
            if not b: break
            out += b
        p.wait()
    os.unlink(name)
    return out.decode('utf-8', 'replace').replace('\r\n', '\n')
osc = re.compile(r'\x1b\]8;;[^\x1b\x07]*(?:\x1b\\|\x07)')
sgr = re.compile(r'\x1b\[[0-9;]*[A-Za-z]')
bad = 0
for fmt in ['{commit:<12} {author:<15.14}', '{commit:<12.6} {author:<10}', '{commit:<8} {author:<10}']:
    base = ['--blame-format', fmt, '--width', '120']
    plain = sgr.sub('', run(base, True))
    linked_raw = run(base + ['--hyperlinks', '--hyperlinks-commit-link-format', 'https://example.com/c/{commit}'], True)
    linked = sgr.sub('', osc.sub('', linked_raw))
    if '\x1b]8' in linked:
        print("VIOLATED (%s): a link is left open or malformed: %r" % (fmt, linked[:120])); bad = 1
    elif linked != plain:
        print("VIOLATED (%s): with the links removed the output is not the output without hyperlinks:\n  without: %r\n  with:    %r" % (fmt, plain.split('\n')[0][:60], linked.split('\n')[0][:60])); bad = 1
    for line in linked_raw.split('\n'):
        if len(re.findall(r'\x1b\]8;;[^\x1b\x07]+(?:\x1b\\|\x07)', line)) != len(re.findall(r'\x1b\]8;;(?:\x1b\\|\x07)', line)):
            print("VIOLATED (%s): openers and closers do not pair up on a line" % fmt); bad = 1; break
print("OK" if not bad else "")
sys.exit(bad)
EOF
