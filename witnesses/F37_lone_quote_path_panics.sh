#!/bin/bash
# F37 (C03): a file-header line whose path is a single double quote (`--- "`): remove_surrounding_quotes found that the
# text both starts and ends with a quote and sliced `[1..0]` - delta panicked.
# usage: F37_lone_quote_path_panics.sh [path to delta]      exit 0 = holds
DELTA=${1:-/repo/target/debug/delta}
st=0
for input in 'diff --git a/x b/x\n--- "\n+++ b/x\n@@ -1 +1 @@\n-a\n+b\n' 'diff --git a/x b/y\nrename from "\nrename to y\n' '--- "\n+++ b\n@@ -1 +1 @@\n-a\n+b\n'; do
  printf -- "$input" | "$DELTA" --no-gitconfig --paging never > /dev/null 2> /tmp/f37.err; rc=$?
  if [ $rc -ne 0 ]; then echo "VIOLATED: exit status $rc: $(head -c 200 /tmp/f37.err)"; st=1; fi
done
rm -f /tmp/f37.err
[ $st -eq 0 ] && echo OK
exit $st
