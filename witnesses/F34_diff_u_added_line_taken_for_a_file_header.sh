#!/bin/bash
# F34 (C14/C01): plain `diff -u` output: an added line `++ counter;` reads `+++ counter;`.  Nothing told it from a
# `+++ file` header: it produced a spurious file header in the middle of the hunk.
# usage: F34_diff_u_added_line_taken_for_a_file_header.sh [path to delta]      exit 0 = holds
DELTA=${1:-/repo/target/debug/delta}
T=$(mktemp -d); trap 'rm -rf "$T"' EXIT
cat > $T/a.diff <<'EOF'
--- a/x.c	2024-01-01 10:00:00.000000000 +0100
+++ b/x.c	2024-01-02 10:00:00.000000000 +0100
@@ -1,3 +1,4 @@
 int main() {
+++ counter;
   return counter;
 }
EOF
out=$("$DELTA" --no-gitconfig --paging never --file-style blue --file-decoration-style none --hunk-header-style omit < $T/a.diff | sed 's/\x1b\[[0-9;]*[A-Za-z]//g')
printf '%s\n' "$out"
st=0
n=$(printf '%s\n' "$out" | grep -c 'x.c')
if [ "$n" -ne 1 ]; then echo "VIOLATED: $n file headers for one file section"; st=1; fi
n=$(printf '%s\n' "$out" | grep -c '^++ counter; *$')
if [ "$n" -ne 1 ]; then echo "VIOLATED: the added line '++ counter;' is shown $n times as a line of its own"; st=1; fi
for t in 'int main' 'return counter' ; do
  n=$(printf '%s\n' "$out" | grep -c -- "$t"); if [ "$n" -ne 1 ]; then echo "VIOLATED: '$t' shown $n times"; st=1; fi
done
[ $st -eq 0 ] && echo OK
exit $st
