#!/bin/sh
# Offline setup: nothing to build for engine V (python3 + verus are pre-installed).
set -e
cd "$(dirname "$0")"
mkdir -p .work .cache evidence
command -v verus >/dev/null || { echo "verus not on PATH"; exit 1; }
python3 -c "import sys; sys.path.insert(0,'vx'); import gen, run, report" 
echo setup ok
