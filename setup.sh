#!/bin/sh
# Offline setup: nothing to build (python3, verus, kani and rustc are pre-installed; both engines read /repo/src as text).
set -e
cd "$(dirname "$0")"
mkdir -p .work .cache evidence
command -v verus >/dev/null || { echo "verus not on PATH"; exit 1; }
command -v kani >/dev/null || { echo "kani not on PATH (engine K: units K01-K03 would be undecided)"; exit 1; }
python3 -c "import sys; sys.path.insert(0,'vx'); import gen, run, report, kani"
echo setup ok
