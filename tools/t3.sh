cd /verif
python3 vx/mkmanifest.py
python3 vx/allunits.py > .work/allunits.last 2>&1; rc=$?
tail -6 .work/allunits.last
if [ $rc -ne 0 ]; then echo "ALLUNITS FAILED - NOT COMMITTED"; exit 1; fi
for p in "$@"; do ./check $p 2>&1 | tail -4; done
git add -A; git commit -qm "$MSG" ; echo committed
