cd /verif
for p in C01 C02 C03 C04 C05 C06 C07 C08 C09 C10 C11 C12 C13 C14 C15 C16 C17 C18 C19 C20; do
  s=$(date +%s)
  out=$(./check $p --tier ${TIER:-quick} 2>&1); rc=$?
  e=$(date +%s)
  echo "$p rc=$rc $((e-s))s $(echo "$out" | tail -1 | cut -c1-110)"
  echo "$out" | grep -E '^VIOLATION|^UNDECIDED|^KNOWN' | cut -c1-200
done
