cd /verif
for p in "$@"; do
  s=$(date +%s)
  out=$(./check $p --tier ${TIER:-quick} 2>&1); rc=$?
  e=$(date +%s)
  echo "$p rc=$rc $((e-s))s $(echo "$out" | tail -1 | cut -c1-110)"
  echo "$out" | grep -E '^VIOLATION|^UNDECIDED|^KNOWN' | cut -c1-200
done
