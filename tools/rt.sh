#!/bin/bash
# build + format check + test suite of /repo (summary lines only)
cd /repo
cargo build --offline 2>&1 | tail -2
cargo fmt --check 2>&1 | head -5
cargo test --workspace --no-fail-fast --offline 2>&1 | grep -E '^test result|FAILED|failed|panicked' | head -10
