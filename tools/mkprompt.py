import json, sys
T = open('/verif/.work/agent_prompt.txt').read()
props = {json.loads(l)['id']: json.loads(l) for l in open('/verif/properties.jsonl')}
HINT = {
 'C18': "the mapping of write errors to exit codes in run_app and in the sub-command branch, which pager command is chosen and how the arguments of `less` are rewritten, waiting for the pager when the output handle is dropped, the quiet exit of --version/--help/--show-config on a closed pipe. The demo may use a fake pager script, `head -c`, closed pipes (`| true`), and must finish within 20 s",
 'C20': "the waiting predicate, the order of lock acquisition and notification, the known-beats-guessed rule, what is stored when the process scan finds nothing, the initial content of the shared cell. The demo may run the binary many times under `taskset`/`stress`-like load or with environment variables that slow one side down; say honestly in meta.json how often it manifests",
 'C01': "the section loop of Painter::paint_line, the tail of paint_lines (fill and newline), new_line_state for combined diffs (marker columns, conflict flag), tabs::expand / remove_prefix_and_expand, the merge-conflict painter, the \"\\ No newline at end of file\" arm, the line-buffer-size flush, ingest_line_utf8 (carriage returns, invalid UTF-8), max-line-length truncation",
 'C09': "right_fill_background_color, mark_empty_line, the tail of paint_lines, format_and_paint_line_numbers, the side-by-side panel padding and truncation, hyperlink wrappers, the hunk-header and file-header box drawing in draw.rs, commit/blame lines",
 'C16': "ripgrep_json::parse_line (line terminator, submatches, path), GrepLine::expand_tabs, make_style_sections, the order in which handle_grep_line tries the readings, get_code_style_sections for coloured git-grep output, the file-name headers and separators between files, line-number styles",
 'C12': "color.rs parse_color / color_to_string, utils/bat/terminal.rs to_ansi_color, parse_ansi_term_style's handling of `auto`, `normal`, `syntax`, `omit`, `raw`, attribute words and the second colour, decoration attributes (box/ul/ol), `--show-config` output of styles",
 'C05': "LineNumbersData::initialize_hunk, linenumbers_and_styles, format_and_paint_line_numbers and format::pad (widths, alignment, the number-format placeholders), the counters in side-by-side rows with wrapped lines, hunks with omitted counts or zero-length sides, the hunk-header line number",
 'C07': "has_long_lines, wrap_line (right-aligned tail, wrap symbols, leftover text), wrap_minusplus_block / wrap_zero_block, available_line_width, pad_panel_line_to_width and the truncation symbol, panel widths for odd terminal widths, --wrap-max-lines",
 'C14': "parse_diff_header_line and _parse_file_path for quoted / tab-terminated / renamed paths, get_file_change_description_from_file_paths (labels, arrows, events), when the header is emitted (handled vs current file pair), mode changes, binary files, hunk header text with code fragment and line number",
 'C17': "blame line parsing, the colour memo (same commit same colour, neighbouring commits different colours), blank repeated blocks, the timestamp formats, --blame-separator-format and line numbers every n lines, code highlighting by file extension",
}
for pid in sys.argv[1:]:
    p = props[pid]
    tag = pid + 'r3'
    s = T.replace('C01r2', tag)
    i = s.index('The property (C01')
    j = s.index('Task: produce 3 DIFFERENT')
    files = ', '.join(p['anchors']['files'])
    mech = '; '.join('%s (%s)' % (m['name'], m['where']) for m in p['anchors']['mechanism'])
    s = s[:i] + 'The property (%s, "%s"):\n"%s"\nIt is meant %s.\nRelevant code: %s. Mechanisms: %s.\n\n' % (pid, p['title'], p['statement'], p['quantifier']['text'], files, mech) + s[j:]
    i = s.index('Prefer places that are NOT the most obvious ones')
    j = s.index('For each mutation i in 1..3')
    s = s[:i] + 'Prefer places that are NOT the most obvious ones and that earlier rounds of this exercise have not used; good candidates: ' + HINT[pid] + '.\n\n' + s[j:]
    i = s.index('  - demo.sh    :')
    j = s.index('  - meta.json')
    s = s[:i] + "  - demo.sh    : usage `demo.sh /path/to/delta-binary`; it runs delta (with `--no-gitconfig --paging never --dark` unless the property is about exactly those) on small inputs that you include in the same directory (refer to them relative to the script's own directory) and checks the property on the output; it must exit 0 when the property holds and non-zero when it is violated, print what it saw, finish within 20 s and need nothing but bash/sed/grep/python3 (delta asks the terminal for its background colour unless --dark/--light is given: never call it without one of them under `timeout`);\n" + s[j:]
    open('/verif/.work/prompt_%s.txt' % tag, 'w').write(s)
    print('wrote', tag, len(s))
