import json, jsonschema, glob
m = json.load(open('/verif/MANIFEST.json'))
jsonschema.validate(m, json.load(open('/root/.vp/MANIFEST.schema.json')))
print('MANIFEST valid:', len(m['checks']), 'checks', len(m.get('not_applicable', [])), 'n/a')
es = json.load(open('/root/.vp/EVIDENCE.schema.json'))
for f in sorted(glob.glob('/verif/evidence/*.json')):
    try:
        jsonschema.validate(json.load(open(f)), es)
    except Exception as e:
        print('INVALID', f, str(e)[:200])
print('evidence files checked:', len(glob.glob('/verif/evidence/*.json')))
