cd /verif/contracts
for p in "$@"; do
  x=$(ls X${p}_*.rs 2>/dev/null | head -1)
  [ -n "$x" ] || { echo "no X$p"; continue; }
  u=U${x#X}
  mv "$x" "$u" && echo "promoted $x -> $u"
done
rm -f /verif/.work/X*.rs
