#!/usr/bin/env python3
# mkmut.py <src-relative-file> <out.diff> <old> <new> [count]: make a patch replacing one occurrence of <old> by <new>
import sys, difflib
f, out, old, new = sys.argv[1:5]
s = open('/repo/' + f).read()
n = s.count(old)
if n != 1:
    print("occurrences:", n); sys.exit(1)
t = s.replace(old, new)
d = difflib.unified_diff(s.splitlines(True), t.splitlines(True), 'a/' + f, 'b/' + f)
open(out, 'w').write(''.join(d))
print('wrote', out)
