# xrun.sh UNIT... : generate + verify, print generator errors, result line and the non-probe errors
cd /verif
for u in "$@"; do
  echo "== $u"
  rm -f .work/$u.rs
  N=400 sh tools/v1.sh $u 2>&1 | python3 -c "
import sys
L=sys.stdin.read().split('\n')
i=0
while i<len(L):
    if L[i].startswith('error'):
        blk=[L[i]]; i+=1
        while i<len(L) and not L[i].startswith('error') and not L[i].startswith('verification'):
            blk.append(L[i]); i+=1
        if not any('assert(false)' in b for b in blk): print('\n'.join(b[:230] for b in blk[:4]))
    else:
        if L[i].startswith('verification') or 'AnchorLost' in L[i] or 'Error' in L[i]: print(L[i][:300])
        i+=1
"
done
