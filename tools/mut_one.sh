# mut_one.sh file old new unit : all non-probe errors of one mutant
cd /verif
python3 tools/mkmut.py "$1" /tmp/one_m.diff "$2" "$3" || exit 1
N=400 sh tools/mutv1.sh /tmp/one_m.diff $4 2>&1 | python3 -c "
import sys,re
L=sys.stdin.read().split('\n')
i=0
while i<len(L):
    if L[i].startswith('error'):
        blk=[L[i]]; i+=1
        while i<len(L) and not L[i].startswith('error') and not L[i].startswith('verification'):
            blk.append(L[i]); i+=1
        if not any('assert(false)' in b for b in blk): print('\n'.join(b[:230] for b in blk[:4]))
    else:
        if L[i].startswith('verification'): print(L[i])
        i+=1
"
rm -f /tmp/one_m.diff
