import json, glob, os
own=und=mis=0
L={'own':[], 'und':[], 'mis':[]}
for d in sorted(glob.glob('/verif/seeded/C*-m*')):
    m=json.load(open(d+'/meta.json'))
    sid=os.path.basename(d)
    if m.get('detected_by'): own+=1; L['own'].append(sid)
    elif m.get('undecided'): und+=1; L['und'].append(sid)
    else: mis+=1; L['mis'].append(sid)
print('seeds', own+und+mis, 'own', own, 'undecided', und, 'not reported', mis)
print('UNDECIDED:', ' '.join(L['und']))
print('NOT REPORTED:', ' '.join(L['mis']))
