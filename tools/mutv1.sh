# mutv1.sh <patch> <UNIT>: generate + verify one unit against a patched scratch copy; leaves .work/<UNIT>.rs for inspection
P="$1"; U="$2"
D=$(mktemp -d /tmp/mutsrc.XXXXXX)
cp -r /repo/src "$D/src" && cp /repo/Cargo.toml "$D/"
( cd "$D" && git init -q . 2>/dev/null && git apply --whitespace=nowarn "$P" ) || { echo "PATCH DID NOT APPLY"; rm -rf "$D"; exit 3; }
cd /verif
VERIF_REPO="$D" bash tools/v1.sh "$U" 2>&1 | tail -${N:-30}
rm -rf "$D"
