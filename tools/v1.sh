# usage: v1.sh UNIT  -> generate + run verus, show compact diagnostics
cd /verif
python3 vx/gen_one.py $1 2>&1 | tail -5
cd .work && verus $1.rs --multiple-errors 6 --num-threads 8 --rlimit ${RL:-40} 2>&1 | grep -E '^(error|warning: unused)|^ *--> |^ *[0-9]+ \||verification results|^note: ' | grep -v 'warning' | head -${N:-60} | cut -c1-260
