import json, glob, os, sys
want = sys.argv[1:]
ids = []
for d in sorted(glob.glob('/verif/seeded/C*-m*')):
    p = open(d + '/patch.diff').read()
    if any(('b/' + w) in p for w in want):
        ids.append(os.path.basename(d))
print(' '.join(ids))
