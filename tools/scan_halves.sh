cd /verif
ids=$(ls seeded | grep -E '^C[0-9]+-m[0-9]+$' | sort)
n=$(echo "$ids" | wc -l)
h=$(( (n+1)/2 ))
a=$(echo "$ids" | head -$h | tr '\n' ' ')
b=$(echo "$ids" | tail -n +$((h+1)) | tr '\n' ' ')
python3 vx/seedscan.py $a > .work/seedscan6a.log 2>&1 &
python3 vx/seedscan.py $b > .work/seedscan6b.log 2>&1 &
wait
echo SCANDONE
