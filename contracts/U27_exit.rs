//@ include prelude/header.rs
//@ unit U27 main.rs run_app / utils/bat/output.rs try_pager: what a failed write turns into, which pager is chosen (fragments of C18; level `other`)
verus! {
//@ include prelude/base.rs
//@ include prelude/std_assumed.rs

/// (R3) `error.kind()` reduced to what the code distinguishes: a closed pipe, or anything else
#[derive(Clone, Copy, PartialEq, Eq, Structural)]
pub enum VKind { BrokenPipe, Other }
pub uninterp spec fn err_kind(e: &std::io::Error) -> VKind;
#[verifier::external_body]
pub fn verif_kind(e: &std::io::Error) -> (r: VKind) ensures r == err_kind(e) { unimplemented!() }
/// (R3) `eprintln!("{error}")`: something is written to stderr (ghost flag)
pub fn verif_eprintln(log: &mut Ghost<bool>) ensures final(log)@ { *log = Ghost(true); }
/// the spawned sub-command (git, diff, rg); opaque
#[verifier::external_body]
pub struct VChild { _p: u8 }
impl VChild {
    #[verifier::external_body]
    pub fn wait(&mut self) -> (r: Result<i32, ()>) { unimplemented!() }
}
//@ type src/config.rs Config keep=error_exit_code

/// C18: the reader went away (closed pipe) => status 0 and not a word on stderr; any other write error => the error
/// exit code with a message; no error => status 0 (stdin mode) / go on to the sub-command's status (sub-command mode)
pub open spec fn write_error_mapping_ok(res: std::io::Result<()>, config: &Config, r: std::io::Result<i32>, said0: bool, said1: bool) -> bool {
    match res {
        Ok(_) => said1 == said0,
        Err(e) => if err_kind(&e) == VKind::BrokenPipe { r == Ok::<i32, std::io::Error>(0) && said1 == said0 }
                  else { r == Ok::<i32, std::io::Error>(config.error_exit_code) && said1 },
    }
}

// stdin mode: `let res = delta(io::stdin()...); if let Err(error) = res {..} Ok(0)`
//@ region src/main.rs run_app
//@sig pub fn run_app_stdin_mode_result(res: std::io::Result<()>, config: &Config, log: &mut Ghost<bool>) -> (r: std::io::Result<i32>)
//@fromafter <<<let res = delta(io::stdin().lock().byte_lines(), &mut writer, &config);>>>
//@until <<<} else { let (subcmd_bin, subcmd_args) = subcmd.args.split_first().unwrap();>>>
//@| ensures write_error_mapping_ok(res, config, r, old(log)@, final(log)@),  // @C18:in.stdin.mode.a.closed.pipe.ends.delta.quietly.with.status.0
//@|         res is Ok ==> r == Ok::<i32, std::io::Error>(0),  // @C18:reading.stdin.delta.exits.0
//@rewriteall <<<error.kind()>>> => <<<verif_kind(&error)>>>
//@rewriteall <<<ErrorKind::BrokenPipe>>> => <<<VKind::BrokenPipe>>>
//@rewriteall <<<eprintln!("{error}");>>> => <<<verif_eprintln(log);>>>

// sub-command mode: `let res = delta(cmd_stdout_buf...); if let Err(error) = res {..};`
//@ region src/main.rs run_app
//@sig pub fn run_app_subcommand_mode_write_error(res: std::io::Result<()>, config: &Config, cmd: &mut VChild, log: &mut Ghost<bool>) -> (r: std::io::Result<i32>)
//@fromafter <<<let res = delta(cmd_stdout_buf.byte_lines(), &mut writer, &config);>>>
//@until <<<let subcmd_status = cmd>>>
//@tail Ok(-1)
//@| ensures res is Err ==> write_error_mapping_ok(res, config, r, old(log)@, final(log)@),  // @C18:in.sub.command.mode.a.closed.pipe.ends.delta.quietly.with.status.0
//@|         res is Ok ==> final(log)@ == old(log)@,
//@rewriteall <<<error.kind()>>> => <<<verif_kind(&error)>>>
//@rewriteall <<<ErrorKind::BrokenPipe>>> => <<<VKind::BrokenPipe>>>
//@rewriteall <<<eprintln!("{error}");>>> => <<<verif_eprintln(log);>>>

// ---------------------------------------------------------------- main.rs: --version, --help, --show-config write outside `delta()`
/// C18: a closed pipe is not an error; every other outcome of the write is passed on unchanged
pub open spec fn quiet_ok(result: std::io::Result<()>, r: std::io::Result<()>) -> bool {
    match result {
        Ok(_) => r is Ok,
        Err(e) => if err_kind(&e) == VKind::BrokenPipe { r is Ok } else { r == result },
    }
}
//@ fn src/main.rs quiet_on_broken_pipe optional=1
//@| ensures quiet_ok(result, r),  // @C18:a.closed.pipe.is.not.an.error
//@rewrite <<<error.kind() == ErrorKind::BrokenPipe>>> => <<<verif_kind(&error) == VKind::BrokenPipe>>>

/// what the three branches owe: the write went through, or its reader had gone => status 0 (an `Err` is what `main`
/// prints as `Error: ..` with status 1)
pub open spec fn oneshot_ok(write_result: std::io::Result<()>, r: std::io::Result<i32>) -> bool {
    match write_result {
        Ok(_) => r == Ok::<i32, std::io::Error>(0),
        Err(e) => err_kind(&e) == VKind::BrokenPipe ==> r == Ok::<i32, std::io::Error>(0),
    }
}
//@ region src/main.rs run_app
//@sig pub fn run_app_version_branch(write_result: std::io::Result<()>) -> (r: std::io::Result<i32>)
//@fromafter <<<if let Call::Version(msg) = call {>>>
//@until <<<} else if let Call::Help(msg) = call {>>>
//@rewrite <<<writeln!(std::io::stdout(), "{}", msg.trim_end())>>> => <<<write_result>>>
//@| ensures oneshot_ok(write_result, r),  // @C18:version.with.a.closed.pipe.ends.quietly.with.status.0

//@ region src/main.rs run_app
//@sig pub fn run_app_help_branch(write_result: std::io::Result<()>) -> (r: std::io::Result<i32>)
//@fromafter <<<} else if let Call::Help(msg) = call {>>>
//@until <<<} else if let Call::SubCommand(_, cmd) = &call {>>>
//@rewrite <<<OutputType::oneshot_write(msg)>>> => <<<write_result>>>
//@| ensures oneshot_ok(write_result, r),  // @C18:help.with.a.quit.pager.or.closed.pipe.ends.quietly.with.status.0

//@ region src/main.rs run_app
//@sig pub fn run_app_show_config_branch(write_result: std::io::Result<()>) -> (r: std::io::Result<i32>)
//@fromafter <<<let mut stdout = stdout.lock();>>>
//@until <<<} let pager_cfg = (&config).into();>>>
//@rewrite <<<subcommands::show_config::show_config(&config, &mut stdout)>>> => <<<write_result>>>
//@| ensures oneshot_ok(write_result, r),  // @C18:show.config.with.a.closed.pipe.ends.quietly.with.status.0

/// (R3) `fatal(..)`: message on stderr and exit(2); never returns
#[verifier::external_body]
pub fn verif_fatal() -> ! { unimplemented!() }
// the listing sub-commands (--list-languages, --show-colors, --parse-ansi, --generate-completion, ..) return their write result
//@ region src/main.rs run_app
//@sig pub fn run_app_listing_subcommand_result(subcommand_result: Option<std::io::Result<()>>) -> (r: std::io::Result<i32>)
//@from <<<if let Some(result) = subcommand_result {>>>
//@until <<<let _show_config = opt.show_config;>>>
//@tail Ok(-1)
//@rewriteall <<<error.kind()>>> => <<<verif_kind(&error)>>>
//@rewriteall <<<ErrorKind::BrokenPipe>>> => <<<VKind::BrokenPipe>>>
//@rewrite <<<fatal(format!("{error}"))>>> => <<<verif_fatal()>>>
//@| ensures subcommand_result matches Some(res) ==> oneshot_ok(res, r) && r is Ok,  // @C18:a.listing.sub.command.with.a.closed.pipe.ends.quietly.with.status.0

// ---------------------------------------------------------------- utils/bat/output.rs try_pager: which pager
//@ type src/env.rs DeltaEnv keep=pagers noderive
/// (R3) `env.pagers.clone()` (Verus has no model of the built-in tuple Clone); ASSUMED: a clone equals its original
#[verifier::external_body]
pub fn verif_clone_pagers(p: &(Option<String>, Option<String>)) -> (r: (Option<String>, Option<String>)) ensures r == *p { unimplemented!() }
/// C18: the pager named by DELTA_PAGER, else the one from BAT_PAGER/PAGER; the arguments of `less` are replaced by
/// delta's own only when the pager comes from PAGER and neither --pager/delta.pager nor DELTA_PAGER names one
//@ region src/utils/bat/output.rs OutputType::try_pager
//@sig pub fn try_pager_choice(env: &DeltaEnv, pager_from_config: Option<String>) -> (r: (Option<String>, bool))
//@from <<<let mut replace_arguments_to_less = false;>>>
//@until <<<let pager_cmd = shell_words::split(>>>
//@tail (pager_from_env, replace_arguments_to_less)
//@rewrite <<<env.pagers.clone()>>> => <<<verif_clone_pagers(&env.pagers)>>>
//@| ensures r.0 == (match env.pagers.0 { Some(p) => Some(p), None => env.pagers.1 }),  // @C18:DELTA_PAGER.is.preferred.to.PAGER
//@|         r.1 == (pager_from_config is None && env.pagers.0 is None && env.pagers.1 is Some),  // @C18:arguments.of.less.are.replaced.only.for.a.pager.taken.from.PAGER

// ---------------------------------------------------------------- utils/bat/output.rs: the arguments `less` is started with
/// (R3) `less_path.clone()`
#[verifier::external_body]
pub fn verif_clone_path(p: &PathBuf) -> (r: PathBuf) ensures r == *p { unimplemented!() }
/// (R3) std::process::Command reduced to its argument list; ASSUMED: `arg`/`args` append, `new` starts empty
#[verifier::external_body]
pub struct Command { _p: u8 }
impl Command {
    pub uninterp spec fn argv(&self) -> Seq<Seq<char>>;
    #[verifier::external_body]
    pub fn new(path: PathBuf) -> (r: Command) ensures r.argv() == Seq::<Seq<char>>::empty() { unimplemented!() }
    #[verifier::external_body]
    pub fn arg(&mut self, a: &str) ensures final(self).argv() == old(self).argv().push(a@) { unimplemented!() }
}
#[verifier::external_body]
pub fn verif_args_strs(p: &mut Command, a: Vec<&str>) ensures final(p).argv() == old(p).argv() + a@.map_values(|s: &str| s@) { unimplemented!() }
#[verifier::external_body]
pub fn verif_args_strings(p: &mut Command, a: &[String]) ensures final(p).argv() == old(p).argv() + a@.map_values(|s: String| s@) { unimplemented!() }
#[verifier::external_body]
pub fn retrieve_less_version(less_path: PathBuf) -> (r: Option<usize>) { unimplemented!() }

/// C18: "less is told to pass colours through whenever its arguments are delta's to choose": no arguments were given
/// with the pager, or they are to be replaced (pager taken from PAGER) => the first argument is --RAW-CONTROL-CHARS
/// and --quit-if-one-screen is passed on when asked for; otherwise exactly the user's arguments
//@ region src/utils/bat/output.rs _make_process_from_less_path
//@sig pub fn less_arguments(less_path: PathBuf, args: &[String], replace_arguments_to_less: bool, quit_if_one_screen: bool) -> (r: Command)
//@from <<<let mut p = Command::new(less_path.clone());>>>
//@until <<<if std::env::var(LESSUTFCHARDEF).is_err() {>>>
//@tail p
//@rewrite <<<less_path.clone()>>> => <<<verif_clone_path(&less_path)>>>
//@rewrite <<<p.args(vec!["--RAW-CONTROL-CHARS"]);>>> => <<<verif_args_strs(&mut p, vec!["--RAW-CONTROL-CHARS"]);>>>
//@rewrite <<<p.args(args);>>> => <<<verif_args_strings(&mut p, args);>>>
//@| ensures (args@.len() == 0 || replace_arguments_to_less) ==> r.argv().len() >= 1 && r.argv()[0] == "--RAW-CONTROL-CHARS"@,  // @C18:less.is.told.to.pass.colours.through.whenever.its.arguments.are.deltas.to.choose
//@|         (args@.len() == 0 || replace_arguments_to_less) && quit_if_one_screen ==> r.argv().last() == "--quit-if-one-screen"@,  // @C18:less.quits.if.one.screen.when.asked.to
//@|         !(args@.len() == 0 || replace_arguments_to_less) ==> r.argv() == args@.map_values(|s: String| s@),  // @C18:arguments.given.with.the.pager.are.passed.on

// ---------------------------------------------------------------- utils/bat/output.rs: delta does not exit before the pager does
/// (R3) std::process::Child reduced to "has been waited for"; ASSUMED: `wait` returns only after the child has exited,
/// `try_wait` returns `Ok(Some(_))` only if it has
#[verifier::external_body]
pub struct ChildStdin { _p: u8 }
pub struct Child { pub stdin: Option<ChildStdin>, pub id: u32 }
impl Child {
    pub uninterp spec fn exited(&self) -> bool;
    #[verifier::external_body]
    pub fn wait(&mut self) -> (r: Result<i32, ()>) ensures final(self).exited() { unimplemented!() }
    #[verifier::external_body]
    pub fn try_wait(&mut self) -> (r: Result<Option<i32>, ()>) ensures final(self).exited() == (old(self).exited() || r matches Ok(Some(_))) { unimplemented!() }
    #[verifier::external_body]
    pub fn kill(&mut self) -> (r: Result<(), ()>) ensures final(self).exited() == old(self).exited() { unimplemented!() }
}
#[verifier::external_type_specification]
#[verifier::external_body]
pub struct ExStdout(std::io::Stdout);
//@ type src/utils/bat/output.rs OutputType noderive
impl OutputType {
    // `impl Drop for OutputType`: the method is verified as an inherent one (same text)
    //@ fn src/utils/bat/output.rs OutputType@Drop::drop
    //@| ensures *final(self) matches OutputType::Pager(c) ==> c.exited(),  // @C18:delta.does.not.exit.before.the.pager.does
}

} // verus!
fn main() {}
