//@ include prelude/header.rs
//@ unit U27 main.rs run_app / utils/bat/output.rs try_pager: what a failed write turns into, which pager is chosen (fragments of C18; level `other`)
verus! {
//@ include prelude/base.rs
//@ include prelude/std_assumed.rs

/// (R3) `error.kind()` reduced to what the code distinguishes: a closed pipe, or anything else
#[derive(Clone, Copy, PartialEq, Eq, Structural)]
pub enum VKind { BrokenPipe, Other }
pub uninterp spec fn err_kind(e: &std::io::Error) -> VKind;
#[verifier::external_body]
pub fn verif_kind(e: &std::io::Error) -> (r: VKind) ensures r == err_kind(e) { unimplemented!() }
/// (R3) `eprintln!("{error}")`: something is written to stderr (ghost flag)
pub fn verif_eprintln(log: &mut Ghost<bool>) ensures final(log)@ { *log = Ghost(true); }
/// the spawned sub-command (git, diff, rg); opaque
#[verifier::external_body]
pub struct VChild { _p: u8 }
impl VChild {
    #[verifier::external_body]
    pub fn wait(&mut self) -> (r: Result<i32, ()>) { unimplemented!() }
}
//@ type src/config.rs Config keep=error_exit_code

/// C18: the reader went away (closed pipe) => status 0 and not a word on stderr; any other write error => the error
/// exit code with a message; no error => status 0 (stdin mode) / go on to the sub-command's status (sub-command mode)
pub open spec fn write_error_mapping_ok(res: std::io::Result<()>, config: &Config, r: std::io::Result<i32>, said0: bool, said1: bool) -> bool {
    match res {
        Ok(_) => said1 == said0,
        Err(e) => if err_kind(&e) == VKind::BrokenPipe { r == Ok::<i32, std::io::Error>(0) && said1 == said0 }
                  else { r == Ok::<i32, std::io::Error>(config.error_exit_code) && said1 },
    }
}

// stdin mode: `let res = delta(io::stdin()...); if let Err(error) = res {..} Ok(0)`
//@ region src/main.rs run_app
//@sig pub fn run_app_stdin_mode_result(res: std::io::Result<()>, config: &Config, log: &mut Ghost<bool>) -> (r: std::io::Result<i32>)
//@fromafter <<<let res = delta(io::stdin().lock().byte_lines(), &mut writer, &config);>>>
//@until <<<} else { // First start a subcommand>>>
//@| ensures write_error_mapping_ok(res, config, r, old(log)@, final(log)@),  // @C18:in.stdin.mode.a.closed.pipe.ends.delta.quietly.with.status.0
//@|         res is Ok ==> r == Ok::<i32, std::io::Error>(0),  // @C18:reading.stdin.delta.exits.0
//@rewriteall <<<error.kind()>>> => <<<verif_kind(&error)>>>
//@rewriteall <<<ErrorKind::BrokenPipe>>> => <<<VKind::BrokenPipe>>>
//@rewriteall <<<eprintln!("{error}");>>> => <<<verif_eprintln(log);>>>

// sub-command mode: `let res = delta(cmd_stdout_buf...); if let Err(error) = res {..};`
//@ region src/main.rs run_app
//@sig pub fn run_app_subcommand_mode_write_error(res: std::io::Result<()>, config: &Config, cmd: &mut VChild, log: &mut Ghost<bool>) -> (r: std::io::Result<i32>)
//@fromafter <<<let res = delta(cmd_stdout_buf.byte_lines(), &mut writer, &config);>>>
//@until <<<let subcmd_status = cmd>>>
//@tail Ok(-1)
//@| ensures res is Err ==> write_error_mapping_ok(res, config, r, old(log)@, final(log)@),  // @C18:in.sub.command.mode.a.closed.pipe.ends.delta.quietly.with.status.0
//@|         res is Ok ==> final(log)@ == old(log)@,
//@rewriteall <<<error.kind()>>> => <<<verif_kind(&error)>>>
//@rewriteall <<<ErrorKind::BrokenPipe>>> => <<<VKind::BrokenPipe>>>
//@rewriteall <<<eprintln!("{error}");>>> => <<<verif_eprintln(log);>>>

// ---------------------------------------------------------------- utils/bat/output.rs try_pager: which pager
//@ type src/env.rs DeltaEnv keep=pagers noderive
/// (R3) `env.pagers.clone()` (Verus has no model of the built-in tuple Clone); ASSUMED: a clone equals its original
#[verifier::external_body]
pub fn verif_clone_pagers(p: &(Option<String>, Option<String>)) -> (r: (Option<String>, Option<String>)) ensures r == *p { unimplemented!() }
/// C18: the pager named by DELTA_PAGER, else the one from BAT_PAGER/PAGER; the arguments of `less` are replaced by
/// delta's own only when the pager comes from PAGER and neither --pager/delta.pager nor DELTA_PAGER names one
//@ region src/utils/bat/output.rs OutputType::try_pager
//@sig pub fn try_pager_choice(env: &DeltaEnv, pager_from_config: Option<String>) -> (r: (Option<String>, bool))
//@from <<<let mut replace_arguments_to_less = false;>>>
//@until <<<let pager_cmd = shell_words::split(>>>
//@tail (pager_from_env, replace_arguments_to_less)
//@rewrite <<<env.pagers.clone()>>> => <<<verif_clone_pagers(&env.pagers)>>>
//@| ensures r.0 == (match env.pagers.0 { Some(p) => Some(p), None => env.pagers.1 }),  // @C18:DELTA_PAGER.is.preferred.to.PAGER
//@|         r.1 == (pager_from_config is None && env.pagers.0 is None && env.pagers.1 is Some),  // @C18:arguments.of.less.are.replaced.only.for.a.pager.taken.from.PAGER

} // verus!
fn main() {}
