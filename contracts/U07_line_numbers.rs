//@ include prelude/header.rs
//@ unit U07 features/line_numbers.rs: counters and per-hunk initialisation (C05)
verus! {
//@ include prelude/base.rs
//@ include prelude/std_assumed.rs
//@ include prelude/state.rs
//@ include prelude/ansi_term.rs
//@ include prelude/style.rs
//@ shims merge_conflict grep config
//@ broadcast vax::vax_group
//@ include prelude/minusplus.rs
//@ type src/config.rs Config keep=line_numbers_style_minusplus,line_numbers_zero_style,side_by_side
pub mod format {
    use vstd::prelude::*;
    #[verifier::external_body]
    pub struct FormatStringData<'a> { _p: std::marker::PhantomData<&'a ()> }
}
//@ type src/features/line_numbers.rs LineNumbersData noderive

/// `line_numbers.iter().map(|(n, d)| n.saturating_add(*d)).max().unwrap()` (R3): the largest end line of the hunk.
pub open spec fn sat_add(a: usize, b: usize) -> usize { if a + b > usize::MAX { usize::MAX } else { (a + b) as usize } }
/// the largest `start + length` over ALL files of the hunk (two for an ordinary diff, more for a combined one)
pub open spec fn max_end(s: Seq<(usize, usize)>) -> usize
    decreases s.len()
{ if s.len() == 0 { 0 } else { let m = max_end(s.drop_last()); let e = sat_add(s.last().0, s.last().1); if e > m { e } else { m } } }
#[verifier::external_body]
pub fn verif_max_line_end(line_numbers: &[(usize, usize)]) -> (r: usize)
    requires line_numbers@.len() >= 1,  // @C03:init.max.of.nonempty
    ensures r == max_end(line_numbers@),
{ unimplemented!() }
pub uninterp spec fn log10_floor(n: usize) -> usize;
/// `(n as f64).log10().floor() as usize` (R3; floating point is outside the verifier): at most 19 for a 64-bit n,
/// and 0 for n == 0 (`log10(0) = -inf`, and a float-to-int cast saturates at 0).
#[verifier::external_body]
pub fn verif_log10_floor(n: usize) -> (r: usize)
    ensures r <= 19, r == log10_floor(n),
{ unimplemented!() }

//@ fn src/features/line_numbers.rs linenumbers_and_styles spec=line_numbers.linenumbers_and_styles

impl<'a> LineNumbersData<'a> {
    //@ fn src/features/line_numbers.rs LineNumbersData::initialize_hunk spec=line_numbers.initialize_hunk.body
    //@rewrite <<<line_numbers .iter() .map(|(n, d)| n.saturating_add(*d)) .max() .unwrap()>>> => <<<verif_max_line_end(line_numbers)>>>
    //@rewrite <<<(hunk_max_line_number as f64).log10().floor() as usize>>> => <<<verif_log10_floor(hunk_max_line_number)>>>
}

} // verus!
fn main() {}
