//@ include prelude/header.rs
//@ unit U39 paint.rs Painter::get_syntax: the language of a file is chosen from its name alone - whole name, then extension, then the configured default (C15)
verus! {
//@ include prelude/base.rs
//@ include prelude/std_assumed.rs
//@ broadcast vax::vax_group vstd::utf8::group_utf8_lib vstd::string::group_string_axioms
#[verifier::external_body]
pub struct SyntaxSet { _p: u8 }
#[verifier::external_body]
pub struct SyntaxReference { _p: u8 }
/// the name of delta's built-in last resort (`config::SYNTAX_FALLBACK_LANG`, "txt"); its value plays no role here
pub uninterp spec fn last_resort_name() -> Seq<char>;
/// (R3) `config::SYNTAX_FALLBACK_LANG` (a `&str` constant; Verus wants `&'static str` inside `verus!`)
#[verifier::external_body]
pub fn verif_last_resort_name() -> (r: &'static str) ensures r@ == last_resort_name() { unimplemented!() }

/// syntect: the syntax definition registered for an extension (or for a whole file name such as `Makefile`); uninterpreted
pub uninterp spec fn by_extension<'a>(set: &'a SyntaxSet, extension: Seq<char>) -> Option<&'a SyntaxReference>;
/// syntect: `find_syntax_for_file(path).unwrap_or(None)` for the configured default language; uninterpreted
pub uninterp spec fn for_file<'a>(set: &'a SyntaxSet, path: Seq<char>) -> Option<&'a SyntaxReference>;
impl SyntaxSet {
    #[verifier::external_body]
    pub fn find_syntax_by_extension<'a>(&'a self, extension: &str) -> (r: Option<&'a SyntaxReference>)
        ensures r == by_extension(self, extension@),
    { unimplemented!() }
    #[verifier::external_body]
    pub fn find_syntax_for_file<'a>(&'a self, path: &str) -> (r: std::io::Result<Option<&'a SyntaxReference>>)
        ensures (match r { Ok(o) => o, Err(_) => None }) == for_file(self, path@),
    { unimplemented!() }
}
/// std::path: the final component of a path / the part of it after the last dot ("" when there is none); uninterpreted
pub uninterp spec fn path_file_name(path: Seq<char>) -> Seq<char>;
pub uninterp spec fn path_extension(path: Seq<char>) -> Seq<char>;
/// (R3) `Path::new(filename).file_name().and_then(|n| n.to_str()).unwrap_or("")`
#[verifier::external_body]
pub fn verif_path_file_name<'a>(filename: &'a str) -> (r: &'a str) ensures r@ == path_file_name(filename@) { unimplemented!() }
/// (R3) `Path::new(filename).extension().and_then(|x| x.to_str()).unwrap_or("")`
#[verifier::external_body]
pub fn verif_path_extension<'a>(filename: &'a str) -> (r: &'a str) ensures r@ == path_extension(filename@) { unimplemented!() }
// Option::or_else: "Returns the option if it contains a value, otherwise calls f and returns the result."
pub assume_specification<T, F: FnOnce() -> Option<T>>[ Option::<T>::or_else ](o: Option<T>, f: F) -> (r: Option<T>)
    requires o is None ==> f.requires(()),
    ensures o is Some ==> r == o, o is None ==> f.ensures((), r);
// Result::unwrap_or: "Returns the contained Ok value or a provided default."
pub assume_specification<T, E>[ Result::<T, E>::unwrap_or ](res: Result<T, E>, default: T) -> (r: T)
    ensures r == (match res { Ok(t) => t, Err(_) => default });

/// the language of a file, as the property states it: by the file's NAME alone - the whole name (Makefile, Dockerfile: more
/// than four bytes when there is no extension), else the extension; the configured default language when neither is known
pub open spec fn language_by_name<'a>(set: &'a SyntaxSet, name: Seq<char>, extension: Seq<char>) -> Option<&'a SyntaxReference> {
    if extension.len() > 0 || encode_utf8(name).len() > 4 {
        match by_extension(set, name) { Some(s) => Some(s), None => by_extension(set, extension) }
    } else { None }
}
pub open spec fn chosen_language<'a>(set: &'a SyntaxSet, filename: Option<&str>, fallback: Seq<char>) -> &'a SyntaxReference {
    let named = match filename { Some(f) => language_by_name(set, path_file_name(f@), path_extension(f@)), None => None };
    match named {
        Some(s) => s,
        None => match for_file(set, fallback) { Some(s) => s, None => by_extension(set, last_resort_name())->0 },
    }
}

//@ fn src/paint.rs Painter::get_syntax
//@| requires by_extension(syntax_set, last_resort_name()) is Some,  // ASSUMED of the syntax set delta is built with: plain text is always there
//@| ensures r == chosen_language(syntax_set, filename, fallback@),  // @C15:the.language.is.chosen.from.the.file.name.alone.whole.name.then.extension.then.the.configured.default
//@rewrite <<<let path = std::path::Path::new(filename);>>> => <<<>>>
//@rewrite <<<config::SYNTAX_FALLBACK_LANG>>> => <<<verif_last_resort_name()>>>
//@rewrite <<<path.file_name().and_then(|n| n.to_str()).unwrap_or("")>>> => <<<verif_path_file_name(filename)>>>
//@rewrite <<<path.extension().and_then(|x| x.to_str()).unwrap_or("")>>> => <<<verif_path_extension(filename)>>>
//@rewrite <<<.or_else(|| syntax_set.find_syntax_by_extension(extension))>>> => <<<.or_else(|| -> (o: Option<&'a SyntaxReference>) ensures o == by_extension(syntax_set, extension@) { syntax_set.find_syntax_by_extension(extension) })>>>
//@rewrite <<<.unwrap_or_else(|| { delta_unreachable("Failed to find any language syntax definitions.") })>>> => <<<.unwrap_or_else(|| -> (o: &'a SyntaxReference) requires false { delta_unreachable("Failed to find any language syntax definitions.") })>>>

} // verus!
fn main() {}
