//@ include prelude/header.rs
//@ unit U50 paint.rs should_compute_syntax_highlighting / painted_prefix: no highlighting is computed without a theme or for styles that do not ask for it (C15); a kept marker is the line's own marker in the style of its kind (C01, C02)
verus! {
//@ include prelude/base.rs
//@ include prelude/std_assumed.rs
//@ include prelude/state.rs
//@ include prelude/ansi_term.rs
//@ include prelude/style.rs
//@ shims config merge_conflict grep
pub use crate::ansi_term::ANSIString;
#[verifier::external_body]
pub struct SyntaxTheme { _p: u8 }
//@ type src/config.rs Config keep=syntax_theme,minus_style,minus_emph_style,minus_non_emph_style,zero_style,plus_style,plus_emph_style,plus_non_emph_style,keep_plus_minus_markers

/// the states of lines that are painted with (possible) syntax highlighting
pub open spec fn highlightable(s: State) -> bool {
    s is HunkMinus || s is HunkZero || s is HunkPlus || s is HunkHeader || s is Blame || s is GitShowFile || s is Grep
}
/// C15: highlighting is worked out only when there is a theme and the styles of this kind of line ask for `syntax`
/// (a line shown in the colours it arrived with may be mapped to such a style; header, blame, file and grep lines always may)
pub open spec fn wants_syntax(s: State, config: &Config) -> bool {
    config.syntax_theme is Some && (match s {
        State::HunkMinus(_, None) => config.minus_style.is_syntax_highlighted || config.minus_emph_style.is_syntax_highlighted || config.minus_non_emph_style.is_syntax_highlighted,
        State::HunkZero(_, None) => config.zero_style.is_syntax_highlighted,
        State::HunkPlus(_, None) => config.plus_style.is_syntax_highlighted || config.plus_emph_style.is_syntax_highlighted || config.plus_non_emph_style.is_syntax_highlighted,
        _ => true,
    })
}
//@ fn src/paint.rs Painter::should_compute_syntax_highlighting
//@| requires config.syntax_theme is Some ==> highlightable(*state),  // @C03:highlighting.is.asked.about.lines.that.are.painted.only.assumed
//@| ensures r == wants_syntax(*state, config),  // @C15:highlighting.is.worked.out.only.with.a.theme.and.for.styles.that.ask.for.syntax
//@|         config.syntax_theme is None ==> !r,  // @C15:without.a.theme.nothing.is.highlighted

/// an `ansi_term` painted string: its text and its style
pub uninterp spec fn at_text<'a>(s: ANSIString<'a>) -> Seq<char>;
pub uninterp spec fn at_style<'a>(s: ANSIString<'a>) -> AtStyle;
impl Style {
    /// delta's `Style::paint` = `self.ansi_term_style.paint(input)` (generic over the text type; here for an owned String)
    #[verifier::external_body]
    pub fn paint<'a>(self, input: String) -> (r: ANSIString<'a>) ensures at_text(r) == input@, at_style(r) == self.ansi_term_style { unimplemented!() }
}
/// the marker that is put back in front of a line: in a combined diff (outside conflict regions) always the line's own marker
/// columns; otherwise, when markers are kept, `-`, a blank or `+` by the kind of the line - each in the style of that kind
pub open spec fn kept_marker(s: State, config: &Config) -> Option<(AtStyle, Seq<char>)> {
    match s {
        State::HunkMinus(DiffType::Combined(MergeParents::Prefix(p), InMergeConflict::No), _) => Some((config.minus_style.ansi_term_style, p@)),
        State::HunkZero(DiffType::Combined(MergeParents::Prefix(p), InMergeConflict::No), _) => Some((config.zero_style.ansi_term_style, p@)),
        State::HunkPlus(DiffType::Combined(MergeParents::Prefix(p), InMergeConflict::No), _) => Some((config.plus_style.ansi_term_style, p@)),
        State::HunkMinus(_, _) => if config.keep_plus_minus_markers { Some((config.minus_style.ansi_term_style, "-"@)) } else { None },
        State::HunkZero(_, _) => if config.keep_plus_minus_markers { Some((config.zero_style.ansi_term_style, " "@)) } else { None },
        State::HunkPlus(_, _) => if config.keep_plus_minus_markers { Some((config.plus_style.ansi_term_style, "+"@)) } else { None },
        _ => None,
    }
}
//@ fn src/paint.rs painted_prefix
//@| ensures (match r { Some(x) => kept_marker(state, config) == Some((at_style(x), at_text(x))), None => kept_marker(state, config) is None }),  // @C01,C02:a.kept.marker.is.the.lines.own.marker.in.the.style.of.its.kind.removed.unchanged.or.added

} // verus!
fn main() {}
