//@ include prelude/header.rs
//@ unit U50 paint.rs should_compute_syntax_highlighting / painted_prefix: no highlighting is computed without a theme or for styles that do not ask for it (C15); a kept marker is the line's own marker in the style of its kind (C01, C02)
verus! {
//@ include prelude/base.rs
//@ include prelude/std_assumed.rs
//@ include prelude/state.rs
//@ include prelude/ansi_term.rs
//@ include prelude/style.rs
//@ shims config merge_conflict grep
pub use crate::ansi_term::ANSIString;
#[verifier::external_body]
pub struct SyntaxTheme { _p: u8 }
//@ type src/config.rs Config keep=syntax_theme,minus_style,minus_emph_style,minus_non_emph_style,zero_style,plus_style,plus_emph_style,plus_non_emph_style,keep_plus_minus_markers

/// the states of lines that are painted with (possible) syntax highlighting
pub open spec fn highlightable(s: State) -> bool {
    s is HunkMinus || s is HunkZero || s is HunkPlus || s is HunkHeader || s is Blame || s is GitShowFile || s is Grep
}
/// C15: highlighting is worked out only when there is a theme and the styles of this kind of line ask for `syntax`
/// (a line shown in the colours it arrived with may be mapped to such a style; header, blame, file and grep lines always may)
pub open spec fn wants_syntax(s: State, config: &Config) -> bool {
    config.syntax_theme is Some && (match s {
        State::HunkMinus(_, None) => config.minus_style.is_syntax_highlighted || config.minus_emph_style.is_syntax_highlighted || config.minus_non_emph_style.is_syntax_highlighted,
        State::HunkZero(_, None) => config.zero_style.is_syntax_highlighted,
        State::HunkPlus(_, None) => config.plus_style.is_syntax_highlighted || config.plus_emph_style.is_syntax_highlighted || config.plus_non_emph_style.is_syntax_highlighted,
        _ => true,
    })
}
//@ fn src/paint.rs Painter::should_compute_syntax_highlighting
//@| requires config.syntax_theme is Some ==> highlightable(*state),  // @C03:highlighting.is.asked.about.lines.that.are.painted.only.assumed
//@| ensures r == wants_syntax(*state, config),  // @C15:highlighting.is.worked.out.only.with.a.theme.and.for.styles.that.ask.for.syntax
//@|         config.syntax_theme is None ==> !r,  // @C15:without.a.theme.nothing.is.highlighted

/// an `ansi_term` painted string: its text and its style
pub uninterp spec fn at_text<'a>(s: ANSIString<'a>) -> Seq<char>;
pub uninterp spec fn at_style<'a>(s: ANSIString<'a>) -> AtStyle;
/// the text types `Style::paint` is called with here (`String`, `&str`)
pub trait PaintInput { spec fn as_text(&self) -> Seq<char>; }
impl PaintInput for &str { open spec fn as_text(&self) -> Seq<char> { (*self)@ } }
impl PaintInput for String { open spec fn as_text(&self) -> Seq<char> { self@ } }
impl Style {
    /// delta's `Style::paint` = `self.ansi_term_style.paint(input)` (generic over the text type)
    #[verifier::external_body]
    pub fn paint<'a, T: PaintInput>(self, input: T) -> (r: ANSIString<'a>) ensures at_text(r) == input.as_text(), at_style(r) == self.ansi_term_style { unimplemented!() }
}
/// the marker that is put back in front of a line: in a combined diff (outside conflict regions) always the line's own marker
/// columns; otherwise, when markers are kept, `-`, a blank or `+` by the kind of the line - each in the style of that kind
pub open spec fn kept_marker(s: State, config: &Config) -> Option<(AtStyle, Seq<char>)> {
    match s {
        State::HunkMinus(DiffType::Combined(MergeParents::Prefix(p, _), InMergeConflict::No), _) => Some((config.minus_style.ansi_term_style, p@)),
        State::HunkZero(DiffType::Combined(MergeParents::Prefix(p, _), InMergeConflict::No), _) => Some((config.zero_style.ansi_term_style, p@)),
        State::HunkPlus(DiffType::Combined(MergeParents::Prefix(p, _), InMergeConflict::No), _) => Some((config.plus_style.ansi_term_style, p@)),
        State::HunkMinus(_, _) => if config.keep_plus_minus_markers { Some((config.minus_style.ansi_term_style, "-"@)) } else { None },
        State::HunkZero(_, _) => if config.keep_plus_minus_markers { Some((config.zero_style.ansi_term_style, " "@)) } else { None },
        State::HunkPlus(_, _) => if config.keep_plus_minus_markers { Some((config.plus_style.ansi_term_style, "+"@)) } else { None },
        _ => None,
    }
}
//@ fn src/paint.rs painted_prefix
//@| ensures (match r { Some(x) => kept_marker(state, config) == Some((at_style(x), at_text(x))), None => kept_marker(state, config) is None }),  // @C01,C02:a.kept.marker.is.the.lines.own.marker.in.the.style.of.its.kind.removed.unchanged.or.added

// ---- side_by_side.rs paint_minus_or_plus_panel_line: the marker that is kept in a panel
//@ include prelude/minusplus.rs
/// when markers are kept, a panel row begins with `-` on the left and `+` on the right, each in the style of its side; a
/// continuation row of a wrapped line begins with a blank in the style of its line
pub open spec fn kept_panel_marker(keep: bool, side: PanelSide, s: State, config: &Config) -> Option<(AtStyle, Seq<char>)> {
    if !keep { None }
    else if s is HunkPlusWrapped { Some((config.plus_style.ansi_term_style, " "@)) }
    else if s is HunkMinusWrapped { Some((config.minus_style.ansi_term_style, " "@)) }
    else if side == Left { Some((config.minus_style.ansi_term_style, "-"@)) }
    else { Some((config.plus_style.ansi_term_style, "+"@)) }
}
//@ region src/features/side_by_side.rs paint_minus_or_plus_panel_line
//@sig pub fn sbs_kept_marker_region<'a>(config: &Config, panel_side: PanelSide, state: &State) -> (r: Option<ANSIString<'a>>)
//@from <<<let painted_prefix = match (config.keep_plus_minus_markers, panel_side, state) {>>>
//@until <<<let (line, line_is_empty) = Painter::paint_line(>>>
//@tail painted_prefix
//@| ensures (match r { Some(x) => kept_panel_marker(config.keep_plus_minus_markers, panel_side, *state, config) == Some((at_style(x), at_text(x))), None => kept_panel_marker(config.keep_plus_minus_markers, panel_side, *state, config) is None }),  // @C02,C07:a.kept.marker.in.a.panel.is.minus.on.the.left.plus.on.the.right.and.a.blank.on.the.continuation.rows.of.a.wrapped.line

} // verus!
fn main() {}
