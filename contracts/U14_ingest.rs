//@ include prelude/header.rs
//@ unit U14 delta.rs ingest_line_utf8: what may change in an input line before any handler sees it (C04, C08, C09, C01)
verus! {
//@ set CONFIG_EXTRA ,max_line_length,truncation_symbol
//@ include prelude/sm_env.rs
//@ broadcast vax::vax_group rax::rax_group r2x_group otx_group axiom_head_whole axiom_cow_ref_str

// ---- uninterpreted string functions: only the identity of their arguments matters ----
/// `&s[a..]` and `&s[..b]` as functions of the string and the byte offset (this vstd build gives
/// no postcondition for str range indexing, so the two slices are abstracted, rule R3)
pub uninterp spec fn tail_spec(s: Seq<char>, a: int) -> Seq<char>;
pub uninterp spec fn head_spec(s: Seq<char>, b: int) -> Seq<char>;
/// `ansi::measure_text_width`, `ansi::truncate_str`, `ansi::strip_ansi_codes`
pub uninterp spec fn width_spec(s: Seq<char>) -> usize;
pub uninterp spec fn truncate_spec(s: Seq<char>, max: usize, symbol: Seq<char>) -> Seq<char>;
pub uninterp spec fn strip_spec(s: Seq<char>) -> Seq<char>;

#[verifier::external_body]
pub fn verif_str_from(s: &str, a: usize) -> (r: &str)
    requires a <= s.spec_bytes().len(),  // @C03:ingest.slice.from.in.bounds
    ensures r@ == tail_spec(s@, a as int),
{ unimplemented!() }
#[verifier::external_body]
pub fn verif_str_to(s: &str, b: usize) -> (r: &str)
    requires b <= s.spec_bytes().len(),  // @C03:ingest.slice.to.in.bounds
    ensures r@ == head_spec(s@, b as int),
{ unimplemented!() }
#[verifier::external_body]
pub fn measure_text_width(s: &str) -> (r: usize) ensures r == width_spec(s@) { unimplemented!() }
/// (R3) `ansi::truncate_str(s, w, tail)` is a `Cow<str>`; only `.to_string()` is taken of it
#[verifier::external_body]
pub struct VTruncated { _p: u8 }
impl VTruncated {
    pub uninterp spec fn text(&self) -> Seq<char>;
    #[verifier::external_body]
    pub fn to_string(&self) -> (r: String) ensures r@ == self.text() { unimplemented!() }
}
#[verifier::external_body]
pub fn verif_truncate_str(s: &str, display_width: usize, tail: &str) -> (r: VTruncated)
    ensures r.text() == truncate_spec(s@, display_width, tail@) { unimplemented!() }
#[verifier::external_body]
pub fn strip_ansi_codes(s: &str) -> (r: String) ensures r@ == strip_spec(s@) { unimplemented!() }
pub mod ansi { pub use crate::{measure_text_width, strip_ansi_codes}; }


/// `String::from_utf8` / `String::from_utf8_lossy` (R3): whether the bytes are UTF-8 and what they decode to; uninterpreted
pub uninterp spec fn utf8_spec(b: Seq<u8>) -> Option<Seq<char>>;
pub uninterp spec fn lossy_spec(b: Seq<u8>) -> Seq<char>;
#[verifier::external_body]
pub fn verif_from_utf8(b: &[u8]) -> (r: Result<String, ()>)
    ensures match r { Ok(s) => utf8_spec(b@) == Some(s@), Err(_) => utf8_spec(b@) is None },
{ unimplemented!() }
#[verifier::external_body]
pub fn verif_from_utf8_lossy<'a>(b: &'a [u8]) -> (r: Cow<'a, str>)
    ensures cow_view(&r) == lossy_spec(b@),
{ unimplemented!() }
#[verifier::external_body]
pub fn verif_from_utf8_lossy_owned(b: &[u8]) -> (r: String)
    ensures r@ == lossy_spec(b@),
{ unimplemented!() }
/// utils/round_char_boundary.rs floor_char_boundary (copied from std; unsafe): ASSUMED contract - the largest char boundary <= index
#[verifier::external_body]
pub fn floor_char_boundary(s: &str, index: usize) -> (r: usize)
    ensures r == floor_spec(s@, index), r <= s.spec_bytes().len(), index >= s.spec_bytes().len() ==> r == s.spec_bytes().len(),
{ unimplemented!() }
/// what a line that is not valid UTF-8 becomes: its lossy decoding, cut (without a mark) only by a POSITIVE maximum length
pub open spec fn ingest_lossy_spec(l: Seq<char>, config: &Config) -> Seq<char> {
    if config.max_line_length > 0 { head_spec(l, floor_spec(l, config.max_line_length) as int) } else { l }
}
/// the largest character boundary of s that is <= index (all of s when index is beyond its end)
pub uninterp spec fn floor_spec(s: Seq<char>, index: usize) -> usize;
/// ASSUMED: the whole string is its own prefix
pub broadcast axiom fn axiom_head_whole(s: Seq<char>)
    ensures #[trigger] head_spec(s, encode_utf8(s).len() as int) == s;

/// The only changes `ingest_line_utf8` may make to the raw line: drop the LAST carriage return when
/// nothing visible follows it; then, beyond the maximum length (and not for `@@`/`{` lines), truncate.
/// C08: whether a line is one of the exempt kinds is a matter of its TEXT (what is left when the escape sequences are
/// stripped) - git's colouring puts `ESC[36m` in front of the `@@` of a hunk header.
pub open spec fn cr_removed_spec(r0: Seq<char>) -> Seq<char> {
    match str_rfind_spec(r0, seq!['\r']) {
        Some(i) => if width_spec(tail_spec(r0, i + 1)) == 0 { head_spec(r0, i as int) + tail_spec(r0, i + 1) } else { r0 },
        None => r0,
    }
}
pub open spec fn ingest_raw_spec(r0: Seq<char>, config: &Config) -> Seq<char> {
    let r1 = cr_removed_spec(r0);
    if config.max_line_length > 0 && encode_utf8(r1).len() > config.max_line_length && !is_prefix("@@"@, strip_spec(r1)) && !is_prefix(seq!['{'], strip_spec(r1)) {
        truncate_spec(r1, config.max_line_length, config.truncation_symbol@)
    } else {
        r1
    }
}

impl<'a> StateMachine<'a> {
    //@ fn src/delta.rs StateMachine::ingest_line_utf8
    //@| ensures final(self).raw_line@ == ingest_raw_spec(raw_line@, old(self).config),  // @C04,C01,C08,C09,C14,C16:ingest.raw.line.changes.only.by.cr.removal.or.truncation.and.json.lines.are.never.truncated
    //@|         final(self).line@ == strip_spec(final(self).raw_line@),  // @C08:ingest.line.is.the.stripped.raw.line
    //@|         final(self).state == old(self).state && final(self).painter == old(self).painter && final(self).config == old(self).config,
    //@|         final(self).source == old(self).source && final(self).minus_line_counter == old(self).minus_line_counter,
    //@rewrite <<<ansi::measure_text_width(&self.raw_line[cr_index + 1..])>>> => <<<ansi::measure_text_width(verif_str_from(&self.raw_line, cr_index + 1))>>>
    //@rewrite <<<&self.raw_line[..cr_index],>>> => <<<verif_str_to(&self.raw_line, cr_index),>>>
    //@rewrite <<<&self.raw_line[cr_index + 1..] )>>> => <<<verif_str_from(&self.raw_line, cr_index + 1) )>>>
    //@rewrite <<<ansi::truncate_str(>>> => <<<verif_truncate_str(>>>
    //@before <<<if let Some(cr_index)>>>| proof { reveal_strlit(""); }

    // ---- ingest_line: the bytes of an input line; a line that is not valid UTF-8 is decoded lossily
    //@ fn src/delta.rs StateMachine::ingest_line
    //@| ensures final(self).state == old(self).state && final(self).painter == old(self).painter && final(self).config == old(self).config,
    //@|         final(self).source == old(self).source && final(self).minus_line_counter == old(self).minus_line_counter,
    //@|         utf8_spec(raw_line_bytes@) matches Some(l) ==> final(self).raw_line@ == ingest_raw_spec(l, old(self).config) && final(self).line@ == strip_spec(final(self).raw_line@),
    //@|         utf8_spec(raw_line_bytes@) is None ==> final(self).raw_line@ == ingest_raw_spec(lossy_spec(raw_line_bytes@), old(self).config) && final(self).line@ == strip_spec(final(self).raw_line@),  // @C01,C03,C04,C08:a.line.that.is.not.utf8.is.treated.like.any.other.once.its.invalid.bytes.are.replaced.shortened.only.with.the.truncation.mark
    //@rewrite <<<String::from_utf8(raw_line_bytes.to_vec())>>> => <<<verif_from_utf8(raw_line_bytes)>>>
    //@rewrite <<<String::from_utf8_lossy(raw_line_bytes).into_owned()>>> => <<<verif_from_utf8_lossy_owned(raw_line_bytes)>>>
    //@rewrite <<<String::from_utf8_lossy(raw_line_bytes)>>> => <<<verif_from_utf8_lossy(raw_line_bytes)>>>
    //@rewrite <<<raw_line[..truncated_len].to_string()>>> => <<<verif_str_to(&raw_line, truncated_len).to_string()>>>
}

} // verus!
fn main() {}
