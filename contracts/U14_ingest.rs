//@ include prelude/header.rs
//@ unit U14 delta.rs ingest_line_utf8: what may change in an input line before any handler sees it (C04, C08, C09, C01)
verus! {
//@ set CONFIG_EXTRA ,max_line_length,truncation_symbol
//@ include prelude/sm_env.rs

// ---- uninterpreted string functions: only the identity of their arguments matters ----
/// `&s[a..]` and `&s[..b]` as functions of the string and the byte offset (this vstd build gives
/// no postcondition for str range indexing, so the two slices are abstracted, rule R3)
pub uninterp spec fn tail_spec(s: Seq<char>, a: int) -> Seq<char>;
pub uninterp spec fn head_spec(s: Seq<char>, b: int) -> Seq<char>;
/// `ansi::measure_text_width`, `ansi::truncate_str`, `ansi::strip_ansi_codes`
pub uninterp spec fn width_spec(s: Seq<char>) -> usize;
pub uninterp spec fn truncate_spec(s: Seq<char>, max: usize, symbol: Seq<char>) -> Seq<char>;
pub uninterp spec fn strip_spec(s: Seq<char>) -> Seq<char>;

#[verifier::external_body]
pub fn verif_str_from(s: &str, a: usize) -> (r: &str)
    requires a <= s.spec_bytes().len(),  // @C03:ingest.slice.from.in.bounds
    ensures r@ == tail_spec(s@, a as int),
{ unimplemented!() }
#[verifier::external_body]
pub fn verif_str_to(s: &str, b: usize) -> (r: &str)
    requires b <= s.spec_bytes().len(),  // @C03:ingest.slice.to.in.bounds
    ensures r@ == head_spec(s@, b as int),
{ unimplemented!() }
#[verifier::external_body]
pub fn measure_text_width(s: &str) -> (r: usize) ensures r == width_spec(s@) { unimplemented!() }
#[verifier::external_body]
pub fn verif_truncate_str_to_string(s: &str, display_width: usize, tail: &str) -> (r: String)
    ensures r@ == truncate_spec(s@, display_width, tail@) { unimplemented!() }
#[verifier::external_body]
pub fn strip_ansi_codes(s: &str) -> (r: String) ensures r@ == strip_spec(s@) { unimplemented!() }
pub mod ansi { pub use crate::{measure_text_width, strip_ansi_codes}; }

/// The only changes `ingest_line_utf8` may make to the raw line: drop the LAST carriage return when
/// nothing visible follows it; then, beyond the maximum length (and not for `@@`/`{` lines), truncate.
pub open spec fn cr_removed_spec(r0: Seq<char>) -> Seq<char> {
    match str_rfind_spec(r0, seq!['\r']) {
        Some(i) => if width_spec(tail_spec(r0, i + 1)) == 0 { head_spec(r0, i as int) + tail_spec(r0, i + 1) } else { r0 },
        None => r0,
    }
}
pub open spec fn ingest_raw_spec(r0: Seq<char>, config: &Config) -> Seq<char> {
    let r1 = cr_removed_spec(r0);
    if config.max_line_length > 0 && encode_utf8(r1).len() > config.max_line_length && !is_prefix("@@"@, r1) && !is_prefix(seq!['{'], r1) {
        truncate_spec(r1, config.max_line_length, config.truncation_symbol@)
    } else {
        r1
    }
}

impl<'a> StateMachine<'a> {
    //@ fn src/delta.rs StateMachine::ingest_line_utf8
    //@| ensures final(self).raw_line@ == ingest_raw_spec(raw_line@, old(self).config),  // @C04,C01,C08,C09,C14,C16:ingest.raw.line.changes.only.by.cr.removal.or.truncation.and.json.lines.are.never.truncated
    //@|         final(self).line@ == strip_spec(final(self).raw_line@),  // @C08:ingest.line.is.the.stripped.raw.line
    //@|         final(self).state == old(self).state && final(self).painter == old(self).painter && final(self).config == old(self).config,
    //@rewrite <<<ansi::measure_text_width(&self.raw_line[cr_index + 1..])>>> => <<<ansi::measure_text_width(verif_str_from(&self.raw_line, cr_index + 1))>>>
    //@rewrite <<<&self.raw_line[..cr_index],>>> => <<<verif_str_to(&self.raw_line, cr_index),>>>
    //@rewrite <<<&self.raw_line[cr_index + 1..] )>>> => <<<verif_str_from(&self.raw_line, cr_index + 1) )>>>
    //@rewrite <<<ansi::truncate_str( &self.raw_line, self.config.max_line_length, &self.config.truncation_symbol, ) .to_string()>>> => <<<verif_truncate_str_to_string(&self.raw_line, self.config.max_line_length, &self.config.truncation_symbol)>>>
    //@before <<<if let Some(cr_index)>>>| proof { reveal_strlit(""); }
}

} // verus!
fn main() {}
