//@ include prelude/header.rs
//@ unit U45 edits.rs tokenize: the tokens of a line spell the line - nothing between two words is lost or doubled (C06, C01)
verus! {
//@ include prelude/base.rs
//@ include prelude/std_assumed.rs
//@ broadcast vax::vax_group vstd::utf8::group_utf8_lib vstd::string::group_string_axioms lemma_toks_push
#[verifier::external_body]
pub struct Regex { _p: u8 }
/// one match of the word regex: a byte range of the line
pub struct Match { pub a: usize, pub b: usize }
impl Match {
    pub fn start(&self) -> (r: usize) ensures r == self.a { self.a }
    pub fn end(&self) -> (r: usize) ensures r == self.b { self.b }
}
/// what `regex.find_iter(line)` yields (crate regex): "successive non-overlapping matches" - byte ranges of the line in
/// increasing order, each on character boundaries. ASSUMED.
pub open spec fn matches_wf(ms: Seq<Match>, bytes: Seq<u8>) -> bool {
    &&& forall|j: int| 0 <= j < ms.len() ==> (#[trigger] ms[j]).a <= ms[j].b <= bytes.len() && is_char_boundary(bytes, ms[j].a as int) && is_char_boundary(bytes, ms[j].b as int)
    &&& forall|j: int, k: int| 0 <= j < k < ms.len() ==> (#[trigger] ms[j]).b <= (#[trigger] ms[k]).a
}
/// (R3) `regex.find_iter(line)`: the iterator is replaced by the list of what it yields (the loop body is unchanged)
#[verifier::external_body]
pub fn verif_find_all(regex: &Regex, line: &str) -> (r: Vec<Match>) ensures matches_wf(r@, line.spec_bytes()) { unimplemented!() }
/// the bytes a list of tokens spells
pub open spec fn toks_bytes(v: Seq<&str>) -> Seq<u8> decreases v.len() {
    if v.len() == 0 { Seq::empty() } else { toks_bytes(v.drop_last()) + v.last().spec_bytes() }
}
pub broadcast proof fn lemma_toks_push(v: Seq<&str>, x: &str)
    ensures #[trigger] toks_bytes(v.push(x)) == toks_bytes(v) + x.spec_bytes(),
{ assert(v.push(x).drop_last() =~= v); }
/// (R3) `line[a..b].graphemes(true)` (crate unicode-segmentation): the iterator is replaced by the list of what it yields.
/// ASSUMED: the grapheme clusters of a string are consecutive pieces of it.
#[verifier::external_body]
pub fn verif_graphemes_of<'a>(line: &'a str, a: usize, b: usize) -> (r: Vec<&'a str>)
    requires a <= b <= line.spec_bytes().len(), is_char_boundary(line.spec_bytes(), a as int), is_char_boundary(line.spec_bytes(), b as int),  // @C03:the.text.between.two.words.is.a.slice.of.the.line.on.character.boundaries
    ensures toks_bytes(r@) == line.spec_bytes().subrange(a as int, b as int),
{ unimplemented!() }
/// (R3) `&line[a..b]`
#[verifier::external_body]
pub fn verif_str_slice<'a>(s: &'a str, a: usize, b: usize) -> (r: &'a str)
    requires a <= b <= s.spec_bytes().len(), is_char_boundary(s.spec_bytes(), a as int), is_char_boundary(s.spec_bytes(), b as int),  // @C03:a.word.is.a.slice.of.the.line.on.character.boundaries
    ensures r.spec_bytes() == s.spec_bytes().subrange(a as int, b as int),
{ unimplemented!() }

/// the empty string literal has no bytes
pub proof fn lemma_empty_lit()
    ensures ""@.len() == 0, "".spec_bytes() == Seq::<u8>::empty(),
{
    reveal_strlit("");
    broadcast use vstd::utf8::group_utf8_lib, vstd::string::group_string_axioms;
    assert("".spec_bytes() =~= Seq::<u8>::empty());
}
//@ fn src/edits.rs tokenize
//@| ensures toks_bytes(r@) == line.spec_bytes(),  // @C06,C01:the.tokens.of.a.line.spell.the.line.nothing.between.two.words.is.lost.or.doubled
//@|         r@.len() >= 1 && r@[0].spec_bytes().len() == 0,  // @C06:the.first.token.is.the.empty.one.the.alignment.starts.from
//@rewrite <<<for m in regex.find_iter(line) {>>> => <<<let ms = verif_find_all(regex, line); for m in it: ms {>>>
//@rewrite <<<for t in line[offset..m.start()].graphemes(true) {>>> => <<<let gs = verif_graphemes_of(line, offset, m.start()); proof { assert(gs@.subrange(0, 0) =~= Seq::<&str>::empty()); } for t in it2: gs {>>>
//@rewrite <<<for t in line[offset..line.len()].graphemes(true) {>>> => <<<let gs = verif_graphemes_of(line, offset, line.len()); proof { assert(gs@.subrange(0, 0) =~= Seq::<&str>::empty()); } for t in it2: gs {>>>
//@rewriteall <<<&line[m.start()..m.end()]>>> => <<<verif_str_slice(line, m.start(), m.end())>>>
//@before <<<let mut offset = 0;>>>| proof { lemma_empty_lit(); assert(tokens@ =~= Seq::<&str>::empty().push("")); }
//@after#2/2 <<<tokens.push(t); }>>>| proof { assert(gs@.subrange(0, gs@.len() as int) =~= gs@); }
//@after#1/2 <<<tokens.push(t);>>>| proof { assert(gs@.subrange(0, it2.index@ + 1) =~= gs@.subrange(0, it2.index@ as int).push(gs@[it2.index@ as int])); }
//@after#2/2 <<<tokens.push(t);>>>| proof { assert(gs@.subrange(0, it2.index@ + 1) =~= gs@.subrange(0, it2.index@ as int).push(gs@[it2.index@ as int])); }
//@before? <<<tokens.push(verif_str_slice(>>>| proof { assert(gs@.subrange(0, gs@.len() as int) =~= gs@); }
//@before? <<<if offset == 0 && m.start() > 0 {>>>| proof { lemma_empty_lit(); }
//@before? <<<if offset < line.len() {>>>| proof { lemma_empty_lit(); }
//@before <<<tokens }>>>| proof { if offset < line.spec_bytes().len() { } assert(line.spec_bytes().subrange(0, line.spec_bytes().len() as int) =~= line.spec_bytes()); }
//@loop 1| invariant it.seq() == ms@, matches_wf(ms@, line.spec_bytes()),
//@loop 1|     offset <= line.spec_bytes().len(), is_char_boundary(line.spec_bytes(), offset as int),
//@loop 1|     it.index@ == 0 ==> offset == 0, it.index@ > 0 ==> offset == ms@[it.index@ - 1].b,
//@loop 1|     /* @C06,C01:tokenize.the.tokens.so.far.spell.the.line.up.to.the.end.of.the.last.word */ toks_bytes(tokens@) =~= line.spec_bytes().subrange(0, offset as int),
//@loop 1|     tokens@.len() >= 1 && tokens@[0].spec_bytes().len() == 0,
//@loop 2| invariant it2.seq() == gs@, tokens@.len() >= 1 && tokens@[0].spec_bytes().len() == 0,
//@loop 2|     /* @C06,C01:tokenize.the.text.between.two.words.is.added.piece.by.piece */ toks_bytes(tokens@) =~= line.spec_bytes().subrange(0, offset as int) + toks_bytes(gs@.subrange(0, it2.index@ as int)),
//@loop 3| invariant it2.seq() == gs@, tokens@.len() >= 1 && tokens@[0].spec_bytes().len() == 0,
//@loop 3|     /* @C06,C01:tokenize.the.text.after.the.last.word.is.added.piece.by.piece */ toks_bytes(tokens@) =~= line.spec_bytes().subrange(0, offset as int) + toks_bytes(gs@.subrange(0, it2.index@ as int)),

} // verus!
fn main() {}
