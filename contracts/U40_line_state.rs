//@ include prelude/header.rs
//@ unit U40 handlers/hunk.rs new_line_state / maybe_raw_line: a line of a hunk is a removed, an unchanged or an added line by its marker column(s) (C01); its raw text is kept only when it carries colours other than git's own (C08)
verus! {
//@ set CONFIG_EXTRA ,inspect_raw_lines,git_minus_style,git_plus_style
//@ include prelude/sm_env.rs
//@ include prelude/line_state.rs
//@ broadcast vax::vax_group rax::rax_group r2x_group otx_group lemma_no_styles vstd::utf8::group_utf8_lib vstd::string::group_string_axioms

impl DiffType {
    //@ fn src/delta.rs DiffType::n_parents spec=delta.n_parents
}
//@ stub src/handlers/hunk.rs is_word_diff spec=hunk.is_word_diff

#[verifier::external_body]
pub fn line_has_style_other_than(line: &str, styles: &[Style]) -> (r: bool) ensures r == has_style_other_than(line@, styles@) { unimplemented!() }
#[verifier::external_body]
pub fn prepare_raw_line(raw_line: &str, prefix_length: usize, config: &Config) -> (r: String) ensures r@ == prepare_raw_spec(raw_line@, prefix_length, config) { unimplemented!() }
/// (R3) `*style::GIT_DEFAULT_MINUS_STYLE` / `*style::GIT_DEFAULT_PLUS_STYLE`
#[verifier::external_body]
pub fn verif_git_default_minus_style() -> (r: Style) ensures r == git_default_minus_style() { unimplemented!() }
#[verifier::external_body]
pub fn verif_git_default_plus_style() -> (r: Style) ensures r == git_default_plus_style() { unimplemented!() }


//@ fn src/handlers/hunk.rs maybe_raw_line
//@| ensures opt_view(r) == maybe_raw_spec(raw_line@, state_style_is_raw, n_parents, non_raw_styles@, config),  // @C08:the.raw.text.of.a.hunk.line.is.kept.only.when.it.carries.colours.other.than.gits.own.or.its.style.is.raw

// ---------------------------------------------------------------- new_line_state
/// (R3) `s.chars().next()`
#[verifier::external_body]
pub fn verif_first_char(s: &str) -> (r: Option<char>) ensures r == first_char(s@) { unimplemented!() }
/// (R3) `s.chars().find(|c| c == &'-' || c == &'+')` / `s.chars().find(|c| c != &' ')`
#[verifier::external_body]
pub fn verif_find_minus_or_plus(s: &str) -> (r: Option<char>) ensures r == first_minus_or_plus(s@) { unimplemented!() }
#[verifier::external_body]
pub fn verif_find_non_space(s: &str) -> (r: Option<char>) ensures r == first_non_space(s@) { unimplemented!() }
/// (R3) `s.get(..n)`: "Returns None if the range is out of bounds or does not lie on character boundaries" (n <= len is an obligation here)
#[verifier::external_body]
pub fn verif_str_get_to<'a>(s: &'a str, n: usize) -> (r: Option<&'a str>)
    requires n <= s.spec_bytes().len(),
    ensures r is Some == is_char_boundary(s.spec_bytes(), n as int),
            r matches Some(p) ==> p.spec_bytes() == s.spec_bytes().subrange(0, n as int),
{ unimplemented!() }


//@ fn src/handlers/hunk.rs new_line_state spec=hunk.new_line_state
//@|         !word_diff() && hunk_dt(*prev_state) is Combined ==> (r matches Some(s) ==> n_parents_spec(hunk_dt(s)) == n_parents_spec(hunk_dt(*prev_state))),  // @C01:the.number.of.marker.columns.of.a.combined.hunk.stays.the.same.from.line.to.line
//@before <<<let prefix_char = match>>>| proof { vstd::utf8::encode_utf8_decode_utf8(prefix@); lemma_first_minus_or_plus(prefix@); }
//@rewrite <<<new_line.chars().next()>>> => <<<verif_first_char(new_line)>>>
//@rewrite <<<new_line.get(..min(n_parents, new_line.len()))>>> => <<<verif_str_get_to(new_line, min(n_parents, new_line.len()))>>>
//@rewrite <<<prefix.chars().find(|c| c == &'-' || c == &'+')>>> => <<<verif_find_minus_or_plus(prefix)>>>
//@rewrite <<<prefix.chars().find(|c| c != &' ')>>> => <<<verif_find_non_space(prefix)>>>
//@rewrite <<<*style::GIT_DEFAULT_MINUS_STYLE>>> => <<<verif_git_default_minus_style()>>>
//@rewrite <<<*style::GIT_DEFAULT_PLUS_STYLE>>> => <<<verif_git_default_plus_style()>>>
//@rewrite <<<let maybe_minus_raw_line = || {>>> => <<<let maybe_minus_raw_line = || -> (o: Option<String>) ensures opt_view(o) == raw_for('-', new_raw_line@, n_parents_spec(diff_type), config) {>>>
//@rewrite <<<let maybe_zero_raw_line = || {>>> => <<<let maybe_zero_raw_line = || -> (o: Option<String>) ensures opt_view(o) == raw_for(' ', new_raw_line@, n_parents_spec(diff_type), config) {>>>
//@rewrite <<<let maybe_plus_raw_line = || {>>> => <<<let maybe_plus_raw_line = || -> (o: Option<String>) ensures opt_view(o) == raw_for('+', new_raw_line@, n_parents_spec(diff_type), config) {>>>

} // verus!
fn main() {}
