//@ include prelude/header.rs
//@ unit U13 handlers/grep.rs: make_style_sections (C03/C16: offsets reported by `rg --json` never make the slicing panic)
verus! {
//@ include prelude/base.rs
//@ include prelude/std_assumed.rs
//@ include prelude/ansi_term.rs
//@ include prelude/style.rs
//@ broadcast vax::vax_group vstd::utf8::group_utf8_lib vstd::string::group_string_axioms

pub type LineSections<'a, S> = Vec<(S, &'a str)>;
pub enum StyleSectionSpecifier<'l> {
    Style(Style),
    StyleSections(LineSections<'l, Style>),
}

/// `str::is_char_boundary` (R3; vstd's own spec omits the documented "Returns false if index is greater than self.len()").
#[verifier::external_body]
pub fn verif_is_char_boundary(s: &str, index: usize) -> (r: bool)
    ensures r == (index <= s.spec_bytes().len() && is_char_boundary(s.spec_bytes(), index as int))
{ unimplemented!() }

//@ fn src/handlers/grep.rs make_style_sections spec=grep.make_style_sections
//@rewrite <<<!line.is_char_boundary(start)>>> => <<<!verif_is_char_boundary(line, start)>>>
//@rewrite <<<!line.is_char_boundary(end)>>> => <<<!verif_is_char_boundary(line, end)>>>
//@rewrite <<<for (start_, end_) in submatches {>>> => <<<proof { is_char_boundary_start_end_of_seq(line.spec_bytes()); } for (start_, end_) in it: submatches {>>>
//@loop 1| invariant curr <= line.spec_bytes().len(), /* @C03,C16:mss.cursor.stays.on.a.char.boundary.inside.the.line */ is_char_boundary(line.spec_bytes(), curr as int),

} // verus!
fn main() {}
