//@ include prelude/header.rs
//@ unit U13 handlers/grep.rs: make_style_sections (C03/C16: offsets reported by `rg --json` never make the slicing panic)
verus! {
//@ include prelude/base.rs
//@ include prelude/std_assumed.rs
//@ include prelude/ansi_term.rs
//@ include prelude/style.rs
//@ broadcast vax::vax_group vstd::utf8::group_utf8_lib vstd::string::group_string_axioms

pub type LineSections<'a, S> = Vec<(S, &'a str)>;
pub enum StyleSectionSpecifier<'l> {
    Style(Style),
    StyleSections(LineSections<'l, Style>),
}

/// `str::is_char_boundary` (R3; vstd's own spec omits the documented "Returns false if index is greater than self.len()").
#[verifier::external_body]
pub fn verif_is_char_boundary(s: &str, index: usize) -> (r: bool)
    ensures r == (index <= s.spec_bytes().len() && is_char_boundary(s.spec_bytes(), index as int))
{ unimplemented!() }

//@ fn src/handlers/grep.rs make_style_sections spec=grep.make_style_sections
//@rewrite <<<!line.is_char_boundary(start)>>> => <<<!verif_is_char_boundary(line, start)>>>
//@rewrite <<<!line.is_char_boundary(end)>>> => <<<!verif_is_char_boundary(line, end)>>>
//@rewrite <<<for (start_, end_) in submatches {>>> => <<<proof { is_char_boundary_start_end_of_seq(line.spec_bytes()); } for (start_, end_) in it: submatches {>>>
//@loop 1| invariant curr <= line.spec_bytes().len(), /* @C03,C16:mss.cursor.stays.on.a.char.boundary.inside.the.line */ is_char_boundary(line.spec_bytes(), curr as int),

// ---------------------------------------------------------------- GrepLine::expand_tabs: the `shift` closure (F09)
/// ASSUMED contract of `<[T]>::partition_point` on a slice that is partitioned by the predicate:
/// "Returns the index of the partition point according to the given predicate (the index of the first element of the second partition)."
pub assume_specification<T, P: FnMut(&T) -> bool>[ <[T]>::partition_point::<P> ](s: &[T], pred: P) -> (r: usize)
    requires forall|x: &T| #[trigger] pred.requires((x,)),
    ensures
        r <= s@.len(),
        forall|i: int| 0 <= i < r ==> pred.ensures((&#[trigger] s@[i],), true),
        forall|i: int| r <= i < s@.len() ==> pred.ensures((&#[trigger] s@[i],), false);
/// tab positions are collected by increasing byte offset
pub open spec fn increasing(t: Seq<usize>) -> bool { forall|i: int, j: int| 0 <= i < j < t.len() ==> t[i] < t[j] }
/// number of tabs at byte offsets strictly before pos
pub open spec fn tabs_before(t: Seq<usize>, pos: usize, n: int) -> bool {
    0 <= n <= t.len() && (forall|i: int| 0 <= i < n ==> #[trigger] t[i] < pos) && (forall|i: int| n <= i < t.len() ==> #[trigger] t[i] >= pos)
}
//@ region src/handlers/grep.rs GrepLine::expand_tabs
//@sig pub fn expand_tabs_shift(tab_positions: &Vec<usize>, extra_per_tab: usize, pos: usize) -> (r: usize)
//@from <<<let n_tabs_before = tab_positions.partition_point(>>>
//@to <<<pos.saturating_add(n_tabs_before * extra_per_tab)>>>
//@rewrite <<<|tab| *tab < pos>>> => <<<|tab: &usize| -> (b: bool) ensures b == (*tab < pos) { *tab < pos }>>>
//@| requires increasing(tab_positions@), tab_positions@.len() * extra_per_tab <= usize::MAX,
//@| ensures exists|n: int| #[trigger] tabs_before(tab_positions@, pos, n) && r == (if pos + n * extra_per_tab <= usize::MAX { (pos + n * extra_per_tab) as usize } else { usize::MAX }),  // @C16:an.offset.moves.right.by.the.growth.of.the.tabs.strictly.before.it
//@before <<<pos.saturating_add(>>>| proof { assert(tabs_before(tab_positions@, pos, n_tabs_before as int)); assert(n_tabs_before * extra_per_tab <= tab_positions@.len() * extra_per_tab) by(nonlinear_arith) requires n_tabs_before <= tab_positions@.len(); }

} // verus!
fn main() {}
