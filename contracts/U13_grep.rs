//@ include prelude/header.rs
//@ unit U13 handlers/grep.rs: make_style_sections (C03/C16: offsets reported by `rg --json` never make the slicing panic)
verus! {
//@ include prelude/base.rs
//@ include prelude/std_assumed.rs
//@ include prelude/ansi_term.rs
//@ include prelude/style.rs
//@ broadcast vax::vax_group vstd::utf8::group_utf8_lib vstd::string::group_string_axioms lemma_sec_push_total lemma_sec_push_spelled lemma_sec_push_spans

pub type LineSections<'a, S> = Vec<(S, &'a str)>;
pub enum StyleSectionSpecifier<'l> {
    Style(Style),
    StyleSections(LineSections<'l, Style>),
}

/// `str::is_char_boundary` (R3; vstd's own spec omits the documented "Returns false if index is greater than self.len()").
#[verifier::external_body]
pub fn verif_is_char_boundary(s: &str, index: usize) -> (r: bool)
    ensures r == (index <= s.spec_bytes().len() && is_char_boundary(s.spec_bytes(), index as int))
{ unimplemented!() }

/// (R3) `&s[a..b]` / `&s[a..]`: "Returns a subslice of str ... Panics if begin or end does not point to the starting byte offset of a
/// character, or if begin > end, or if end > len" (this vstd build checks the precondition of str range indexing but gives its
/// result no content)
#[verifier::external_body]
pub fn verif_str_slice<'a>(s: &'a str, a: usize, b: usize) -> (r: &'a str)
    requires a <= b <= s.spec_bytes().len(), is_char_boundary(s.spec_bytes(), a as int), is_char_boundary(s.spec_bytes(), b as int),  // @C03:a.slice.of.the.line.lies.inside.it.and.on.character.boundaries
    ensures r.spec_bytes() == s.spec_bytes().subrange(a as int, b as int),
{ unimplemented!() }
#[verifier::external_body]
pub fn verif_str_tail<'a>(s: &'a str, a: usize) -> (r: &'a str)
    requires a <= s.spec_bytes().len(), is_char_boundary(s.spec_bytes(), a as int),  // @C03:the.rest.of.the.line.starts.inside.it.and.on.a.character.boundary
    ensures r.spec_bytes() == s.spec_bytes().subrange(a as int, s.spec_bytes().len() as int),
{ unimplemented!() }

/// the bytes a list of sections spells, their total length, and the byte ranges of the sections painted in style `m`
pub open spec fn sec_total(secs: Seq<(Style, &str)>) -> nat decreases secs.len() {
    if secs.len() == 0 { 0 } else { sec_total(secs.drop_last()) + secs.last().1.spec_bytes().len() }
}
pub open spec fn sec_spelled(secs: Seq<(Style, &str)>) -> Seq<u8> decreases secs.len() {
    if secs.len() == 0 { Seq::empty() } else { sec_spelled(secs.drop_last()) + secs.last().1.spec_bytes() }
}
pub open spec fn sec_spans(secs: Seq<(Style, &str)>, m: Style) -> Seq<(int, int)> decreases secs.len() {
    if secs.len() == 0 { Seq::empty() } else {
        let p = sec_spans(secs.drop_last(), m);
        if secs.last().0 == m { p.push((sec_total(secs.drop_last()) as int, sec_total(secs) as int)) } else { p }
    }
}
pub broadcast proof fn lemma_sec_push_total(secs: Seq<(Style, &str)>, x: (Style, &str))
    ensures #[trigger] sec_total(secs.push(x)) == sec_total(secs) + x.1.spec_bytes().len(),
{ assert(secs.push(x).drop_last() =~= secs); }
pub broadcast proof fn lemma_sec_push_spelled(secs: Seq<(Style, &str)>, x: (Style, &str))
    ensures #[trigger] sec_spelled(secs.push(x)) == sec_spelled(secs) + x.1.spec_bytes(),
{ assert(secs.push(x).drop_last() =~= secs); }
pub broadcast proof fn lemma_sec_push_spans(secs: Seq<(Style, &str)>, x: (Style, &str), m: Style)
    ensures #[trigger] sec_spans(secs.push(x), m) == (if x.0 == m { sec_spans(secs, m).push((sec_total(secs) as int, (sec_total(secs) + x.1.spec_bytes().len()) as int)) } else { sec_spans(secs, m) }),
{ assert(secs.push(x).drop_last() =~= secs); }
/// the submatches of an `rg --json` record as rg reports them: byte ranges of the line, on character boundaries, in order, not overlapping
pub open spec fn subs_wf(subs: Seq<(usize, usize)>, bytes: Seq<u8>) -> bool {
    &&& forall|j: int| 0 <= j < subs.len() ==> (#[trigger] subs[j]).0 <= subs[j].1 <= bytes.len() && is_char_boundary(bytes, subs[j].0 as int) && is_char_boundary(bytes, subs[j].1 as int)
    &&& forall|j: int, k: int| 0 <= j < k < subs.len() ==> (#[trigger] subs[j]).1 <= (#[trigger] subs[k]).0
}
pub open spec fn subs_int(subs: Seq<(usize, usize)>, n: int) -> Seq<(int, int)> { Seq::new(n as nat, |j: int| (subs[j].0 as int, subs[j].1 as int)) }

//@ fn src/handlers/grep.rs make_style_sections spec=grep.make_style_sections
//@rewrite <<<&line[curr..start]>>> => <<<verif_str_slice(line, curr, start)>>>
//@rewrite <<<&line[start..end]>>> => <<<verif_str_slice(line, start, end)>>>
//@rewrite <<<&line[curr..]>>> => <<<verif_str_tail(line, curr)>>>
//@loop 1| invariant /* @C16:mss.the.sections.so.far.are.as.long.as.the.cursor.is.far */ sec_total(sections@) == curr, /* @C16:mss.the.sections.so.far.spell.the.line.up.to.the.cursor */ sec_spelled(sections@) == line.spec_bytes().subrange(0, curr as int),
//@loop 1|     it.seq().len() == submatches@.len(), forall|j: int| 0 <= j < it.seq().len() ==> *(#[trigger] it.seq()[j]) == submatches@[j],
//@loop 1|     /* @C16:mss.the.highlighted.spans.so.far.are.the.submatches.seen.so.far */ match_style != non_match_style && subs_wf(submatches@, line.spec_bytes()) ==> sec_spans(sections@, match_style) =~= subs_int(submatches@, it.index@ as int) && (it.index@ > 0 ==> curr == submatches@[it.index@ - 1].1) && (it.index@ == 0 ==> curr == 0),
//@rewrite <<<!line.is_char_boundary(start)>>> => <<<!verif_is_char_boundary(line, start)>>>
//@rewrite <<<!line.is_char_boundary(end)>>> => <<<!verif_is_char_boundary(line, end)>>>
//@rewrite <<<for (start_, end_) in submatches {>>> => <<<proof { is_char_boundary_start_end_of_seq(line.spec_bytes()); } for (start_, end_) in it: submatches {>>>
//@loop 1|     curr <= line.spec_bytes().len(), /* @C03,C16:mss.cursor.stays.on.a.char.boundary.inside.the.line */ is_char_boundary(line.spec_bytes(), curr as int),

// ---------------------------------------------------------------- GrepLine::expand_tabs: the `shift` closure (F09)
/// ASSUMED contract of `<[T]>::partition_point` on a slice that is partitioned by the predicate:
/// "Returns the index of the partition point according to the given predicate (the index of the first element of the second partition)."
pub assume_specification<T, P: FnMut(&T) -> bool>[ <[T]>::partition_point::<P> ](s: &[T], pred: P) -> (r: usize)
    requires forall|x: &T| #[trigger] pred.requires((x,)),
    ensures
        r <= s@.len(),
        forall|i: int| 0 <= i < r ==> pred.ensures((&#[trigger] s@[i],), true),
        forall|i: int| r <= i < s@.len() ==> pred.ensures((&#[trigger] s@[i],), false);
/// tab positions are collected by increasing byte offset
pub open spec fn increasing(t: Seq<usize>) -> bool { forall|i: int, j: int| 0 <= i < j < t.len() ==> t[i] < t[j] }
/// number of tabs at byte offsets strictly before pos
pub open spec fn tabs_before(t: Seq<usize>, pos: usize, n: int) -> bool {
    0 <= n <= t.len() && (forall|i: int| 0 <= i < n ==> #[trigger] t[i] < pos) && (forall|i: int| n <= i < t.len() ==> #[trigger] t[i] >= pos)
}
//@ region src/handlers/grep.rs GrepLine::expand_tabs
//@sig pub fn expand_tabs_shift(tab_positions: &Vec<usize>, extra_per_tab: usize, pos: usize) -> (r: usize)
//@from <<<let n_tabs_before = tab_positions.partition_point(>>>
//@to <<<pos.saturating_add(n_tabs_before * extra_per_tab)>>>
//@rewrite <<<|tab| *tab < pos>>> => <<<|tab: &usize| -> (b: bool) ensures b == (*tab < pos) { *tab < pos }>>>
//@| requires increasing(tab_positions@), tab_positions@.len() * extra_per_tab <= usize::MAX,
//@| ensures exists|n: int| #[trigger] tabs_before(tab_positions@, pos, n) && r == (if pos + n * extra_per_tab <= usize::MAX { (pos + n * extra_per_tab) as usize } else { usize::MAX }),  // @C16:an.offset.moves.right.by.the.growth.of.the.tabs.strictly.before.it
//@before <<<pos.saturating_add(>>>| proof { assert(tabs_before(tab_positions@, pos, n_tabs_before as int)); assert(n_tabs_before * extra_per_tab <= tab_positions@.len() * extra_per_tab) by(nonlinear_arith) requires n_tabs_before <= tab_positions@.len(); }

} // verus!
fn main() {}
