// ---- prelude/style.rs : delta's Style types, extracted from /repo on every run (needs prelude/ansi_term.rs) ----
// `Structural` (vstd) makes exec `==` on these plain-data types mean spec equality; the real code
// derives PartialEq on them (field-wise comparison), which is the same relation.
//@ type src/style.rs DecorationStyle derives=Clone,Copy,PartialEq,Eq,Structural
//@ type src/style.rs Style derives=Clone,Copy,PartialEq,Eq,Structural
