// ---- prelude/render2.rs : needs the extracted `Painter` and `State` types ----
pub open spec fn texts(v: Seq<(String, State)>) -> Seq<Seq<char>> { Seq::new(v.len(), |i: int| v[i].0@) }
/// Everything rendered so far: already written + still in the output buffer.
pub open spec fn rendered(p: &Painter) -> Seq<Seq<char>> { hist_lines(p.writer.hist()) + lines_of(p.output_buffer@) }
/// Prepared lines waiting in the minus/plus buffers, in the order in which they will be rendered.
pub open spec fn pending(p: &Painter) -> Seq<Seq<char>> { texts(p.minus_lines@) + texts(p.plus_lines@) }
pub open spec fn all_lines(p: &Painter) -> Seq<Seq<char>> { rendered(p) + pending(p) }

/// `DiffType::n_parents` as a function (its `Combined(Unknown, _)` arm is `delta_unreachable`).
pub open spec fn n_parents_spec(d: DiffType) -> usize {
    match d {
        DiffType::Unified => 1usize,
        DiffType::Combined(MergeParents::Number(n), _) => n,
        DiffType::Combined(MergeParents::Prefix(_, n), _) => n,
        DiffType::Combined(MergeParents::Unknown, _) => 0usize,
    }
}
pub open spec fn diff_type_known(d: DiffType) -> bool { !(d matches DiffType::Combined(MergeParents::Unknown, _)) }
pub open spec fn state_diff_type_known(s: State) -> bool {
    match s {
        State::HunkMinus(d, _) => diff_type_known(d),
        State::HunkZero(d, _) => diff_type_known(d),
        State::HunkPlus(d, _) => diff_type_known(d),
        _ => true,
    }
}
/// Whether the calling process asked for a word diff (`is_word_diff()`); fixed for the whole run.
pub uninterp spec fn word_diff() -> bool;
/// Result of `tabs::expand(line, tab_cfg)`.
pub uninterp spec fn expand_spec(line: Seq<char>, tab_cfg: &TabCfg) -> Seq<char>;

pub broadcast proof fn lemma_texts_push(v: Seq<(String, State)>, x: (String, State))
    ensures #[trigger] texts(v.push(x)) == texts(v).push(x.0@)
{
    assert(texts(v.push(x)) =~= texts(v).push(x.0@));
}
pub broadcast proof fn lemma_texts_empty(v: Seq<(String, State)>)
    ensures v.len() == 0 ==> #[trigger] texts(v) == Seq::<Seq<char>>::empty()
{
    if v.len() == 0 { assert(texts(v) =~= Seq::<Seq<char>>::empty()); }
}
pub broadcast group r2x_group { lemma_texts_push, lemma_texts_empty }
