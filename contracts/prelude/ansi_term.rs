// ---- prelude/ansi_term.rs : mirror of the plain data types of the dependency ansi_term 0.12.1 ----
// (src/style.rs of the crate: `Style` and `Colour`, re-exported as `Color`).  Trusted: field for
// field copies, no behaviour.  `ANSIGenericString` is opaque; its Display output is uninterpreted.
// (Declared at the crate root and re-exported through `mod ansi_term`: this Verus build crashes on
// `derive(Structural)` inside a nested module.)
#[derive(Clone, Copy, PartialEq, Eq, Structural)]
pub struct AtStyle {
    pub foreground: Option<AtColour>,
    pub background: Option<AtColour>,
    pub is_bold: bool,
    pub is_dimmed: bool,
    pub is_italic: bool,
    pub is_underline: bool,
    pub is_blink: bool,
    pub is_reverse: bool,
    pub is_hidden: bool,
    pub is_strikethrough: bool,
}
#[derive(Clone, Copy, PartialEq, Eq, Structural)]
pub enum AtColour {
    Black, Red, Green, Yellow, Blue, Purple, Cyan, White,
    Fixed(u8),
    RGB(u8, u8, u8),
}
#[verifier::external_body]
#[verifier::reject_recursive_types(S)]
pub struct AtANSIGenericString<'a, S: 'a + ToOwned + ?Sized> { _p: std::marker::PhantomData<&'a S> }
/// ansi_term's `Style::prefix()` / `suffix()`: the escape sequences that switch a style on / off, as `Display` values.
/// Their text is uninterpreted: code that assembles a styled string from them by hand (instead of `paint`) gets no
/// guarantee from these contracts.
pub uninterp spec fn at_prefix_text(style: AtStyle) -> Seq<char>;
pub uninterp spec fn at_suffix_text(style: AtStyle) -> Seq<char>;
#[verifier::external_body]
pub struct AtFix { _p: u8 }
impl AtFix {
    pub uninterp spec fn text(&self) -> Seq<char>;
    #[verifier::external_body]
    pub fn to_string(&self) -> (r: String) ensures r@ == self.text() { unimplemented!() }
}
impl AtStyle {
    #[verifier::external_body]
    pub fn prefix(self) -> (r: AtFix) ensures r.text() == at_prefix_text(self) { unimplemented!() }
    #[verifier::external_body]
    pub fn suffix(self) -> (r: AtFix) ensures r.text() == at_suffix_text(self) { unimplemented!() }
}
pub mod ansi_term {
    pub use crate::AtStyle as Style;
    pub use crate::AtColour as Colour;
    pub use crate::AtColour as Color;
    pub use crate::AtANSIGenericString as ANSIGenericString;
    pub type ANSIString<'a> = crate::AtANSIGenericString<'a, str>;
}
