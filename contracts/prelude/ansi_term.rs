// ---- prelude/ansi_term.rs : mirror of the plain data types of the dependency ansi_term 0.12.1 ----
// (src/style.rs of the crate: `Style` and `Colour`, re-exported as `Color`).  Trusted: field for
// field copies, no behaviour.  `ANSIGenericString` is opaque; its Display output is uninterpreted.
// (Declared at the crate root and re-exported through `mod ansi_term`: this Verus build crashes on
// `derive(Structural)` inside a nested module.)
#[derive(Clone, Copy, PartialEq, Eq, Structural)]
pub struct AtStyle {
    pub foreground: Option<AtColour>,
    pub background: Option<AtColour>,
    pub is_bold: bool,
    pub is_dimmed: bool,
    pub is_italic: bool,
    pub is_underline: bool,
    pub is_blink: bool,
    pub is_reverse: bool,
    pub is_hidden: bool,
    pub is_strikethrough: bool,
}
#[derive(Clone, Copy, PartialEq, Eq, Structural)]
pub enum AtColour {
    Black, Red, Green, Yellow, Blue, Purple, Cyan, White,
    Fixed(u8),
    RGB(u8, u8, u8),
}
#[verifier::external_body]
#[verifier::reject_recursive_types(S)]
pub struct AtANSIGenericString<'a, S: 'a + ToOwned + ?Sized> { _p: std::marker::PhantomData<&'a S> }
pub mod ansi_term {
    pub use crate::AtStyle as Style;
    pub use crate::AtColour as Colour;
    pub use crate::AtColour as Color;
    pub use crate::AtANSIGenericString as ANSIGenericString;
    pub type ANSIString<'a> = crate::AtANSIGenericString<'a, str>;
}
