// ---- prelude/minusplus.rs : MinusPlus<T> and its Index/IndexMut impls, extracted from src/minusplus.rs ----
//@ type src/minusplus.rs MinusPlus
//@ type src/minusplus.rs MinusPlusIndex derives=Clone,Copy,PartialEq,Eq,Structural
pub use MinusPlusIndex::*;
pub use MinusPlusIndex::Minus as Left;
pub use MinusPlusIndex::Plus as Right;
pub type LeftRight<T> = MinusPlus<T>;
pub type PanelSide = MinusPlusIndex;

pub open spec fn mp_get<T>(m: MinusPlus<T>, side: MinusPlusIndex) -> T {
    match side { MinusPlusIndex::Minus => m.minus, MinusPlusIndex::Plus => m.plus }
}

impl<T> std::ops::Index<MinusPlusIndex> for MinusPlus<T> {
    type Output = T;
    //@ fn src/minusplus.rs MinusPlus@Index::index
    //@| ensures *r == mp_get(*self, side),  // @C01,C05,C07:minusplus.index.minus.is.left.plus.is.right
}
impl<T> vstd::std_specs::core::IndexSpecImpl<MinusPlusIndex> for MinusPlus<T> {
    open spec fn index_req(&self, side: &MinusPlusIndex) -> bool { true }
}
impl<T> std::ops::IndexMut<MinusPlusIndex> for MinusPlus<T> {
    //@ fn src/minusplus.rs MinusPlus@IndexMut::index_mut
    //@| ensures *r == mp_get(*old(self), side),  // @C01,C05,C07:minusplus.index_mut.changes.the.named.side.only
    //@|         match side {
    //@|             MinusPlusIndex::Minus => final(self).minus == *final(r) && final(self).plus == old(self).plus,
    //@|             MinusPlusIndex::Plus => final(self).plus == *final(r) && final(self).minus == old(self).minus,
    //@|         },
}
impl<T> MinusPlus<T> {
    //@ fn src/minusplus.rs MinusPlus::new
    //@| ensures r.minus == minus, r.plus == plus,  // @C01,C05,C07:minusplus.new.keeps.the.sides
}
