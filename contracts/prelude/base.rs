// ---- prelude/base.rs : shared, hand-written, TRUSTED vocabulary (DESIGN.md section 3) ----
// Nothing here is code of delta.  It declares (a) the ghost output history of the
// writer, (b) the stand-ins the macro rewrites E4 call, (c) assumed contracts on std.

#[verifier::external_type_specification]
#[verifier::external_body]
pub struct ExIoError(std::io::Error);

#[verifier::external_type_specification]
#[verifier::external_body]
pub struct ExPathBuf(std::path::PathBuf);
#[verifier::external_type_specification]
#[verifier::external_body]
pub struct ExPath(std::path::Path);

/// One event of the ghost output history.  `Flush(s)`: `Painter::emit` wrote the
/// whole output buffer `s`.  `Text(s, ln)`: a direct `write!`/`writeln!` of text `s`
/// (`ln` = followed by a newline).
pub enum Ev {
    Flush(Seq<char>),
    Text(Seq<char>, bool),
}

/// Stand-in for `dyn std::io::Write` (type table E6).  The only thing known about
/// it is its append-only ghost history.
#[verifier::external_body]
pub struct Writer { _p: u8 }
impl Writer {
    pub uninterp spec fn hist(&self) -> Seq<Ev>;
}

/// What `{}` prints for a value (std `Display`).  For `str`-like values it is the
/// string itself (std documents `Display for str` as the identity); for everything
/// else it is an uninterpreted sequence.
pub trait VDisp {
    spec fn vdisp(&self) -> Seq<char>;
}
impl VDisp for str { open spec fn vdisp(&self) -> Seq<char> { self@ } }
impl VDisp for String { open spec fn vdisp(&self) -> Seq<char> { self@ } }
impl<T: VDisp + ?Sized> VDisp for &T { open spec fn vdisp(&self) -> Seq<char> { (**self).vdisp() } }
pub uninterp spec fn cow_view(c: &Cow<'_, str>) -> Seq<char>;
impl VDisp for Cow<'_, str> { open spec fn vdisp(&self) -> Seq<char> { cow_view(self) } }
pub uninterp spec fn usize_decimal(n: usize) -> Seq<char>;
impl VDisp for usize { open spec fn vdisp(&self) -> Seq<char> { usize_decimal(*self) } }
pub uninterp spec fn char_display(c: char) -> Seq<char>;
impl VDisp for char { open spec fn vdisp(&self) -> Seq<char> { seq![*self] } }

/// OD (DESIGN 3.1): nothing is written directly to the writer while rendered text is
/// still waiting in the painter's output buffer.  Inserted by rule E4' at every use
/// of `<painter>.writer` as a value.
pub fn verif_od_check(b: &String)
    requires b@.len() == 0,  // @C01,C04,C10,C11,C14:OD
{}

#[verifier::external_body]
pub fn verif_write_display<T: VDisp + ?Sized>(w: &mut Writer, e: &T, ln: bool) -> (r: std::io::Result<()>)
    ensures r.is_ok() ==> final(w).hist() == old(w).hist().push(Ev::Text(e.vdisp(), ln)),
            r.is_err() ==> final(w).hist() == old(w).hist(),
{ unimplemented!() }

#[verifier::external_body]
pub fn verif_write_str(w: &mut Writer, s: &str, ln: bool) -> (r: std::io::Result<()>)
    ensures r.is_ok() ==> final(w).hist() == old(w).hist().push(Ev::Text(s@, ln)),
            r.is_err() ==> final(w).hist() == old(w).hist(),
{ unimplemented!() }

/// `panic!`, `unreachable!`, `delta_unreachable(..)`: reaching one is a failed obligation.
#[verifier::external_body]
pub fn verif_panic() -> !
    requires false,  // @C03:panic
{ unimplemented!() }

#[verifier::external_body]
pub fn delta_unreachable(message: &str) -> !
    requires false,  // @C03:delta_unreachable
{ unimplemented!() }

/// `fatal(..)`: a clean error exit is allowed (no precondition), control does not return.
#[verifier::external_body]
pub fn fatal<T: VDisp + ?Sized>(errmsg: &T) -> !
{ unimplemented!() }

pub fn verif_assert(c: bool)
    requires c,  // @C03:assert
{}

// ---- format! (rule E4): exact concatenation when every placeholder is `{}`/`{name}` ----
#[verifier::external_body]
pub fn verif_format_opaque() -> (r: String) { unimplemented!() }
#[verifier::external_body]
pub fn verif_fmt0(l0: &str) -> (r: String) ensures r@ == l0@ { unimplemented!() }
#[verifier::external_body]
pub fn verif_fmt1<A: VDisp + ?Sized>(l0: &str, a: &A, l1: &str) -> (r: String)
    ensures r@ == l0@ + a.vdisp() + l1@ { unimplemented!() }
#[verifier::external_body]
pub fn verif_fmt2<A: VDisp + ?Sized, B: VDisp + ?Sized>(l0: &str, a: &A, l1: &str, b: &B, l2: &str) -> (r: String)
    ensures r@ == l0@ + a.vdisp() + l1@ + b.vdisp() + l2@ { unimplemented!() }
#[verifier::external_body]
pub fn verif_fmt3<A: VDisp + ?Sized, B: VDisp + ?Sized, C: VDisp + ?Sized>(l0: &str, a: &A, l1: &str, b: &B, l2: &str, c: &C, l3: &str) -> (r: String)
    ensures r@ == l0@ + a.vdisp() + l1@ + b.vdisp() + l2@ + c.vdisp() + l3@ { unimplemented!() }
#[verifier::external_body]
pub fn verif_fmt4<A: VDisp + ?Sized, B: VDisp + ?Sized, C: VDisp + ?Sized, D: VDisp + ?Sized>(l0: &str, a: &A, l1: &str, b: &B, l2: &str, c: &C, l3: &str, d: &D, l4: &str) -> (r: String)
    ensures r@ == l0@ + a.vdisp() + l1@ + b.vdisp() + l2@ + c.vdisp() + l3@ + d.vdisp() + l4@ { unimplemented!() }
#[verifier::external_body]
pub fn verif_fmt5<A: VDisp + ?Sized, B: VDisp + ?Sized, C: VDisp + ?Sized, D: VDisp + ?Sized, E: VDisp + ?Sized>(l0: &str, a: &A, l1: &str, b: &B, l2: &str, c: &C, l3: &str, d: &D, l4: &str, e: &E, l5: &str) -> (r: String)
    ensures r@ == l0@ + a.vdisp() + l1@ + b.vdisp() + l2@ + c.vdisp() + l3@ + d.vdisp() + l4@ + e.vdisp() + l5@ { unimplemented!() }
#[verifier::external_body]
pub fn verif_fmt6<A: VDisp + ?Sized, B: VDisp + ?Sized, C: VDisp + ?Sized, D: VDisp + ?Sized, E: VDisp + ?Sized, F: VDisp + ?Sized>(l0: &str, a: &A, l1: &str, b: &B, l2: &str, c: &C, l3: &str, d: &D, l4: &str, e: &E, l5: &str, f: &F, l6: &str) -> (r: String)
    ensures r@ == l0@ + a.vdisp() + l1@ + b.vdisp() + l2@ + c.vdisp() + l3@ + d.vdisp() + l4@ + e.vdisp() + l5@ + f.vdisp() + l6@ { unimplemented!() }

