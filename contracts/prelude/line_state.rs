// ---- prelude/line_state.rs : vocabulary of hunk.rs new_line_state / maybe_raw_line (shared by U40, which verifies them, and U01, which calls them) ----
/// `style::line_has_style_other_than` (U08 has it under contract): the raw line carries a style that is none of the given ones
pub uninterp spec fn has_style_other_than(raw_line: Seq<char>, styles: Seq<Style>) -> bool;
/// `paint::prepare_raw_line`: the raw line without its marker columns, tabs expanded, escape sequences kept; uninterpreted
pub uninterp spec fn prepare_raw_spec(raw_line: Seq<char>, n_parents: usize, config: &Config) -> Seq<char>;
/// git's own colours for removed / added lines (`style::GIT_DEFAULT_MINUS_STYLE`, `GIT_DEFAULT_PLUS_STYLE`: lazy statics)
pub uninterp spec fn git_default_minus_style() -> Style;
pub uninterp spec fn git_default_plus_style() -> Style;
/// C08: the raw text of a hunk line is kept (and later shown with the colours it carries) only under --word-diff, or when
/// raw lines are inspected and this one carries a style that is none of git's own for this kind of line, or when the
/// style configured for this kind of line is `raw`
pub open spec fn maybe_raw_spec(raw_line: Seq<char>, state_style_is_raw: bool, n_parents: usize, non_raw_styles: Seq<Style>, config: &Config) -> Option<Seq<char>> {
    if word_diff() || (config.inspect_raw_lines == cli::InspectRawLines::True && has_style_other_than(raw_line, non_raw_styles)) || state_style_is_raw {
        Some(prepare_raw_spec(raw_line, n_parents, config))
    } else { None }
}
pub open spec fn opt_view(o: Option<String>) -> Option<Seq<char>> { match o { Some(s) => Some(s@), None => None } }
pub open spec fn first_char(s: Seq<char>) -> Option<char> { if s.len() > 0 { Some(s[0]) } else { None } }
/// the first character of s that is '-' or '+' / that is not a blank
pub open spec fn first_minus_or_plus(s: Seq<char>) -> Option<char> decreases s.len() {
    if s.len() == 0 { None } else if s[0] == '-' || s[0] == '+' { Some(s[0]) } else { first_minus_or_plus(s.drop_first()) }
}
pub open spec fn first_non_space(s: Seq<char>) -> Option<char> decreases s.len() {
    if s.len() == 0 { None } else if s[0] != ' ' { Some(s[0]) } else { first_non_space(s.drop_first()) }
}
/// the kind of line a state stands for, as its marker: '-' removed, ' ' unchanged, '+' added
pub open spec fn kind_of(r: Option<State>) -> Option<char> {
    match r { Some(State::HunkMinus(_, _)) => Some('-'), Some(State::HunkZero(_, _)) => Some(' '), Some(State::HunkPlus(_, _)) => Some('+'), _ => None }
}
pub open spec fn marker_kind(c: Option<char>) -> Option<char> {
    match c { Some(ch) => if ch == '-' || ch == ' ' || ch == '+' { Some(ch) } else { None }, None => None }
}
/// the marker columns of a line of a combined diff say: removed if any column has '-' or '+' and the first such is '-', added
/// if it is '+', unchanged if all columns are blank, no hunk line otherwise
pub open spec fn combined_marker(cols: Seq<char>) -> Option<char> {
    match first_minus_or_plus(cols) {
        Some(c) => Some(c),
        None => match first_non_space(cols) { None => Some(' '), Some(_) => None },
    }
}
pub open spec fn raw_of(s: State) -> Option<Seq<char>> {
    match s { State::HunkMinus(_, r) => opt_view(r), State::HunkZero(_, r) => opt_view(r), State::HunkPlus(_, r) => opt_view(r), _ => None }
}
pub open spec fn imc_of(d: DiffType) -> InMergeConflict { match d { DiffType::Combined(_, i) => i, _ => InMergeConflict::No } }
/// the raw text kept with a line of kind k
pub open spec fn raw_for(k: char, new_raw_line: Seq<char>, n: usize, config: &Config) -> Option<Seq<char>> {
    if k == '-' { maybe_raw_spec(new_raw_line, config.minus_style.is_raw, n, seq![git_default_minus_style(), config.git_minus_style], config) }
    else if k == '+' { maybe_raw_spec(new_raw_line, config.plus_style.is_raw, n, seq![git_default_plus_style(), config.git_plus_style], config) }
    else { maybe_raw_spec(new_raw_line, config.zero_style.is_raw, n, Seq::empty(), config) }
}
/// what new_line_state can be asked about: a hunk state whose number of marker columns is known; a hunk header never lies
/// inside a conflict region
pub open spec fn nls_pre(prev: State) -> bool {
    match prev {
        State::HunkHeader(DiffType::Unified, _, _, _) => true,
        State::HunkHeader(DiffType::Combined(mp, InMergeConflict::No), _, _, _) => !(mp is Unknown),
        State::HunkMinus(d, _) => diff_type_known(d),
        State::HunkZero(d, _) => diff_type_known(d),
        State::HunkPlus(d, _) => diff_type_known(d),
        _ => false,
    }
}
pub open spec fn min_usize(a: usize, b: usize) -> usize { if a <= b { a } else { b } }
/// no styles given: whatever the (empty) slice is
pub broadcast proof fn lemma_no_styles(raw: Seq<char>, s: Seq<Style>)
    requires s.len() == 0,
    ensures #[trigger] has_style_other_than(raw, s) == has_style_other_than(raw, Seq::<Style>::empty()),
{ assert(s =~= Seq::<Style>::empty()); }
/// the number of marker columns of a line of a combined diff: as many as the hunk has parents, or the whole (shorter) line
pub open spec fn marker_cols(prev: State, new_line: &str) -> usize { min_usize(n_parents_spec(hunk_dt(prev)), new_line.spec_bytes().len() as usize) }
pub proof fn lemma_first_minus_or_plus(s: Seq<char>)
    ensures first_minus_or_plus(s) matches Some(c) ==> c == '-' || c == '+',
    decreases s.len(),
{ if s.len() > 0 && !(s[0] == '-' || s[0] == '+') { lemma_first_minus_or_plus(s.drop_first()); } }
