// ---- prelude/render.rs : ghost vocabulary for "what has been rendered" (DESIGN 3.3) ----
/// The sequence of rendered hunk-line texts contained in a piece of painter output.
/// Uninterpreted: the only facts used are the three axioms below and the (assumed or
/// verified) contracts of the paint functions.
pub mod rax {
    use vstd::prelude::*;
    pub uninterp spec fn lines_of(buf: Seq<char>) -> Seq<Seq<char>>;
    /// Visible text of a painted line (escape sequences removed). Uninterpreted.
    pub uninterp spec fn vis(s: Seq<char>) -> Seq<char>;
    pub broadcast axiom fn lines_of_empty()
        ensures #[trigger] lines_of(Seq::<char>::empty()) == Seq::<Seq<char>>::empty();
    /// Appending `s` and a newline to a buffer appends exactly one rendered line.
    /// (Holds for every `s` without an embedded newline; input lines never contain one.)
    pub broadcast axiom fn lines_of_push_line(b: Seq<char>, s: Seq<char>)
        ensures #[trigger] lines_of((b + s).push('\n')) == lines_of(b).push(vis(s));
    pub broadcast group rax_group { lines_of_empty, lines_of_push_line }
}
pub use rax::*;

/// Rendered hunk lines that have already been written: the concatenation of the
/// `Flush` events of the ghost history (direct header writes contribute nothing).
pub open spec fn hist_lines(h: Seq<Ev>) -> Seq<Seq<char>>
    decreases h.len()
{
    if h.len() == 0 { Seq::<Seq<char>>::empty() }
    else {
        hist_lines(h.drop_last()) + (match h.last() { Ev::Flush(s) => lines_of(s), Ev::Text(_, _) => Seq::<Seq<char>>::empty() })
    }
}

pub proof fn lemma_hist_lines_push(h: Seq<Ev>, e: Ev)
    ensures hist_lines(h.push(e)) == hist_lines(h) + (match e { Ev::Flush(s) => lines_of(s), Ev::Text(_, _) => Seq::<Seq<char>>::empty() })
{
    assert(h.push(e).drop_last() == h);
    assert(h.push(e).last() == e);
}

/// `h2` extends `h1` by direct writes only (no flush of painter output).
pub open spec fn only_text_after(h1: Seq<Ev>, h2: Seq<Ev>) -> bool {
    &&& h1.len() <= h2.len()
    &&& h2.subrange(0, h1.len() as int) == h1
    &&& forall|i: int| h1.len() <= i < h2.len() ==> (#[trigger] h2[i]) is Text
}
pub proof fn lemma_hist_lines_only_text(h1: Seq<Ev>, h2: Seq<Ev>)
    requires only_text_after(h1, h2),
    ensures hist_lines(h2) == hist_lines(h1),
    decreases h2.len(),
{
    if h2.len() == h1.len() {
        assert(h2 =~= h2.subrange(0, h1.len() as int));
    } else {
        let h2p = h2.drop_last();
        assert(h2p.subrange(0, h1.len() as int) =~= h2.subrange(0, h1.len() as int));
        assert(only_text_after(h1, h2p));
        lemma_hist_lines_only_text(h1, h2p);
        assert(h2.last() is Text);
        assert(hist_lines(h2) =~= hist_lines(h2p));
    }
}

pub broadcast proof fn lemma_only_text_refl(h: Seq<Ev>)
    ensures #[trigger] only_text_after(h, h),
{
    assert(h.subrange(0, h.len() as int) =~= h);
}
pub broadcast proof fn lemma_only_text_push(h1: Seq<Ev>, h: Seq<Ev>, s: Seq<char>, ln: bool)
    requires #[trigger] only_text_after(h1, h),
    ensures only_text_after(h1, #[trigger] h.push(Ev::Text(s, ln))),
{
    assert(h.push(Ev::Text(s, ln)).subrange(0, h1.len() as int) =~= h.subrange(0, h1.len() as int));
}
pub broadcast group otx_group { lemma_only_text_refl, lemma_only_text_push }

/// `Painter::emit` (rule E4, option flush=on): the whole output buffer goes to the writer as one Flush event.
#[verifier::external_body]
pub fn verif_flush(w: &mut Writer, buf: &String) -> (r: std::io::Result<()>)
    ensures r.is_ok() ==> final(w).hist() == old(w).hist().push(Ev::Flush(buf@)),
            r.is_err() ==> final(w).hist() == old(w).hist(),
{ unimplemented!() }

/// Result of `tabs::remove_prefix_and_expand(prefix, line, tab_cfg)` as a function of its arguments.
pub uninterp spec fn rpe_spec(prefix: usize, line: Seq<char>, tab_cfg: &TabCfg) -> Seq<char>;
/// `paint::prepare`: marker column removed, tabs expanded, newline terminated.
pub open spec fn prepare_spec(line: Seq<char>, prefix_length: usize, tab_cfg: &TabCfg) -> Seq<char> {
    if line.len() == 0 { seq!['\n'] } else { rpe_spec(prefix_length, line, tab_cfg).push('\n') }
}
