#![feature(pattern)]
#![feature(allocator_api)]
#![allow(unused_imports, unused_variables, dead_code, unused_mut, non_snake_case, unreachable_code, unused_parens, unused_braces)]
use vstd::prelude::*;
use vstd::string::*;
use vstd::utf8::*;
use std::borrow::Cow;
use std::cmp::{min, max};
use std::collections::HashMap;
use std::str::pattern::Pattern;
use std::io;
use std::path::{Path, PathBuf};
use std::collections::VecDeque;
