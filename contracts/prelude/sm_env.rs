// ---- prelude/sm_env.rs : the common environment of all StateMachine/Painter units ----
// A unit may `//@ set CONFIG_EXTRA ,field1,field2` before including this file to keep more Config
// fields (a large Config makes every query slower, so each unit keeps only what its bodies read).
//@ include prelude/base.rs
//@ include prelude/std_assumed.rs
//@ include prelude/render.rs
//@ include prelude/state.rs
//@ include prelude/opaque.rs
//@ include prelude/ansi_term.rs
//@ shims merge_conflict grep tabs utils::tabs utils::path utils::process utils::round_char_boundary config features::hyperlinks features::line_numbers features::side_by_side draw diff_header hunk_header handlers::diff_header handlers::hunk_header handlers::merge_conflict handlers::grep cli style paint delta line_numbers side_by_side
//@ broadcast vax::vax_group rax::rax_group r2x_group otx_group
//@ include prelude/style.rs
//@ type src/cli.rs Width
//@ type src/cli.rs InspectRawLines derives=Clone,PartialEq,Eq,Structural
//@ type src/config.rs HunkHeaderIncludeFilePath
//@ type src/config.rs HunkHeaderIncludeLineNumber
//@ type src/config.rs HunkHeaderIncludeCodeFragment
//@ type src/config.rs Config keep=color_only,hyperlinks,file_style,commit_style,minus_style,zero_style,plus_style,classic_grep_header_style,hunk_header_style,tab_cfg,line_buffer_size,line_numbers$CONFIG_EXTRA
//@ type src/paint.rs Painter keep=minus_lines,plus_lines,writer,output_buffer,line_numbers_data,merge_conflict_lines,merge_conflict_commit_names$PAINTER_EXTRA
//@ type src/delta.rs StateMachine
//@ include prelude/render2.rs
//@ include prelude/sm_inv.rs
//@ include prelude/sm_style.rs
