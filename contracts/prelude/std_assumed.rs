// ---- prelude/std_assumed.rs : ASSUMED contracts on std functions vstd does not specify ----
// Each carries the std documentation sentence it encodes.  All are part of the trusted base.
pub mod vax {
    use vstd::prelude::*;
    use vstd::string::*;
    /// The character sequence a `Pattern` argument stands for (defined for `&str`, `&String`, `char`).
    pub uninterp spec fn pat_view<P>(p: P) -> Seq<char>;
    pub broadcast axiom fn pat_view_str(p: &str) ensures #[trigger] pat_view::<&str>(p) == p@;
    pub broadcast axiom fn pat_view_string_ref(p: &String) ensures #[trigger] pat_view::<&String>(p) == p@;
    pub broadcast axiom fn pat_view_char(c: char) ensures #[trigger] pat_view::<char>(c) == seq![c];
    /// `Ord` on machine integers is `<=`.
    pub uninterp spec fn ord_le<T>(a: T, b: T) -> bool;
    pub broadcast axiom fn ord_le_usize(a: usize, b: usize) ensures #[trigger] ord_le::<usize>(a, b) == (a <= b);
    /// "The length of a str in bytes never exceeds isize::MAX" (std: allocation size limit).
    pub broadcast axiom fn str_len_fits(s: &str) ensures #[trigger] s.spec_bytes().len() <= isize::MAX;
    pub broadcast group vax_group { pat_view_str, pat_view_string_ref, pat_view_char, ord_le_usize, str_len_fits }
}
pub use vax::*;

pub open spec fn is_prefix(p: Seq<char>, s: Seq<char>) -> bool { p.len() <= s.len() && s.subrange(0, p.len() as int) == p }
pub open spec fn is_suffix(p: Seq<char>, s: Seq<char>) -> bool { p.len() <= s.len() && s.subrange(s.len() - p.len(), s.len() as int) == p }

/// UTF-8 fact (ASSUMED): an ASCII character is encoded as one byte, so if a string ends with an
/// ASCII character then `len - 1` is a char boundary and the string is at least one byte long.
pub broadcast axiom fn axiom_ascii_suffix_boundary(s: Seq<char>, c: char)
    requires #[trigger] is_suffix(seq![c], s), (c as u32) < 128,
    ensures encode_utf8(s).len() >= 1, is_char_boundary(encode_utf8(s), encode_utf8(s).len() - 1);

// str::starts_with: "Returns true if the given pattern matches a prefix of this string slice."
#[verifier::allow(undeclared_external_trait)]
pub assume_specification<P: Pattern>[ str::starts_with::<P> ](s: &str, pat: P) -> (r: bool)
    ensures r == is_prefix(pat_view(pat), s@);
// str::ends_with: "Returns true if the given pattern matches a suffix of this string slice."
#[verifier::allow(undeclared_external_trait)]
pub assume_specification<P: Pattern>[ str::ends_with::<P> ](s: &str, pat: P) -> (r: bool)
    where for<'a> P::Searcher<'a>: std::str::pattern::ReverseSearcher<'a>
    ensures r == is_suffix(pat_view(pat), s@);
// str::strip_prefix: "If the string starts with the pattern prefix, returns the substring after the prefix, wrapped in Some ... otherwise None."
#[verifier::allow(undeclared_external_trait)]
pub assume_specification<P: Pattern>[ str::strip_prefix::<P> ](s: &str, pat: P) -> (r: Option<&str>)
    ensures is_prefix(pat_view(pat), s@) ==> r.is_some() && r.unwrap()@ == s@.subrange(pat_view(pat).len() as int, s@.len() as int),
            !is_prefix(pat_view(pat), s@) ==> r.is_none();
// str::contains: "Returns true if the given pattern matches a sub-slice of this string slice."; uninterpreted
pub uninterp spec fn contains_spec(s: Seq<char>, pat: Seq<char>) -> bool;
#[verifier::allow(undeclared_external_trait)]
pub assume_specification<P: Pattern>[ str::contains::<P> ](s: &str, pat: P) -> (r: bool)
    ensures r == contains_spec(s@, pat_view(pat));
// str::trim_start / trim_end: "Returns a string slice with leading / trailing whitespace removed."; uninterpreted
pub uninterp spec fn trim_start_spec(s: Seq<char>) -> Seq<char>;
pub uninterp spec fn trim_end_spec(s: Seq<char>) -> Seq<char>;
pub assume_specification[ str::trim_start ](s: &str) -> (r: &str)
    ensures r@ == trim_start_spec(s@);
pub assume_specification[ str::trim_end ](s: &str) -> (r: &str)
    ensures r@ == trim_end_spec(s@);
// `&str == &str` (the blanket impl for references is specified by vstd; this is the comparison of the contents)
pub assume_specification[ <str as PartialEq<str>>::eq ](a: &str, b: &str) -> (r: bool)
    ensures r == (a@ == b@);
// String::len: "Returns the length of this String, in bytes."
pub assume_specification[ String::len ](s: &String) -> (r: usize)
    ensures r == encode_utf8(s@).len();
// String::truncate: "Shortens this String to the specified length. If new_len is greater than or equal to the string's current length, this has no effect."
// (panics if new_len does not lie on a char boundary: stated as a precondition for new_len > 0)
pub assume_specification[ String::truncate ](s: &mut String, new_len: usize)
    requires new_len == 0 || new_len >= encode_utf8(old(s)@).len() || is_char_boundary(encode_utf8(old(s)@), new_len as int),
    ensures new_len == 0 ==> final(s)@ == Seq::<char>::empty(),
            new_len >= encode_utf8(old(s)@).len() ==> final(s)@ == old(s)@,
            is_prefix(final(s)@, old(s)@),
            new_len < encode_utf8(old(s)@).len() ==> encode_utf8(final(s)@).len() == new_len,
            // "Shortens this String to the specified length": what is kept is the LONGEST prefix that fits
            forall|p: Seq<char>| #[trigger] is_prefix(p, old(s)@) && encode_utf8(p).len() <= new_len ==> p.len() <= final(s)@.len();
/// UTF-8 fact (ASSUMED): an ASCII character is encoded as one byte, so a text that ends with one is one byte longer than the text without it.
pub broadcast axiom fn axiom_ascii_suffix_one_byte(s: Seq<char>, c: char)
    requires #[trigger] is_suffix(seq![c], s), (c as u32) < 128,
    ensures encode_utf8(s.drop_last()).len() == encode_utf8(s).len() - 1;
// <char as ToString>::to_string (through Display): "Converts the given value to a String." - the one character (ASSUMED; vstd leaves
// `to_string_from_display_ensures` open for every type but str)
pub broadcast axiom fn axiom_char_to_string(c: &char, r: String)
    ensures #[trigger] vstd::string::to_string_from_display_ensures::<char>(c, r) ==> r@ == seq![*c];
// String::from(&str) / `"..".into()`: "Converts a &str into a String. The result is allocated on the heap." - the same text (ASSUMED; vstd
// specifies `Into::into` through `FromSpec`, which it leaves open for String)
pub axiom fn axiom_string_from_str<'a>()
    ensures <String as vstd::std_specs::convert::FromSpec<&'a str>>::obeys_from_spec(), forall|s: &'a str| (#[trigger] <String as vstd::std_specs::convert::FromSpec<&'a str>>::from_spec(s))@ == s@;
// mem::drop: "Disposes of a value." (no effect on anything else)
pub assume_specification<T>[ core::mem::drop::<T> ](x: T);
// cmp::min / cmp::max: "Compares and returns the minimum/maximum of two values."
pub assume_specification<T: Ord>[ std::cmp::min::<T> ](a: T, b: T) -> (r: T)
    ensures r == if ord_le(a, b) { a } else { b };
pub assume_specification<T: Ord>[ std::cmp::max::<T> ](a: T, b: T) -> (r: T)
    ensures r == if ord_le(a, b) { b } else { a };
// Cow::from(String): "Converts a String into an Owned variant. No heap allocation is performed, and the string is not copied."
pub assume_specification<'a>[ <Cow<'a, str> as From<String>>::from ](s: String) -> (r: Cow<'a, str>)
    ensures cow_view(&r) == s@;
// Cow::from(&str): "Converts a string slice into a Borrowed variant. No heap allocation is performed, and the string is not copied."
pub assume_specification<'a>[ <Cow<'a, str> as From<&'a str>>::from ](s: &'a str) -> (r: Cow<'a, str>)
    ensures cow_view(&r) == s@;
// Deref for Cow: borrowing a `Cow<str>` as `&str` gives its text
pub uninterp spec fn cow_ref<'a, 'b, B: ?Sized + ToOwned>(c: &'b Cow<'a, B>) -> &'b B;
pub assume_specification<'a, 'b, B: ?Sized + ToOwned>[ <Cow<'a, B> as std::ops::Deref>::deref ](c: &'b Cow<'a, B>) -> (r: &'b B)
    ensures r == cow_ref(c);
pub broadcast axiom fn axiom_cow_ref_str<'a>(c: &Cow<'a, str>)
    ensures #[trigger] cow_ref::<str>(c)@ == cow_view(c);
// String == &str / String == str: "This impl is equivalent to comparing the string contents."
pub assume_specification<'a>[ <String as PartialEq<&'a str>>::eq ](a: &String, b: &&str) -> (r: bool)
    ensures r == (a@ == b@);
pub assume_specification<'a>[ <String as PartialEq<&'a str>>::ne ](a: &String, b: &&str) -> (r: bool)
    ensures r == (a@ != b@);
// usize::ilog10: "Panics: This function will panic if self is zero."
pub assume_specification[ usize::ilog10 ](n: usize) -> (r: u32)
    requires n > 0,
    ensures r <= 19;
// str::find / str::rfind: "Returns the byte index of the first / last character of this string slice that matches the pattern."
pub uninterp spec fn str_find_spec(s: Seq<char>, pat: Seq<char>) -> Option<usize>;
pub uninterp spec fn str_rfind_spec(s: Seq<char>, pat: Seq<char>) -> Option<usize>;
#[verifier::allow(undeclared_external_trait)]
pub assume_specification<P: Pattern>[ str::find::<P> ](s: &str, pat: P) -> (r: Option<usize>)
    ensures r == str_find_spec(s@, pat_view(pat)), r matches Some(i) ==> i < s.spec_bytes().len();
#[verifier::allow(undeclared_external_trait)]
pub assume_specification<P: Pattern>[ str::rfind::<P> ](s: &str, pat: P) -> (r: Option<usize>)
    where for<'a> P::Searcher<'a>: std::str::pattern::ReverseSearcher<'a>
    ensures r == str_rfind_spec(s@, pat_view(pat)), r matches Some(i) ==> i < s.spec_bytes().len();
