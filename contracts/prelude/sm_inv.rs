// ---- prelude/sm_inv.rs : representation invariants of StateMachine (needs the extracted types) ----
/// BufInv (DESIGN 3.2): buffered minus/plus lines exist only in the hunk states that will flush them in order.
pub open spec fn bufinv(sm: &StateMachine) -> bool {
    &&& (sm.painter.plus_lines@.len() > 0 ==> (sm.state is HunkPlus || sm.state is HunkHeader))
    &&& (sm.painter.minus_lines@.len() > 0 ==> (sm.state is HunkMinus || sm.state is HunkPlus || sm.state is HunkHeader))
}
/// What `handle_hunk_line` may add for the current line: the prepared line (marker column of the
/// new state's diff type removed; nothing removed under word-diff), or - for a line that is not a
/// hunk line (e.g. `\ No newline at end of file`) - the tab-expanded raw line.
pub open spec fn hhl_entry_ok(line: Seq<char>, raw_line: Seq<char>, tab_cfg: &TabCfg, new_state: State, e: Seq<char>) -> bool {
    match new_state {
        State::HunkMinus(d, _) => e == prepare_spec(line, n_parents_spec(d), tab_cfg),
        State::HunkPlus(d, _) => e == prepare_spec(line, n_parents_spec(d), tab_cfg),
        State::HunkZero(d, _) => e == prepare_spec(line, if word_diff() { 0usize } else { n_parents_spec(d) }, tab_cfg)
                                 || (new_state == State::HunkZero(DiffType::Unified, None) && e == vis(expand_spec(raw_line, tab_cfg))),
        _ => false,
    }
}
