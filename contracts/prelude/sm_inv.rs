// ---- prelude/sm_inv.rs : representation invariants of StateMachine (needs the extracted types) ----
/// BufInv (DESIGN 3.2): buffered minus/plus lines exist only in the hunk states that will flush them in order.
pub open spec fn bufinv(sm: &StateMachine) -> bool {
    &&& (sm.painter.plus_lines@.len() > 0 ==> (sm.state is HunkPlus || sm.state is HunkHeader))
    &&& (sm.painter.minus_lines@.len() > 0 ==> (sm.state is HunkMinus || sm.state is HunkPlus || sm.state is HunkHeader))
}
/// Well-formedness facts established where the data is created: `Painter::new` creates the line
/// number data whenever `config.line_numbers` is set; `handle_hunk_header_line` only stores a parsed
/// hunk header that has at least one coordinate pair (parse_hunk_header returns None otherwise).
pub open spec fn sm_wf(sm: &StateMachine) -> bool {
    &&& (sm.config.line_numbers ==> sm.painter.line_numbers_data is Some)
    &&& (sm.state matches State::HunkHeader(_, p, _, _) ==> p.line_numbers_and_hunk_lengths@.len() >= 1)
}
/// Frame: every field of the state machine other than `painter` and `state` is unchanged.
pub open spec fn sm_frame(a: &StateMachine, b: &StateMachine) -> bool {
    &&& a.line == b.line && a.raw_line == b.raw_line && a.source == b.source && a.config == b.config
    &&& a.minus_file == b.minus_file && a.plus_file == b.plus_file
    &&& a.minus_file_event == b.minus_file_event && a.plus_file_event == b.plus_file_event
    &&& a.diff_line == b.diff_line && a.mode_info == b.mode_info
    &&& a.current_file_pair == b.current_file_pair
    &&& a.handled_diff_header_header_line_file_pair == b.handled_diff_header_header_line_file_pair
    &&& a.blame_key_colors == b.blame_key_colors && a.minus_line_counter == b.minus_line_counter
}
pub open spec fn sm_frame_but_mode_info(a: &StateMachine, b: &StateMachine) -> bool {
    &&& a.line == b.line && a.raw_line == b.raw_line && a.source == b.source && a.config == b.config
    &&& a.minus_file == b.minus_file && a.plus_file == b.plus_file
    &&& a.minus_file_event == b.minus_file_event && a.plus_file_event == b.plus_file_event
    &&& a.diff_line == b.diff_line
    &&& a.current_file_pair == b.current_file_pair
    &&& a.handled_diff_header_header_line_file_pair == b.handled_diff_header_header_line_file_pair
    &&& a.blame_key_colors == b.blame_key_colors && a.minus_line_counter == b.minus_line_counter
}
pub open spec fn sm_frame_but_counter(a: &StateMachine, b: &StateMachine) -> bool {
    &&& a.line == b.line && a.raw_line == b.raw_line && a.source == b.source && a.config == b.config
    &&& a.minus_file == b.minus_file && a.plus_file == b.plus_file
    &&& a.minus_file_event == b.minus_file_event && a.plus_file_event == b.plus_file_event
    &&& a.diff_line == b.diff_line && a.mode_info == b.mode_info
    &&& a.current_file_pair == b.current_file_pair
    &&& a.handled_diff_header_header_line_file_pair == b.handled_diff_header_header_line_file_pair
    &&& a.blame_key_colors == b.blame_key_colors
}
/// Frame for the painter: buffered lines and the writer's history are unchanged (the output buffer may be).
pub open spec fn painter_keeps_lines(a: &Painter, b: &Painter) -> bool {
    a.minus_lines@ == b.minus_lines@ && a.plus_lines@ == b.plus_lines@
}
/// the diff type a hunk state carries (two-way for every other state)
pub open spec fn hunk_dt(s: State) -> DiffType {
    match s { State::HunkHeader(d, _, _, _) => d, State::HunkMinus(d, _) => d, State::HunkZero(d, _) => d, State::HunkPlus(d, _) => d, _ => DiffType::Unified }
}
/// What `handle_hunk_line` may add for the current line: the prepared line (marker column of the
/// new state's diff type removed; nothing removed under word-diff), or - for a line that is not a
/// hunk line (e.g. `\ No newline at end of file`) - the tab-expanded raw line.
pub open spec fn hhl_entry_ok(line: Seq<char>, raw_line: Seq<char>, tab_cfg: &TabCfg, new_state: State, e: Seq<char>) -> bool {
    match new_state {
        State::HunkMinus(d, _) => e == prepare_spec(line, n_parents_spec(d), tab_cfg),
        State::HunkPlus(d, _) => e == prepare_spec(line, n_parents_spec(d), tab_cfg),
        State::HunkZero(d, _) => e == prepare_spec(line, if word_diff() { 0usize } else { n_parents_spec(d) }, tab_cfg)
                                 || (new_state matches State::HunkZero(_, None) && e == vis(expand_spec(raw_line, tab_cfg))),
        _ => false,
    }
}
