// ---- prelude/sm_style.rs : spec of Config::get_style / should_handle / format_raw_line (needs Config, Style, StateMachine) ----
/// `io::stdout().is_terminal()`: a fact about the process environment, fixed for the run.
pub uninterp spec fn stdout_is_terminal() -> bool;
#[verifier::external_body]
pub fn verif_stdout_is_terminal() -> (r: bool) ensures r == stdout_is_terminal() { unimplemented!() }

/// Result of `format_commit_line_with_osc8_commit_hyperlink` (regex replacement; uninterpreted).
pub uninterp spec fn hyperlinked(line: Seq<char>, config: &Config) -> Seq<char>;
/// `format_raw_line`: the line itself unless hyperlinks are requested and stdout is a tty.
pub open spec fn frl_spec(line: Seq<char>, config: &Config) -> Seq<char> {
    if config.hyperlinks && stdout_is_terminal() { hyperlinked(line, config) } else { line }
}

pub open spec fn get_style_spec(c: &Config, s: State) -> Style {
    match s {
        State::HunkMinus(_, _) => c.minus_style,
        State::HunkZero(_, _) => c.zero_style,
        State::HunkPlus(_, _) => c.plus_style,
        State::CommitMeta => c.commit_style,
        State::DiffHeader(_) => c.file_style,
        State::Grep(GrepType::Ripgrep, _, _, _) => c.classic_grep_header_style,
        State::HunkHeader(_, _, _, _) => c.hunk_header_style,
        State::SubmoduleLog => c.file_style,
        State::SubmoduleShort(_) => c.file_style,
        State::MergeConflict(_, _) => c.file_style,
        _ => c.file_style,
    }
}
/// The states for which `Config::get_style` does not reach `delta_unreachable`.
pub open spec fn get_style_defined(s: State) -> bool {
    s is HunkMinus || s is HunkZero || s is HunkPlus || s is CommitMeta || s is DiffHeader || s is HunkHeader || s is SubmoduleLog
    || s is SubmoduleShort || s is MergeConflict
    || (s matches State::Grep(GrepType::Ripgrep, _, _, _))
}
/// SrcInv: once the input has been classified as `diff -u` output the state is one that has a
/// style.  ASSUMED at the entry of the handlers that need it (it holds because every line that
/// sets `source` to DiffUnified is claimed by a header handler that sets the state to DiffHeader,
/// and the states reachable from there are the ones listed; it is not proved here).
pub open spec fn srcinv(sm: &StateMachine) -> bool {
    sm.source == Source::DiffUnified ==> get_style_defined(sm.state)
}
pub open spec fn should_handle_spec(sm: &StateMachine) -> bool {
    !(get_style_spec(sm.config, sm.state).is_raw && get_style_spec(sm.config, sm.state).decoration_style == DecorationStyle::NoDecoration)
}
