// ---- prelude/state.rs : the State family, extracted from /repo on every run ----
// Field-less enums that the real code compares with `==` get `Structural` (vstd): their derived
// PartialEq is structural equality.
//@ type src/delta.rs State
//@ type src/delta.rs DiffType
//@ type src/delta.rs MergeParents
//@ type src/delta.rs InMergeConflict
//@ type src/delta.rs Source derives=PartialEq,Eq,Structural
//@ type src/handlers/hunk_header.rs ParsedHunkHeader
//@ type src/handlers/merge_conflict.rs MergeConflictCommit
//@ type src/handlers/merge_conflict.rs MergeConflictCommits noderive
//@ type src/handlers/merge_conflict.rs MergeConflictLines
//@ type src/handlers/merge_conflict.rs MergeConflictCommitNames
//@ type src/handlers/grep.rs LineType derives=Clone,Copy,PartialEq,Eq,Structural
//@ type src/config.rs GrepType
//@ type src/handlers/diff_header.rs FileEvent derives=PartialEq,Eq,Structural
//@ type src/handlers/hunk_header.rs AmbiguousDiffMinusCounter
