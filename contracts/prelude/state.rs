// ---- prelude/state.rs : the State family, extracted from /repo on every run ----
//@ type src/delta.rs State
//@ type src/delta.rs DiffType
//@ type src/delta.rs MergeParents
//@ type src/delta.rs InMergeConflict
//@ type src/delta.rs Source
//@ type src/handlers/hunk_header.rs ParsedHunkHeader
//@ type src/handlers/merge_conflict.rs MergeConflictCommit
//@ type src/handlers/grep.rs LineType
//@ type src/config.rs GrepType
//@ type src/handlers/diff_header.rs FileEvent
//@ type src/handlers/hunk_header.rs AmbiguousDiffMinusCounter
