// ---- prelude/opaque.rs : opaque mirrors of dependency types (E6) ----
#[verifier::external_body]
pub struct TabCfg { _p: u8 }
#[verifier::external_body]
pub struct HighlightLines<'a> { _p: std::marker::PhantomData<&'a ()> }
#[verifier::external_body]
pub struct LineNumbersData<'a> { _p: std::marker::PhantomData<&'a ()> }
#[verifier::external_body]
pub struct SyntaxReference { _p: u8 }
