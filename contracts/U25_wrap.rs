//@ include prelude/header.rs
//@ unit U25 wrapping.rs wrap_line: the wrapping loop terminates (C03) and loses no text (C07)
verus! {
//@ include prelude/base.rs
//@ include prelude/std_assumed.rs
//@ shims config
//@ broadcast vax::vax_group wrap_group axiom_vec_len_bound lemma_proj_push
pub type LineSections<'a, S> = Vec<(S, &'a str)>;
//@ type src/config.rs INLINE_SYMBOL_WIDTH_1
//@ type src/wrapping.rs WrapConfig keep=left_symbol,right_symbol,right_prefix_symbol,use_wrap_right_permille,max_lines noderive
//@ type src/wrapping.rs Stop derives=PartialEq,Eq,Structural
//@ type src/wrapping.rs wrap_line::CurrLine noderive

impl<'a, S: Default> CurrLine<'a, S> {
    //@ fn src/wrapping.rs wrap_line::CurrLine::reset
    //@| ensures r.len == 0, r.line_segments@.len() == 0,  // @C07:curr_line.reset.is.empty
    //@ fn src/wrapping.rs wrap_line::CurrLine::push_and_set_len
    //@| ensures final(self).len == len, final(self).line_segments@ == old(self).line_segments@.push(text),  // @C07:curr_line.push.appends.the.segment
    //@ fn src/wrapping.rs wrap_line::CurrLine::has_text
    //@| ensures r == (self.len > 0),  // @C07:curr_line.has_text
    //@ fn src/wrapping.rs wrap_line::CurrLine::text_len
    //@| ensures r == self.len,  // @C07:curr_line.text_len
}


// ---------------------------------------------------------------- what "no text is lost" means
/// the text of a list of styled segments
pub open spec fn segs_text<S>(s: Seq<(S, &str)>) -> Seq<char>
    decreases s.len()
{ if s.len() == 0 { Seq::empty() } else { segs_text(s.drop_last()) + s.last().1@ } }
/// the text still waiting on the stack (its top is the next piece of the line)
pub open spec fn stack_text<S>(s: Seq<(S, &str)>) -> Seq<char>
    decreases s.len()
{ if s.len() == 0 { Seq::empty() } else { s.last().1@ + stack_text(s.drop_last()) } }
/// the text of the finished rows; each finished row ends with the wrap symbol, which is not part of the line
pub open spec fn rows_text<S>(rows: Seq<Vec<(S, &str)>>) -> Seq<char>
    decreases rows.len()
{ if rows.len() == 0 { Seq::empty() } else { rows_text(rows.drop_last()) + segs_text(rows.last()@.drop_last()) } }
/// display width of a piece of text (unicode-width); uninterpreted, ASSUMED additive over concatenation
pub uninterp spec fn tw(s: Seq<char>) -> nat;
pub broadcast axiom fn axiom_tw_add(a: Seq<char>, b: Seq<char>)
    ensures #[trigger] tw(a + b) == tw(a) + tw(b);
pub broadcast axiom fn axiom_tw_empty()
    ensures #[trigger] tw(Seq::<char>::empty()) == 0;
/// ASSUMED: a newline has no width (`"\n".width() == 0`)
pub broadcast axiom fn axiom_tw_newline()
    ensures #[trigger] tw("\n"@) == 0;
/// a finished row is not wider than the panel
pub open spec fn rows_fit<S>(rows: Seq<Vec<(S, &str)>>, line_width: usize) -> bool {
    forall|i: int| 0 <= i < rows.len() ==> tw(segs_text((#[trigger] rows[i])@)) <= line_width
}
/// bytes still on the stack
pub open spec fn stack_bytes<S>(s: Seq<(S, &str)>) -> nat
    decreases s.len()
{ if s.len() == 0 { 0 } else { stack_bytes(s.drop_last()) + s.last().1.spec_bytes().len() } }
pub broadcast proof fn lemma_segs_push<S>(s: Seq<(S, &str)>, x: (S, &str))
    ensures #[trigger] segs_text(s.push(x)) == segs_text(s) + x.1@
{ assert(s.push(x).drop_last() =~= s); }
pub broadcast proof fn lemma_stack_push<S>(s: Seq<(S, &str)>, x: (S, &str))
    ensures #![trigger stack_text(s.push(x))] #![trigger stack_bytes(s.push(x))]
        stack_text(s.push(x)) == x.1@ + stack_text(s), stack_bytes(s.push(x)) == stack_bytes(s) + x.1.spec_bytes().len()
{ assert(s.push(x).drop_last() =~= s); }
pub broadcast proof fn lemma_rows_push<S>(rows: Seq<Vec<(S, &str)>>, r: Vec<(S, &str)>)
    ensures #[trigger] rows_text(rows.push(r)) == rows_text(rows) + segs_text(r@.drop_last())
{ assert(rows.push(r).drop_last() =~= rows); }
/// the last content segment of a finished row (the one before the wrap symbol)
pub open spec fn this_line_of<S>(row: Seq<(S, &str)>) -> &str { row[row.len() - 2].1 }
pub broadcast group wrap_group { lemma_segs_push, lemma_stack_push, lemma_rows_push, axiom_head_tail, axiom_tw_add, axiom_tw_empty, axiom_tw_newline }
/// ASSUMED: a Vec cannot hold usize::MAX elements (an allocation is at most isize::MAX bytes)
pub broadcast axiom fn axiom_vec_len_bound<T>(v: &Vec<T>)
    ensures #[trigger] v@.len() < usize::MAX;

// ---------------------------------------------------------------- stubs for what the loop body calls
/// the byte lengths and display widths of the grapheme clusters of a text (unicode-segmentation, unicode-width);
/// ASSUMED: every cluster has at least one byte, the lengths add up to the text, every partial sum is a char boundary
pub open spec fn prefix_len(g: Seq<(usize, usize)>, k: int) -> int
    decreases k
{
    if k <= 0 || k > g.len() { 0 } else { prefix_len(g, k - 1) + g[k - 1].0 }
}
pub open spec fn widths_sum(g: Seq<(usize, usize)>, k: int) -> int
    decreases k
{
    if k <= 0 || k > g.len() { 0 } else { widths_sum(g, k - 1) + g[k - 1].1 }
}
pub open spec fn graphemes_ok(text: &str, g: Seq<(usize, usize)>) -> bool {
    &&& forall|i: int| 0 <= i < g.len() ==> (#[trigger] g[i]).0 >= 1
    &&& prefix_len(g, g.len() as int) == text.spec_bytes().len()
    &&& widths_sum(g, g.len() as int) <= usize::MAX / 2
    &&& text.spec_bytes().len() <= usize::MAX
    &&& tw(text@) == widths_sum(g, g.len() as int)
}
pub proof fn lemma_prefix_len_mono(g: Seq<(usize, usize)>, a: int, b: int)
    requires 0 <= a <= b <= g.len(),
    ensures prefix_len(g, a) <= prefix_len(g, b),
    decreases b - a
{
    if a < b { lemma_prefix_len_mono(g, a, b - 1); }
}
/// (R3) `stack.pop().map(|(style, text)| (style, text, text.graphemes(true).map(|item| (item.len(), item.width())).collect::<Vec<_>>())).unwrap()`
#[verifier::external_body]
pub fn verif_pop_with_graphemes<'a, S: Copy>(stack: &mut Vec<(S, &'a str)>) -> (r: (S, &'a str, Vec<(usize, usize)>))
    requires old(stack)@.len() > 0,  // @C03:wrap.pops.only.a.non.empty.stack
    ensures final(stack)@ == old(stack)@.drop_last(), r.0 == old(stack)@.last().0, r.1 == old(stack)@.last().1,
            graphemes_ok(r.1, r.2@),
{ unimplemented!() }
/// (R3) `graphemes.iter().map(|(_, w)| w).sum()`
#[verifier::external_body]
pub fn verif_sum_widths(g: &Vec<(usize, usize)>) -> (r: usize)
    requires widths_sum(g@, g@.len() as int) <= usize::MAX / 2,
    ensures r == widths_sum(g@, g@.len() as int),
{ unimplemented!() }
/// (R3) `wrap_config.left_symbol.width()`; ASSUMED: the wrap symbols are one column wide (ensure_display_width_1)
#[verifier::external_body]
pub fn verif_symbol_width(s: &String) -> (r: usize) ensures r == 1, r == tw(s@) { unimplemented!() }
/// (R3) `&text[..n]` / `&text[n..]` at the end of the first k grapheme clusters
pub uninterp spec fn str_head(s: Seq<char>, n: int) -> Seq<char>;
pub uninterp spec fn str_tail(s: Seq<char>, n: int) -> Seq<char>;
/// ASSUMED: the two halves of a string cut at a boundary put together are the string
pub broadcast axiom fn axiom_head_tail(s: Seq<char>, n: int)
    ensures #![trigger str_head(s, n)] #![trigger str_tail(s, n)] str_head(s, n) + str_tail(s, n) == s;
#[verifier::external_body]
pub fn verif_str_to<'a>(s: &'a str, n: usize, Ghost(g): Ghost<Seq<(usize, usize)>>, Ghost(k): Ghost<int>) -> (r: &'a str)
    requires graphemes_ok(s, g), 0 <= k <= g.len(), n == prefix_len(g, k),  // @C03:wrap.cuts.a.text.at.the.end.of.a.whole.grapheme
    ensures r@ == str_head(s@, n as int), r.spec_bytes().len() == n, tw(r@) == widths_sum(g, k),
{ unimplemented!() }
#[verifier::external_body]
pub fn verif_str_from<'a>(s: &'a str, n: usize, Ghost(g): Ghost<Seq<(usize, usize)>>, Ghost(k): Ghost<int>) -> (r: &'a str)
    requires graphemes_ok(s, g), 0 <= k <= g.len(), n == prefix_len(g, k),  // @C03:wrap.cuts.a.text.at.the.end.of.a.whole.grapheme
    ensures r@ == str_tail(s@, n as int), r.spec_bytes().len() == s.spec_bytes().len() - n,
{ unimplemented!() }

//@ region src/wrapping.rs wrap_line
//@sig pub fn wrap_line_loop<'a, S: Copy + Default>(wrap_config: &'a WrapConfig, line_rev: Vec<(S, &'a str)>, line_width: usize, fill_style: &S, inline_hint_style: &Option<S>) -> (r: (Vec<LineSections<'a, S>>, CurrLine<'a, S>, Vec<(S, &'a str)>, Stop))
//@from <<<let mut curr_line = CurrLine::reset();>>>
//@until <<<if result.len() == 1 && curr_line.has_text() {>>>
//@tail (result, curr_line, stack, stop)
//@| requires line_width <= usize::MAX / 2,
//@| ensures rows_text(r.0@) + segs_text(r.1.line_segments@) + stack_text(r.2@) =~= stack_text(line_rev@),  // @C07:wrapping.loses.no.text.rows.then.the.open.row.then.the.rest.spell.the.line
//@|         rows_fit(r.0@, line_width),  // @C07:every.finished.row.of.a.wrapped.line.fits.the.panel.wrap.symbol.included
//@before <<<let mut curr_line = CurrLine::reset();>>>| let ghost full = stack_text(line_rev@);
//@loop 1| invariant rows_text(result@) + segs_text(curr_line.line_segments@) + stack_text(stack@) =~= full,
//@loop 1|     curr_line.line_segments@.len() == 0 ==> curr_line.len == 0,
//@loop 1|     curr_line.len <= line_width, line_width <= usize::MAX / 2,
//@loop 1|     curr_line.len == tw(segs_text(curr_line.line_segments@)), rows_fit(result@, line_width),
//@loop 1|     curr_line.len < line_width || stack@.len() == 0 || max_lines == 1,
//@loop 1|     line_width <= INLINE_SYMBOL_WIDTH_1 ==> max_lines == 1,
//@loop 1|     forall|rr: &Vec<LineSections<'a, S>>| rr@.len() < usize::MAX ==> #[trigger] line_limit_reached.requires((rr,)),
//@loop 1|     forall|rr: &Vec<LineSections<'a, S>>, b: bool| #[trigger] line_limit_reached.ensures((rr,), b) ==> b == (max_lines > 0 && rr@.len() + 1 >= max_lines),
//@before <<<let mut width_left = graphemes_width>>>| let ghost c0 = curr_line.line_segments@; let ghost r0 = result@; let ghost st0 = stack@; let ghost mut placed: Seq<char> = Seq::empty(); let ghost mut took: bool = false; let ghost len0 = curr_line.len;
//@afterstmt <<<let this_line = >>>| proof { placed = this_line@; took = true; }
//@before <<<curr_line = CurrLine::reset(); }>>>| proof { let row = result@.last()@; assert(result@ =~= r0.push(result@.last())); assert(row.drop_last() =~= (if took { c0.push((style, this_line_of(row))) } else { c0 })); assert(stack@ =~= st0.push((style, next_line))); assert(placed + next_line@ =~= text@); assert(segs_text(row.drop_last()) =~= segs_text(c0) + placed); assert(rows_text(r0) + segs_text(c0) + (text@ + stack_text(st0)) =~= full); assert(rows_text(result@) + stack_text(stack@) =~= full); assert(tw(segs_text(row)) <= line_width); assert(rows_fit(result@, line_width)); }
//@before <<<false } else if new_len == line_width {>>>| proof { assert(rows_text(result@) + segs_text(curr_line.line_segments@) + stack_text(stack@) =~= full); }
//@loop 2| invariant_except_break gk == it.index@,
//@loop 2| invariant 0 <= gk <= graphemes@.len(), byte_split_pos == prefix_len(graphemes@, gk), width_left + widths_sum(graphemes@, gk) == wl0,
//@loop 2|     it.seq().len() == graphemes@.len(), forall|i: int| 0 <= i < it.seq().len() ==> *(#[trigger] it.seq()[i]) == graphemes@[i],
//@loop 2|     graphemes_ok(text, graphemes@),
//@afterstmt <<<byte_split_pos += item_len;>>>| proof { gk = gk + 1; lemma_prefix_len_mono(graphemes@, gk, graphemes@.len() as int); }
//@before <<<byte_split_pos += item_len;>>>| proof { lemma_prefix_len_mono(graphemes@, gk + 1, graphemes@.len() as int); }
//@loop 1| decreases /* @C03:the.wrapping.loop.terminates.every.round.consumes.text.or.closes.a.row.towards.the.limit */ stack_bytes(stack@), stack@.len(), (if curr_line.line_segments@.len() > 0 { 1int } else { 0int }), (if max_lines > result@.len() { max_lines - result@.len() } else { 0int }),
//@before <<<let mut curr_line = CurrLine::reset();>>>| let mut result: Vec<LineSections<'a, S>> = Vec::new();
//@rewrite <<<line.into_iter().rev().collect::<Vec<_>>()>>> => <<<line_rev>>>
//@rewrite <<<let line_limit_reached = |result: &Vec<_>| max_lines > 0 && result.len() + 1 >= max_lines;>>> => <<<let line_limit_reached = |result: &Vec<LineSections<'a, S>>| -> (b: bool) requires result@.len() < usize::MAX ensures b == (max_lines > 0 && result@.len() + 1 >= max_lines) { max_lines > 0 && result.len() + 1 >= max_lines };>>>
//@rewrite <<<stack .pop() .map(|(style, text)| { ( style, text, text.graphemes(true) .map(|item| (item.len(), item.width())) .collect::<Vec<_>>(), ) }) .unwrap()>>> => <<<verif_pop_with_graphemes(&mut stack)>>>
//@rewrite <<<graphemes.iter().map(|(_, w)| w).sum()>>> => <<<verif_sum_widths(&graphemes)>>>
//@rewrite <<<wrap_config.left_symbol.width()>>> => <<<verif_symbol_width(&wrap_config.left_symbol)>>>
//@rewrite <<<for &(item_len, item_width) in graphemes.iter() {>>> => <<<let ghost mut gk: int = 0; let ghost wl0: int = width_left as int; for gi in it: graphemes.iter() { let (item_len, item_width) = *gi;>>>
//@rewrite <<<&text[..byte_split_pos]>>> => <<<verif_str_to(text, byte_split_pos, Ghost(graphemes@), Ghost(gk))>>>
//@rewrite <<<&text[byte_split_pos..]>>> => <<<verif_str_from(text, byte_split_pos, Ghost(graphemes@), Ghost(gk))>>>

// ---------------------------------------------------------------- wrap_minusplus_block: re-alignment of the rows after wrapping
/// the row indices of the left / right panel named by an alignment, in order
pub open spec fn proj_l(al: Seq<(Option<usize>, Option<usize>)>) -> Seq<int>
    decreases al.len()
{
    if al.len() == 0 { Seq::empty() } else {
        match al.last().0 { Some(i) => proj_l(al.drop_last()).push(i as int), None => proj_l(al.drop_last()) }
    }
}
pub open spec fn proj_r(al: Seq<(Option<usize>, Option<usize>)>) -> Seq<int>
    decreases al.len()
{
    if al.len() == 0 { Seq::empty() } else {
        match al.last().1 { Some(i) => proj_r(al.drop_last()).push(i as int), None => proj_r(al.drop_last()) }
    }
}
pub broadcast proof fn lemma_proj_push(al: Seq<(Option<usize>, Option<usize>)>, x: (Option<usize>, Option<usize>))
    ensures #![trigger proj_l(al.push(x))] #![trigger proj_r(al.push(x))]
        proj_l(al.push(x)) == (match x.0 { Some(i) => proj_l(al).push(i as int), None => proj_l(al) }),
        proj_r(al.push(x)) == (match x.1 { Some(i) => proj_r(al).push(i as int), None => proj_r(al) }),
{ assert(al.push(x).drop_last() =~= al); }
/// the integers a, a+1, .., b-1
pub open spec fn range(a: int, b: int) -> Seq<int> { Seq::new((if b >= a { b - a } else { 0 }) as nat, |k: int| a + k) }
/// rows produced so far for the two panels (ghost): the macro `wrap_and_assert!` appends the rows of one line
pub struct RowCount { pub l: Ghost<int>, pub r: Ghost<int> }
/// (R3) `wrap_and_assert!(Left, .., m, m_expected)`: asserts that the alignment names the expected line, wraps that line
/// and returns the range of rows it now occupies. ASSUMED (wrap_if_too_long): the range starts where the rows ended.
#[verifier::external_body]
pub fn verif_wrap_left(have: &usize, expected: &mut usize, rc: &mut RowCount) -> (r: (usize, usize))
    requires *have == *old(expected),  // @C03:the.alignment.names.the.lines.of.each.side.in.order
    ensures *final(expected) == *old(expected) + 1, r.0 == old(rc).l@, r.1 == final(rc).l@, r.0 <= r.1, final(rc).r == old(rc).r, final(rc).l@ <= isize::MAX,
{ unimplemented!() }
#[verifier::external_body]
pub fn verif_wrap_right(have: &usize, expected: &mut usize, rc: &mut RowCount) -> (r: (usize, usize))
    requires *have == *old(expected),  // @C03:the.alignment.names.the.lines.of.each.side.in.order
    ensures *final(expected) == *old(expected) + 1, r.0 == old(rc).r@, r.1 == final(rc).r@, r.0 <= r.1, final(rc).l == old(rc).l, final(rc).r@ <= isize::MAX,
{ unimplemented!() }
/// (R3) `(a0..a1).zip(b0..b1)` as a vector
#[verifier::external_body]
pub fn verif_zip_ranges(a0: usize, a1: usize, b0: usize, b1: usize) -> (r: Vec<(usize, usize)>)
    requires a0 <= a1, b0 <= b1,
    ensures r@.len() == (if a1 - a0 <= b1 - b0 { a1 - a0 } else { b1 - b0 }),
            forall|k: int| 0 <= k < r@.len() ==> #[trigger] r@[k] == ((a0 + k) as usize, (b0 + k) as usize),
{ unimplemented!() }

//@ region src/wrapping.rs wrap_minusplus_block
//@sig pub fn realign_one_entry(minus: &Option<usize>, plus: &Option<usize>, m_expected: &mut usize, p_expected: &mut usize, new_alignment: &mut Vec<(Option<usize>, Option<usize>)>, rc: &mut RowCount) -> (r: (usize, usize))
//@from <<<let (minus_extended, plus_extended) = match (minus, plus) {>>>
//@until <<<if minus_extended > 0 {>>>
//@tail (minus_extended, plus_extended)
//@| requires !(*minus is None && *plus is None),  // @C03:an.alignment.entry.names.at.least.one.side
//@|          *minus matches Some(m) ==> m == *old(m_expected), *plus matches Some(p) ==> p == *old(p_expected),  // @C03:alignment.indices.are.consecutive.assumed
//@|          0 <= old(rc).l@ <= isize::MAX, 0 <= old(rc).r@ <= isize::MAX,
//@| ensures proj_l(final(new_alignment)@) =~= proj_l(old(new_alignment)@) + range(old(rc).l@, final(rc).l@),  // @C07:after.wrapping.every.row.of.the.left.panel.is.named.exactly.once.in.order
//@|         proj_r(final(new_alignment)@) =~= proj_r(old(new_alignment)@) + range(old(rc).r@, final(rc).r@),  // @C07:after.wrapping.every.row.of.the.right.panel.is.named.exactly.once.in.order
//@|         r.0 == final(rc).l@ - old(rc).l@, r.1 == final(rc).r@ - old(rc).r@,
//@before <<<let (minus_extended, plus_extended) = match (minus, plus) {>>>| let ghost al0 = new_alignment@; let ghost l0 = rc.l@; let ghost r0 = rc.r@; proof { assert(range(l0, l0) =~= Seq::<int>::empty()); assert(range(r0, r0) =~= Seq::<int>::empty()); }
//@loop 1| invariant minus_start == l0, extended_to == rc.l@, rc.r@ == r0, minus_start <= i <= extended_to,
//@loop 1|     proj_l(new_alignment@) =~= proj_l(al0) + range(l0, i as int), proj_r(new_alignment@) =~= proj_r(al0),
//@loop 2| invariant plus_start == r0, extended_to == rc.r@, rc.l@ == l0, plus_start <= i <= extended_to,
//@loop 2|     proj_r(new_alignment@) =~= proj_r(al0) + range(r0, i as int), proj_l(new_alignment@) =~= proj_l(al0),
//@loop 3| invariant minus_start == l0, plus_start == r0, m_extended_to == rc.l@, p_extended_to == rc.r@, l0 <= rc.l@ <= isize::MAX, r0 <= rc.r@ <= isize::MAX,
//@loop 3|     it3.seq().len() == (if m_extended_to - minus_start <= p_extended_to - plus_start { m_extended_to - minus_start } else { p_extended_to - plus_start }),
//@loop 3|     forall|k: int| 0 <= k < it3.seq().len() ==> #[trigger] it3.seq()[k] == ((minus_start + k) as usize, (plus_start + k) as usize),
//@loop 3|     proj_l(new_alignment@) =~= proj_l(al0) + range(l0, l0 + it3.index@), proj_r(new_alignment@) =~= proj_r(al0) + range(r0, r0 + it3.index@),
//@loop 4| invariant l0 <= rc.l@, r0 <= rc.r@, minus_start == l0, m_extended_to == rc.l@, p_extended_to == rc.r@, plus_start == r0, l0 + (p_extended_to - plus_start) <= m <= m_extended_to,
//@loop 4|     proj_l(new_alignment@) =~= proj_l(al0) + range(l0, m as int), proj_r(new_alignment@) =~= proj_r(al0) + range(r0, rc.r@),
//@loop 5| invariant l0 <= rc.l@, r0 <= rc.r@, minus_start == l0, m_extended_to == rc.l@, p_extended_to == rc.r@, plus_start == r0, r0 + (m_extended_to - minus_start) <= p <= p_extended_to,
//@loop 5|     proj_r(new_alignment@) =~= proj_r(al0) + range(r0, p as int), proj_l(new_alignment@) =~= proj_l(al0) + range(l0, rc.l@),
//@afterstmt <<<new_alignment.push((Some(m), None));>>>| proof { assert(range(l0, m as int).push(m as int) =~= range(l0, m + 1)); }
//@afterstmt <<<new_alignment.push((None, Some(p)));>>>| proof { assert(range(r0, p as int).push(p as int) =~= range(r0, p + 1)); }
//@rewrite <<<wrap_and_assert!(Left, "[*l*] (-)", m, m_expected)>>> => <<<verif_wrap_left(m, m_expected, rc)>>>
//@rewrite <<<wrap_and_assert!(Right, "(-) [*r*]", p, p_expected)>>> => <<<verif_wrap_right(p, p_expected, rc)>>>
//@rewrite <<<wrap_and_assert!(Left, "[*l*] (r)", m, m_expected)>>> => <<<verif_wrap_left(m, m_expected, rc)>>>
//@rewrite <<<wrap_and_assert!(Right, "(l) [*r*]", p, p_expected)>>> => <<<verif_wrap_right(p, p_expected, rc)>>>
//@rewrite <<<(minus_start..m_extended_to).zip(plus_start..p_extended_to)>>> => <<<it3: verif_zip_ranges(minus_start, m_extended_to, plus_start, p_extended_to)>>>

// the line length below which input lines are never cut, as a function of --wrap-max-lines (any number is accepted)
impl WrapConfig {
    //@ fn src/wrapping.rs WrapConfig::config_max_line_length
    //@| ensures self.max_lines == 1 ==> r == max_line_length,  // @C07:without.wrapping.the.configured.maximal.line.length.applies
    //@|         self.max_lines == 0 ==> r == 0,  // @C07:with.an.unlimited.number.of.wrapped.rows.no.input.line.is.cut
    //@|         self.max_lines > 1 ==> r >= max_line_length,  // @C07:wrapping.never.lowers.the.maximal.line.length
}

// ---- wrapping.rs adapt_wrap_max_lines_argument: what --wrap-max-lines means
/// what `str::parse::<usize>` makes of a string (None: not a number); uninterpreted
pub uninterp spec fn parsed_usize(s: Seq<char>) -> Option<usize>;
/// (R3) `arg.parse::<usize>().unwrap_or_else(|err| fatal(format!(..)))`: the number, or delta ends with an error message
#[verifier::external_body]
pub fn verif_parse_usize_or_die(arg: &String) -> (r: usize) ensures parsed_usize(arg@) == Some(r) { unimplemented!() }
/// the words for "no limit"
pub open spec fn unlimited_word(s: Seq<char>) -> bool { s == "∞"@ || s == "unlimited"@ || is_prefix("inf"@, s) }
//@ fn src/wrapping.rs adapt_wrap_max_lines_argument
//@| ensures unlimited_word(arg@) ==> r == 0,  // @C07:unlimited.wrapping.is.the.limit.0.which.never.cuts
//@|         !unlimited_word(arg@) ==> (parsed_usize(arg@) matches Some(n) && r == (if n < usize::MAX { (n + 1) as usize } else { usize::MAX })),  // @C07:wrap-max-lines.n.allows.n.additional.rows.the.line.itself.is.the.first
//@rewrite <<<arg.parse::<usize>() .unwrap_or_else(|err| fatal(format!("Invalid wrap-max-lines argument: {err}")))>>> => <<<verif_parse_usize_or_die(&arg)>>>

} // verus!
fn main() {}
