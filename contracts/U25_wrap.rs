//@ include prelude/header.rs
//@ unit U25 wrapping.rs wrap_line: the wrapping loop terminates (C03) and loses no text (C07)
verus! {
//@ include prelude/base.rs
//@ include prelude/std_assumed.rs
//@ shims config
//@ broadcast vax::vax_group wrap_group axiom_vec_len_bound
pub type LineSections<'a, S> = Vec<(S, &'a str)>;
//@ type src/config.rs INLINE_SYMBOL_WIDTH_1
//@ type src/wrapping.rs WrapConfig keep=left_symbol,right_symbol,right_prefix_symbol,use_wrap_right_permille,max_lines noderive
//@ type src/wrapping.rs Stop derives=PartialEq,Eq,Structural
//@ type src/wrapping.rs wrap_line::CurrLine noderive

impl<'a, S: Default> CurrLine<'a, S> {
    //@ fn src/wrapping.rs wrap_line::CurrLine::reset
    //@| ensures r.len == 0, r.line_segments@.len() == 0,
    //@ fn src/wrapping.rs wrap_line::CurrLine::push_and_set_len
    //@| ensures final(self).len == len, final(self).line_segments@ == old(self).line_segments@.push(text),
    //@ fn src/wrapping.rs wrap_line::CurrLine::has_text
    //@| ensures r == (self.len > 0),
    //@ fn src/wrapping.rs wrap_line::CurrLine::text_len
    //@| ensures r == self.len,
}


// ---------------------------------------------------------------- what "no text is lost" means
/// the text of a list of styled segments
pub open spec fn segs_text<S>(s: Seq<(S, &str)>) -> Seq<char>
    decreases s.len()
{ if s.len() == 0 { Seq::empty() } else { segs_text(s.drop_last()) + s.last().1@ } }
/// the text still waiting on the stack (its top is the next piece of the line)
pub open spec fn stack_text<S>(s: Seq<(S, &str)>) -> Seq<char>
    decreases s.len()
{ if s.len() == 0 { Seq::empty() } else { s.last().1@ + stack_text(s.drop_last()) } }
/// the text of the finished rows; each finished row ends with the wrap symbol, which is not part of the line
pub open spec fn rows_text<S>(rows: Seq<Vec<(S, &str)>>) -> Seq<char>
    decreases rows.len()
{ if rows.len() == 0 { Seq::empty() } else { rows_text(rows.drop_last()) + segs_text(rows.last()@.drop_last()) } }
/// display width of a piece of text (unicode-width); uninterpreted, ASSUMED additive over concatenation
pub uninterp spec fn tw(s: Seq<char>) -> nat;
pub broadcast axiom fn axiom_tw_add(a: Seq<char>, b: Seq<char>)
    ensures #[trigger] tw(a + b) == tw(a) + tw(b);
pub broadcast axiom fn axiom_tw_empty()
    ensures #[trigger] tw(Seq::<char>::empty()) == 0;
/// ASSUMED: a newline has no width (`"\n".width() == 0`)
pub broadcast axiom fn axiom_tw_newline()
    ensures #[trigger] tw("\n"@) == 0;
/// a finished row is not wider than the panel
pub open spec fn rows_fit<S>(rows: Seq<Vec<(S, &str)>>, line_width: usize) -> bool {
    forall|i: int| 0 <= i < rows.len() ==> tw(segs_text((#[trigger] rows[i])@)) <= line_width
}
/// bytes still on the stack
pub open spec fn stack_bytes<S>(s: Seq<(S, &str)>) -> nat
    decreases s.len()
{ if s.len() == 0 { 0 } else { stack_bytes(s.drop_last()) + s.last().1.spec_bytes().len() } }
pub broadcast proof fn lemma_segs_push<S>(s: Seq<(S, &str)>, x: (S, &str))
    ensures #[trigger] segs_text(s.push(x)) == segs_text(s) + x.1@
{ assert(s.push(x).drop_last() =~= s); }
pub broadcast proof fn lemma_stack_push<S>(s: Seq<(S, &str)>, x: (S, &str))
    ensures #![trigger stack_text(s.push(x))] #![trigger stack_bytes(s.push(x))]
        stack_text(s.push(x)) == x.1@ + stack_text(s), stack_bytes(s.push(x)) == stack_bytes(s) + x.1.spec_bytes().len()
{ assert(s.push(x).drop_last() =~= s); }
pub broadcast proof fn lemma_rows_push<S>(rows: Seq<Vec<(S, &str)>>, r: Vec<(S, &str)>)
    ensures #[trigger] rows_text(rows.push(r)) == rows_text(rows) + segs_text(r@.drop_last())
{ assert(rows.push(r).drop_last() =~= rows); }
/// the last content segment of a finished row (the one before the wrap symbol)
pub open spec fn this_line_of<S>(row: Seq<(S, &str)>) -> &str { row[row.len() - 2].1 }
pub broadcast group wrap_group { lemma_segs_push, lemma_stack_push, lemma_rows_push, axiom_head_tail, axiom_tw_add, axiom_tw_empty, axiom_tw_newline }
/// ASSUMED: a Vec cannot hold usize::MAX elements (an allocation is at most isize::MAX bytes)
pub broadcast axiom fn axiom_vec_len_bound<T>(v: &Vec<T>)
    ensures #[trigger] v@.len() < usize::MAX;

// ---------------------------------------------------------------- stubs for what the loop body calls
/// the byte lengths and display widths of the grapheme clusters of a text (unicode-segmentation, unicode-width);
/// ASSUMED: every cluster has at least one byte, the lengths add up to the text, every partial sum is a char boundary
pub open spec fn prefix_len(g: Seq<(usize, usize)>, k: int) -> int
    decreases k
{
    if k <= 0 || k > g.len() { 0 } else { prefix_len(g, k - 1) + g[k - 1].0 }
}
pub open spec fn widths_sum(g: Seq<(usize, usize)>, k: int) -> int
    decreases k
{
    if k <= 0 || k > g.len() { 0 } else { widths_sum(g, k - 1) + g[k - 1].1 }
}
pub open spec fn graphemes_ok(text: &str, g: Seq<(usize, usize)>) -> bool {
    &&& forall|i: int| 0 <= i < g.len() ==> (#[trigger] g[i]).0 >= 1
    &&& prefix_len(g, g.len() as int) == text.spec_bytes().len()
    &&& widths_sum(g, g.len() as int) <= usize::MAX / 2
    &&& text.spec_bytes().len() <= usize::MAX
    &&& tw(text@) == widths_sum(g, g.len() as int)
}
pub proof fn lemma_prefix_len_mono(g: Seq<(usize, usize)>, a: int, b: int)
    requires 0 <= a <= b <= g.len(),
    ensures prefix_len(g, a) <= prefix_len(g, b),
    decreases b - a
{
    if a < b { lemma_prefix_len_mono(g, a, b - 1); }
}
/// (R3) `stack.pop().map(|(style, text)| (style, text, text.graphemes(true).map(|item| (item.len(), item.width())).collect::<Vec<_>>())).unwrap()`
#[verifier::external_body]
pub fn verif_pop_with_graphemes<'a, S: Copy>(stack: &mut Vec<(S, &'a str)>) -> (r: (S, &'a str, Vec<(usize, usize)>))
    requires old(stack)@.len() > 0,  // @C03:wrap.pops.only.a.non.empty.stack
    ensures final(stack)@ == old(stack)@.drop_last(), r.0 == old(stack)@.last().0, r.1 == old(stack)@.last().1,
            graphemes_ok(r.1, r.2@),
{ unimplemented!() }
/// (R3) `graphemes.iter().map(|(_, w)| w).sum()`
#[verifier::external_body]
pub fn verif_sum_widths(g: &Vec<(usize, usize)>) -> (r: usize)
    requires widths_sum(g@, g@.len() as int) <= usize::MAX / 2,
    ensures r == widths_sum(g@, g@.len() as int),
{ unimplemented!() }
/// (R3) `wrap_config.left_symbol.width()`; ASSUMED: the wrap symbols are one column wide (ensure_display_width_1)
#[verifier::external_body]
pub fn verif_symbol_width(s: &String) -> (r: usize) ensures r == 1, r == tw(s@) { unimplemented!() }
/// (R3) `&text[..n]` / `&text[n..]` at the end of the first k grapheme clusters
pub uninterp spec fn str_head(s: Seq<char>, n: int) -> Seq<char>;
pub uninterp spec fn str_tail(s: Seq<char>, n: int) -> Seq<char>;
/// ASSUMED: the two halves of a string cut at a boundary put together are the string
pub broadcast axiom fn axiom_head_tail(s: Seq<char>, n: int)
    ensures #![trigger str_head(s, n)] #![trigger str_tail(s, n)] str_head(s, n) + str_tail(s, n) == s;
#[verifier::external_body]
pub fn verif_str_to<'a>(s: &'a str, n: usize, Ghost(g): Ghost<Seq<(usize, usize)>>, Ghost(k): Ghost<int>) -> (r: &'a str)
    requires graphemes_ok(s, g), 0 <= k <= g.len(), n == prefix_len(g, k),  // @C03:wrap.cuts.a.text.at.the.end.of.a.whole.grapheme
    ensures r@ == str_head(s@, n as int), r.spec_bytes().len() == n, tw(r@) == widths_sum(g, k),
{ unimplemented!() }
#[verifier::external_body]
pub fn verif_str_from<'a>(s: &'a str, n: usize, Ghost(g): Ghost<Seq<(usize, usize)>>, Ghost(k): Ghost<int>) -> (r: &'a str)
    requires graphemes_ok(s, g), 0 <= k <= g.len(), n == prefix_len(g, k),  // @C03:wrap.cuts.a.text.at.the.end.of.a.whole.grapheme
    ensures r@ == str_tail(s@, n as int), r.spec_bytes().len() == s.spec_bytes().len() - n,
{ unimplemented!() }

//@ region src/wrapping.rs wrap_line
//@sig pub fn wrap_line_loop<'a, S: Copy + Default>(wrap_config: &'a WrapConfig, line_rev: Vec<(S, &'a str)>, line_width: usize, fill_style: &S, inline_hint_style: &Option<S>) -> (r: (Vec<LineSections<'a, S>>, CurrLine<'a, S>, Vec<(S, &'a str)>, Stop))
//@from <<<let mut curr_line = CurrLine::reset();>>>
//@until <<<// Right-align wrapped line:>>>
//@tail (result, curr_line, stack, stop)
//@| requires line_width <= usize::MAX / 2,
//@| ensures rows_text(r.0@) + segs_text(r.1.line_segments@) + stack_text(r.2@) =~= stack_text(line_rev@),  // @C07:wrapping.loses.no.text.rows.then.the.open.row.then.the.rest.spell.the.line
//@|         rows_fit(r.0@, line_width),  // @C07:every.finished.row.of.a.wrapped.line.fits.the.panel.wrap.symbol.included
//@before <<<let mut curr_line = CurrLine::reset();>>>| let ghost full = stack_text(line_rev@);
//@loop 1| invariant rows_text(result@) + segs_text(curr_line.line_segments@) + stack_text(stack@) =~= full,
//@loop 1|     curr_line.line_segments@.len() == 0 ==> curr_line.len == 0,
//@loop 1|     curr_line.len <= line_width, line_width <= usize::MAX / 2,
//@loop 1|     curr_line.len == tw(segs_text(curr_line.line_segments@)), rows_fit(result@, line_width),
//@loop 1|     curr_line.len < line_width || stack@.len() == 0 || max_lines == 1,
//@loop 1|     line_width <= INLINE_SYMBOL_WIDTH_1 ==> max_lines == 1,
//@loop 1|     forall|rr: &Vec<LineSections<'a, S>>| rr@.len() < usize::MAX ==> #[trigger] line_limit_reached.requires((rr,)),
//@loop 1|     forall|rr: &Vec<LineSections<'a, S>>, b: bool| #[trigger] line_limit_reached.ensures((rr,), b) ==> b == (max_lines > 0 && rr@.len() + 1 >= max_lines),
//@before <<<let mut width_left = graphemes_width>>>| let ghost c0 = curr_line.line_segments@; let ghost r0 = result@; let ghost st0 = stack@; let ghost mut placed: Seq<char> = Seq::empty(); let ghost mut took: bool = false; let ghost len0 = curr_line.len;
//@afterstmt <<<let this_line = >>>| proof { placed = this_line@; took = true; }
//@before <<<curr_line = CurrLine::reset(); }>>>| proof { let row = result@.last()@; assert(result@ =~= r0.push(result@.last())); assert(row.drop_last() =~= (if took { c0.push((style, this_line_of(row))) } else { c0 })); assert(stack@ =~= st0.push((style, next_line))); assert(placed + next_line@ =~= text@); assert(segs_text(row.drop_last()) =~= segs_text(c0) + placed); assert(rows_text(r0) + segs_text(c0) + (text@ + stack_text(st0)) =~= full); assert(rows_text(result@) + stack_text(stack@) =~= full); assert(tw(segs_text(row)) <= line_width); assert(rows_fit(result@, line_width)); }
//@before <<<false } else if new_len == line_width {>>>| proof { assert(rows_text(result@) + segs_text(curr_line.line_segments@) + stack_text(stack@) =~= full); }
//@loop 2| invariant_except_break gk == it.index@,
//@loop 2| invariant 0 <= gk <= graphemes@.len(), byte_split_pos == prefix_len(graphemes@, gk), width_left + widths_sum(graphemes@, gk) == wl0,
//@loop 2|     it.seq().len() == graphemes@.len(), forall|i: int| 0 <= i < it.seq().len() ==> *(#[trigger] it.seq()[i]) == graphemes@[i],
//@loop 2|     graphemes_ok(text, graphemes@),
//@afterstmt <<<byte_split_pos += item_len;>>>| proof { gk = gk + 1; lemma_prefix_len_mono(graphemes@, gk, graphemes@.len() as int); }
//@before <<<byte_split_pos += item_len;>>>| proof { lemma_prefix_len_mono(graphemes@, gk + 1, graphemes@.len() as int); }
//@loop 1| decreases /* @C03:the.wrapping.loop.terminates.every.round.consumes.text.or.closes.a.row.towards.the.limit */ stack_bytes(stack@), stack@.len(), (if curr_line.line_segments@.len() > 0 { 1int } else { 0int }), (if max_lines > result@.len() { max_lines - result@.len() } else { 0int }),
//@before <<<let mut curr_line = CurrLine::reset();>>>| let mut result: Vec<LineSections<'a, S>> = Vec::new();
//@rewrite <<<line.into_iter().rev().collect::<Vec<_>>()>>> => <<<line_rev>>>
//@rewrite <<<let line_limit_reached = |result: &Vec<_>| max_lines > 0 && result.len() + 1 >= max_lines;>>> => <<<let line_limit_reached = |result: &Vec<LineSections<'a, S>>| -> (b: bool) requires result@.len() < usize::MAX ensures b == (max_lines > 0 && result@.len() + 1 >= max_lines) { max_lines > 0 && result.len() + 1 >= max_lines };>>>
//@rewrite <<<stack .pop() .map(|(style, text)| { ( style, text, text.graphemes(true) .map(|item| (item.len(), item.width())) .collect::<Vec<_>>(), ) }) .unwrap()>>> => <<<verif_pop_with_graphemes(&mut stack)>>>
//@rewrite <<<graphemes.iter().map(|(_, w)| w).sum()>>> => <<<verif_sum_widths(&graphemes)>>>
//@rewrite <<<wrap_config.left_symbol.width()>>> => <<<verif_symbol_width(&wrap_config.left_symbol)>>>
//@rewrite <<<for &(item_len, item_width) in graphemes.iter() {>>> => <<<let ghost mut gk: int = 0; let ghost wl0: int = width_left as int; for gi in it: graphemes.iter() { let (item_len, item_width) = *gi;>>>
//@rewrite <<<&text[..byte_split_pos]>>> => <<<verif_str_to(text, byte_split_pos, Ghost(graphemes@), Ghost(gk))>>>
//@rewrite <<<&text[byte_split_pos..]>>> => <<<verif_str_from(text, byte_split_pos, Ghost(graphemes@), Ghost(gk))>>>

} // verus!
fn main() {}
