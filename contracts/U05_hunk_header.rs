//@ include prelude/header.rs
//@ unit U05 handlers/hunk_header.rs: hunk header emission (C05 header number/path, C14 one hunk header, C01 lines kept, C03 indexing)
verus! {
//@ set PAINTER_EXTRA ,highlighter
//@ set CONFIG_EXTRA ,hunk_header_file_style,hunk_header_line_number_style,hunk_header_style_include_file_path,hunk_header_style_include_line_number,hunk_header_style_include_code_fragment,decorations_width,null_style
//@ include prelude/sm_env.rs

//@ type src/handlers/hunk_header.rs HunkHeaderIncludeHunkLabel
#[verifier::external_body]
pub struct StyleSectionSpecifier<'l> { _p: std::marker::PhantomData<&'l ()> }
/// the style sections are sections OF this text (`superimpose_style_sections` panics with "String mismatch" when the
/// text it is given to paint is another one); uninterpreted
pub uninterp spec fn sections_of(ss: StyleSectionSpecifier, text: Seq<char>) -> bool;

/// Opaque stand-in for `Box<draw::DrawFunction>` (a boxed `dyn FnMut`); called through `verif_draw`.
#[verifier::external_body]
pub struct DrawFn { _p: u8 }
pub uninterp spec fn draw_out(text: Seq<char>, raw_text: Seq<char>, addendum: Seq<char>, text_style: Style, deco: ansi_term::Style) -> Seq<char>;
#[verifier::external_body]
pub fn verif_draw(f: &mut DrawFn, writer: &mut Writer, text: &str, raw_text: &str, addendum: &str, line_width: &Width, text_style: Style, decoration_style: ansi_term::Style) -> (r: std::io::Result<()>)
    ensures r.is_ok() ==> final(writer).hist() == old(writer).hist().push(Ev::Text(draw_out(text@, raw_text@, addendum@, text_style, decoration_style), true)),
            r.is_err() ==> final(writer).hist() == old(writer).hist(),
{ unimplemented!() }
#[verifier::external_body]
pub fn get_draw_function(decoration_style: DecorationStyle) -> (r: (DrawFn, bool, ansi_term::Style))
{ unimplemented!() }

/// The text of a hunk header line as a function of what it is built from: the code fragment,
/// the hunk coordinates, the original line and the path argument (and, fixed for the run, the
/// configured styles).  Uninterpreted: only the identity of its arguments matters.
pub uninterp spec fn wloc_out(code_fragment: Seq<char>, plus_line_number: usize, line: Seq<char>, plus_file: Seq<char>) -> Seq<char>;
/// Result of `paint_file_path_with_line_number` (hunk_header.rs wrapper) as a function of number and path.
pub uninterp spec fn pfp_out(line_number: Option<usize>, plus_file: Seq<char>) -> Seq<char>;

impl<'a> LineNumbersData<'a> {
    //@ stub src/features/line_numbers.rs LineNumbersData::initialize_hunk spec=line_numbers.initialize_hunk
}
impl<'p> Painter<'p> {
    //@ stub src/paint.rs Painter::emit spec=paint.emit
    //@ stub src/paint.rs Painter::paint_buffered_minus_and_plus_lines spec=paint.paint_buffered_minus_and_plus_lines
    //@ stub src/paint.rs Painter::set_highlighter spec=paint.set_syntax
}
//@ stub src/handlers/hunk_header.rs write_hunk_header_raw spec=hunk_header.write_raw
//@ stub src/handlers/hunk_header.rs write_to_output_buffer spec=hunk_header.write_to_output_buffer
//@ stub src/handlers/hunk_header.rs paint_file_path_with_line_number spec=hunk_header.pfp

//@ stub src/handlers/hunk_header.rs write_line_of_code_with_optional_path_and_line_number spec=hunk_header.wloc
//@ fn src/handlers/hunk_header.rs write_line_of_code_with_optional_path_and_line_number spec=hunk_header.wloc.body od=off as=write_line_of_code_with_optional_path_and_line_number_body
//@rewriteall <<<draw_fn(>>> => <<<verif_draw(&mut draw_fn,>>>
//@afterstmt <<<let plus_line_number =>>>| proof { reveal_strlit(" "); reveal_strlit(""); if style_sections is Some && line@.len() > 0 { assert(/* @C03:when.style.sections.are.supplied.the.text.to.paint.is.the.code.fragment.they.were.computed.for */ line@ =~= code_fragment@ + seq![' ']); assert(line@.drop_last() =~= code_fragment@); } } assert(/* @C05:wloc.number.is.new.file.start */ plus_line_number == line_numbers_and_hunk_lengths@.last().0); assert(/* @C14,C02:the.text.of.a.hunk.header.is.the.code.fragment.unchanged.when.it.is.asked.for.and.there.is.one.the.whole.line.under.color.only.and.nothing.otherwise */ line@ =~= (if config.color_only && style_sections is None { line0 } else if *include_code_fragment is Yes && code_fragment@.len() > 0 { code_fragment@ + seq![' '] } else { Seq::<char>::empty() }));
//@before <<<let line = if>>>| let ghost line0 = line@;

/// (R3) `self.line.chars().take_while(|c| c == &'@').count()`: number of leading '@' characters.
pub uninterp spec fn leading_ats(s: Seq<char>) -> usize;
#[verifier::external_body]
pub fn verif_count_leading_ats(s: &str) -> (r: usize)
    ensures r == leading_ats(s@), is_prefix("@@"@, s@) ==> r >= 2,
{ unimplemented!() }
impl AmbiguousDiffMinusCounter {
    //@ stub src/handlers/hunk_header.rs AmbiguousDiffMinusCounter::must_count
    //@ stub src/handlers/hunk_header.rs AmbiguousDiffMinusCounter::count_from
}
//@ stub src/handlers/hunk_header.rs parse_hunk_header spec=hunk_header.parse_hunk_header

/// a line that starts with `@@` does not start with `-Subproject commit `
pub proof fn lemma_hunk_header_is_no_submodule_line(l: Seq<char>)
    ensures !(is_prefix("@@"@, l) && is_prefix("-Subproject commit "@, l)),
{
    reveal_strlit("@@"); reveal_strlit("-Subproject commit ");
    if is_prefix("@@"@, l) && is_prefix("-Subproject commit "@, l) {
        assert(l.subrange(0, 2)[0] == '@');
        assert(l.subrange(0, "-Subproject commit "@.len() as int)[0] == '-');
    }
}
impl<'a> StateMachine<'a> {
    //@ fn src/handlers/hunk_header.rs StateMachine::test_hunk_header_line
    //@| ensures r == (is_prefix("@@"@, self.line@) && !(self.state is MergeConflict)),  // @C04,C14:a.hunk.header.is.a.line.that.starts.with.two.at.signs.outside.a.conflict.region
    //@ fn src/handlers/hunk_header.rs StateMachine::handle_hunk_header_line spec=hunk_header.handle_hunk_header_line
    //@|     r == Ok::<bool, std::io::Error>(true) ==> hunk_dt(final(self).state) == (match old(self).state {
    //@|         State::DiffHeader(DiffType::Combined(MergeParents::Unknown, InMergeConflict::No)) => DiffType::Combined(MergeParents::Number((leading_ats(old(self).line@) - 1) as usize), InMergeConflict::No),
    //@|         State::DiffHeader(d) => d, State::HunkMinus(d, _) => d, State::HunkZero(d, _) => d, State::HunkPlus(d, _) => d,
    //@|         _ => DiffType::Unified }),  // @C01,C05:the.hunks.of.a.combined.diff.have.one.marker.column.per.parent.one.less.than.the.at.signs.of.the.header.other.hunks.keep.the.diff.type.of.their.section
    //@before <<<let mut handled_line = false;>>>| proof { lemma_hunk_header_is_no_submodule_line(self.line@); }
    //@rewrite <<<self.line.chars().take_while(|c| c == &'@').count()>>> => <<<verif_count_leading_ats(&self.line)>>>
    //@rewrite <<<if let &[(_, minus_lines), (_, _plus_lines), ..] = parsed_hunk_header.line_numbers_and_hunk_lengths.as_slice() {>>> => <<<if parsed_hunk_header.line_numbers_and_hunk_lengths.len() >= 2 { let minus_lines = parsed_hunk_header.line_numbers_and_hunk_lengths[0].1;>>>
    //@ fn src/handlers/hunk_header.rs StateMachine::emit_hunk_header_line spec=hunk_header.emit_hunk_header_line
    //@after <<<self.painter.paint_buffered_minus_and_plus_lines();>>>| assert(/* @C01:ehh.keeps.lines.step */ all_lines(&self.painter) =~= all_lines(&old(self).painter)); let ghost mut fresh_highlighter = false;
    //@after#1/2 <<<self.painter.set_highlighter();>>>| proof { fresh_highlighter = true; }
    //@before <<<write_line_of_code_with_optional_path_and_line_number(>>>| assert(/* @C10,C15:the.code.fragment.of.a.hunk.header.is.highlighted.with.a.highlighter.made.for.this.hunk.not.with.what.the.lines.before.left.behind */ fresh_highlighter);
    //@before <<<let ParsedHunkHeader {>>>| let ghost h1 = self.painter.writer.hist(); assert(only_text_after(h1, h1)); assert(self.painter.output_buffer@ =~= Seq::<char>::empty()); assert(/* @C01:ehh.keeps.lines.step */ all_lines(&self.painter) =~= all_lines(&old(self).painter));
    //@before <<<write_line_of_code_with_optional_path_and_line_number( code_fragment,>>>| let ghost hb = self.painter.writer.hist(); let ghost expected_path = if self.plus_file@ == "/dev/null"@ { self.minus_file@ } else { self.plus_file@ };
    //@after <<<":", self.config, )?;>>>| assert(/* @C05,C14,C19:ehh.header.number.path.fragment */ self.painter.writer.hist() == hb || self.painter.writer.hist() == hb.push(Ev::Text(wloc_out(parsed_hunk_header.code_fragment@, parsed_hunk_header.line_numbers_and_hunk_lengths@.last().0, line@, expected_path), true)));
    //@before <<<Ok(>>>| proof { assert(only_text_after(h1, self.painter.writer.hist())); lemma_hist_lines_only_text(h1, self.painter.writer.hist()); assert(self.painter.output_buffer@ =~= Seq::<char>::empty()); assert(/* @C01:ehh.keeps.lines.step */ all_lines(&self.painter) =~= all_lines(&old(self).painter)); }
    //@ fn src/handlers/hunk_header.rs StateMachine::handle_pending_hunk_header_line spec=hunk_header.pending optional=1
}

} // verus!
fn main() {}
