//@ include prelude/header.rs
//@ unit U10 features/hyperlinks.rs: OSC 8 wrapper and file-link URL (C09 opened links are closed, C19 link carries the displayed number and path)
verus! {
//@ include prelude/base.rs
//@ include prelude/std_assumed.rs
//@ shims config
//@ broadcast vax::vax_group
//@ type src/config.rs Config keep=hyperlinks_file_link_format,hostname

/// `str::replace(from, to)` ("Replaces all matches of a pattern with another string"): uninterpreted,
/// the result is a function of the three strings.
pub uninterp spec fn replace_spec(s: Seq<char>, from: Seq<char>, to: Seq<char>) -> Seq<char>;
#[verifier::allow(undeclared_external_trait)]
pub assume_specification<P: Pattern>[ str::replace::<P> ](s: &str, from: P, to: &str) -> (r: String)
    ensures r@ == replace_spec(s@, pat_view(from), to@);

/// `absolute_path.as_ref().to_string_lossy()` (R3): the path as text.
pub uninterp spec fn path_text<P>(p: &P) -> Seq<char>;
pub uninterp spec fn path_is_absolute<P>(p: &P) -> bool;
#[verifier::external_body]
pub fn verif_path_to_string<P>(p: &P) -> (r: String) ensures r@ == path_text(p) { unimplemented!() }
#[verifier::external_body]
pub fn verif_path_is_absolute<P>(p: &P) -> (r: bool) ensures r == path_is_absolute(p) { unimplemented!() }

/// An OSC 8 hyperlink: opener with the URL, the text, closer - all in one string.
pub open spec fn osc8_spec(url: Seq<char>, text: Seq<char>) -> Seq<char> {
    "\x1b]"@ + "8;;"@ + url + "\x1b\\"@ + text + "\x1b]"@ + "8;;"@ + "\x1b\\"@
}
pub open spec fn file_url_spec(config: &Config, path: Seq<char>, line_number: Option<usize>) -> Seq<char> {
    let u0 = replace_spec(config.hyperlinks_file_link_format@, "{path}"@, path);
    let u1 = match config.hostname { Some(h) => replace_spec(u0, "{host}"@, h@), None => u0 };
    match line_number {
        Some(n) => replace_spec(u1, "{line}"@, usize_decimal(n)),
        None => replace_spec(u1, "{line}"@, ""@),
    }
}

/// What `format!("{n}")` yields under rule E4: `"" + decimal(n) + ""`.
pub open spec fn verif_fmt1_view(n: usize) -> Seq<char> { ""@ + usize_decimal(n) + ""@ }

//@ fn src/features/hyperlinks.rs format_osc8_hyperlink
//@| ensures r@ == osc8_spec(url@, text@),  // @C09,C19:osc8.opened.and.closed.around.unchanged.text
//@before <<<verif_fmt6(>>>| proof { assert(""@ =~= Seq::<char>::empty()) by { reveal_strlit(""); } }

//@ fn src/features/hyperlinks.rs format_osc8_file_hyperlink
//@| requires path_is_absolute(&absolute_path),  // @C19:file.link.path.is.absolute
//@| ensures cow_view(&r) == osc8_spec(file_url_spec(config, path_text(&absolute_path), line_number), text@),  // @C19:file.link.carries.path.and.displayed.line.number
//@before <<<let mut url>>>| proof { reveal_strlit(""); }
//@before <<<url = url.replace("{line}", &>>>| assert(verif_fmt1_view(n) =~= usize_decimal(n));
//@rewrite <<<absolute_path.as_ref().is_absolute()>>> => <<<verif_path_is_absolute(&absolute_path)>>>
//@rewrite <<<&absolute_path.as_ref().to_string_lossy()>>> => <<<&verif_path_to_string(&absolute_path)>>>

} // verus!
fn main() {}
