//@ include prelude/header.rs
//@ unit U10 features/hyperlinks.rs: OSC 8 wrapper and file-link URL (C09 opened links are closed, C19 link carries the displayed number and path)
verus! {
//@ include prelude/base.rs
//@ include prelude/std_assumed.rs
//@ shims config features::hyperlinks hyperlinks
//@ broadcast vax::vax_group axiom_cow_ref_str axiom_cow_to_string
/// --file-transformation (utils/regex_replacement.rs, crate regex): what the displayed name becomes; uninterpreted
#[verifier::external_body]
pub struct RegexReplacement { _p: u8 }
pub uninterp spec fn regex_replaced(r: &RegexReplacement, s: Seq<char>) -> Seq<char>;
impl RegexReplacement {
    #[verifier::external_body]
    pub fn execute<'t>(&self, s: &'t str) -> (r: Cow<'t, str>) ensures cow_view(&r) == regex_replaced(self, s@) { unimplemented!() }
}
//@ type src/config.rs Config keep=hyperlinks_file_link_format,hostname,hyperlinks,diff_stat_align_width,file_regex_replacement,file_modified_label,file_removed_label,file_added_label,file_renamed_label,file_copied_label,right_arrow

/// `str::replace(from, to)` ("Replaces all matches of a pattern with another string"): uninterpreted,
/// the result is a function of the three strings.
pub uninterp spec fn replace_spec(s: Seq<char>, from: Seq<char>, to: Seq<char>) -> Seq<char>;
#[verifier::allow(undeclared_external_trait)]
pub assume_specification<P: Pattern>[ str::replace::<P> ](s: &str, from: P, to: &str) -> (r: String)
    ensures r@ == replace_spec(s@, pat_view(from), to@);

/// `absolute_path.as_ref().to_string_lossy()` (R3): the path as text.
pub uninterp spec fn path_text<P>(p: &P) -> Seq<char>;
pub uninterp spec fn path_is_absolute<P>(p: &P) -> bool;
#[verifier::external_body]
pub fn verif_path_to_string<P>(p: &P) -> (r: String) ensures r@ == path_text(p) { unimplemented!() }
#[verifier::external_body]
pub fn verif_path_is_absolute<P>(p: &P) -> (r: bool) ensures r == path_is_absolute(p) { unimplemented!() }

/// An OSC 8 hyperlink: opener with the URL, the text, closer - all in one string.
pub open spec fn osc8_spec(url: Seq<char>, text: Seq<char>) -> Seq<char> {
    "\x1b]"@ + "8;;"@ + url + "\x1b\\"@ + text + "\x1b]"@ + "8;;"@ + "\x1b\\"@
}
pub open spec fn file_url_spec(config: &Config, path: Seq<char>, line_number: Option<usize>) -> Seq<char> {
    let u0 = replace_spec(config.hyperlinks_file_link_format@, "{path}"@, path);
    let u1 = match config.hostname { Some(h) => replace_spec(u0, "{host}"@, h@), None => u0 };
    match line_number {
        Some(n) => replace_spec(u1, "{line}"@, usize_decimal(n)),
        None => replace_spec(u1, "{line}"@, ""@),
    }
}

/// What `format!("{n}")` yields under rule E4: `"" + decimal(n) + ""`.
pub open spec fn verif_fmt1_view(n: usize) -> Seq<char> { ""@ + usize_decimal(n) + ""@ }

//@ fn src/features/hyperlinks.rs format_osc8_hyperlink
//@| ensures r@ == osc8_spec(url@, text@),  // @C09,C19:osc8.opened.and.closed.around.unchanged.text
//@before <<<verif_fmt6(>>>| proof { assert(""@ =~= Seq::<char>::empty()) by { reveal_strlit(""); } }

//@ fn src/features/hyperlinks.rs format_osc8_file_hyperlink
//@| requires path_is_absolute(&absolute_path),  // @C19:file.link.path.is.absolute
//@| ensures cow_view(&r) == osc8_spec(file_url_spec(config, path_text(&absolute_path), line_number), text@),  // @C19:file.link.carries.path.and.displayed.line.number
//@before <<<let mut url>>>| proof { reveal_strlit(""); }
//@before <<<url = url.replace("{line}", &>>>| assert(verif_fmt1_view(n) =~= usize_decimal(n));
//@rewrite <<<absolute_path.as_ref().is_absolute()>>> => <<<verif_path_is_absolute(&absolute_path)>>>
//@rewrite <<<&absolute_path.as_ref().to_string_lossy()>>> => <<<&verif_path_to_string(&absolute_path)>>>

// ---------------------------------------------------------------- handlers/diff_stat.rs
/// (R3) the two capture groups of DIFF_STAT_LINE_REGEX: the path and the text from the pipe onwards; uninterpreted
pub uninterp spec fn stat_matches(line: Seq<char>) -> bool;
pub uninterp spec fn stat_path(line: Seq<char>) -> Seq<char>;
pub uninterp spec fn stat_suffix(line: Seq<char>) -> Seq<char>;
pub struct VMatch<'a> { pub s: &'a str }
impl<'a> VMatch<'a> { pub fn as_str(&self) -> (r: &'a str) ensures r == self.s { self.s } }
pub struct VCaps<'a> { pub g1: &'a str, pub g2: &'a str }
impl<'a> VCaps<'a> {
    #[verifier::external_body]
    pub fn get(&self, n: usize) -> (r: Option<VMatch<'a>>)
        ensures n == 1 ==> r == Some(VMatch { s: self.g1 }), n == 2 ==> r == Some(VMatch { s: self.g2 }),
    { unimplemented!() }
}
#[verifier::external_body]
pub fn verif_diff_stat_captures<'a>(line: &'a str) -> (r: Option<VCaps<'a>>)
    ensures r is Some == stat_matches(line@),
            r matches Some(c) ==> c.g1@ == stat_path(line@) && c.g2@ == stat_suffix(line@),
{ unimplemented!() }
/// crate pathdiff: `diff_paths(path, base)` as displayed text (`.to_str()`); uninterpreted
pub uninterp spec fn diff_paths_text(path: Seq<char>, base: Seq<char>) -> Option<Seq<char>>;
pub struct VRelPath { pub text: Option<String> }
impl VRelPath {
    pub fn to_str(&self) -> (r: Option<&str>)
        ensures match r { Some(t) => self.text matches Some(u) && t@ == u@, None => self.text is None },
    { match &self.text { Some(t) => Some(t.as_str()), None => None } }
}
pub mod pathdiff {
    use vstd::prelude::*;
    use super::*;
    #[verifier::external_body]
    pub fn diff_paths(path: &str, base: &str) -> (r: Option<VRelPath>)
        ensures match r { Some(p) => (match p.text { Some(t) => diff_paths_text(path@, base@) == Some(t@), None => diff_paths_text(path@, base@) is None }),
                          None => diff_paths_text(path@, base@) is None },
    { unimplemented!() }
}
/// utils::path::absolute_path: where a displayed (relative) path lives; ASSUMED to return absolute paths
pub uninterp spec fn abs_path_text(rel: Seq<char>, config: &Config) -> Option<Seq<char>>;
pub mod utils { pub mod path {
    use vstd::prelude::*;
    use crate::*;
    #[verifier::external_body]
    pub fn absolute_path(relative_path: &str, config: &Config) -> (r: Option<PathBuf>)
        ensures match r { Some(p) => path_is_absolute(&p) && abs_path_text(relative_path@, config) == Some(path_text(&p)), None => abs_path_text(relative_path@, config) is None },
    { unimplemented!() }
} }
pub open spec fn spaces(n: nat) -> Seq<char> { Seq::new(n, |k: int| ' ') }
#[verifier::external_body]
pub fn verif_spaces(n: usize) -> (r: String) ensures r@ == spaces(n as nat) { unimplemented!() }
/// what a diff-stat line becomes under --relative-paths: the path relative to the user's directory, linked
/// (when hyperlinks are on) to where THAT path lives, padded by the width of the DISPLAYED path only
pub open spec fn diff_stat_line_spec(line: Seq<char>, cwd: Seq<char>, config: &Config) -> Option<Seq<char>> {
    if !stat_matches(line) { None } else {
        match diff_paths_text(stat_path(line), cwd) {
            None => None,
            Some(rel) => {
                let shown = match abs_path_text(rel, config) {
                    Some(abs) => if config.hyperlinks { osc8_spec(file_url_spec(config, abs, None), rel) } else { rel },
                    None => rel,
                };
                let pad: nat = if config.diff_stat_align_width >= encode_utf8(rel).len() { (config.diff_stat_align_width - encode_utf8(rel).len()) as nat } else { 0 };
                Some(" "@ + shown + ""@ + spaces(pad) + ""@ + stat_suffix(line) + ""@)
            }
        }
    }
}

//@ fn src/handlers/diff_stat.rs relativize_path_in_diff_stat_line
//@| ensures opt_view(r) == diff_stat_line_spec(line@, cwd_relative_to_repo_root@, config),  // @C19:diff.stat.link.targets.the.displayed.file.and.padding.ignores.the.link
//@rewrite <<<DIFF_STAT_LINE_REGEX.captures(line)?>>> => <<<verif_diff_stat_captures(line)?>>>
//@rewrite <<<" ".repeat(pad_width)>>> => <<<verif_spaces(pad_width)>>>
pub open spec fn opt_view(o: Option<String>) -> Option<Seq<char>> { match o { Some(s) => Some(s@), None => None } }

// ---------------------------------------------------------------- handlers/diff_header.rs: the `format_file` closure of the file header line
/// the name shown in a file header (after --file-transformation)
pub open spec fn shown_file(file: Seq<char>, config: &Config) -> Seq<char> {
    match config.file_regex_replacement { Some(rr) => regex_replaced(&rr, file), None => file }
}
/// C19: the link wraps the DISPLAYED name and points at where the file NAMED IN THE DIFF lives
pub open spec fn format_file_spec(file: Seq<char>, config: &Config) -> Seq<char> {
    match abs_path_text(file, config) {
        Some(abs) => if config.hyperlinks { osc8_spec(file_url_spec(config, abs, None), shown_file(file, config)) } else { shown_file(file, config) },
        None => shown_file(file, config),
    }
}
//@ region src/handlers/diff_header.rs get_file_change_description_from_file_paths
//@sig pub fn format_file_region<'a>(file: &'a str, config: &'a Config) -> (r: Cow<'a, str>)
//@from <<<let formatted_file = if let Some(regex_replacement)>>>
//@to <<<_ => formatted_file, }>>>
//@| ensures cow_view(&r) == format_file_spec(file@, config),  // @C19:file.header.link.wraps.the.shown.name.and.targets.the.named.file

// ---------------------------------------------------------------- handlers/diff_header.rs: what the file header line says (C14)
//@ type src/handlers/diff_header.rs FileEvent derives=Clone,Copy,PartialEq,Eq,Structural
/// a label is followed by one blank, an empty label by nothing
pub open spec fn label_spec(label: Seq<char>) -> Seq<char> { if label.len() > 0 { label + " "@ } else { Seq::empty() } }
//@ region src/handlers/diff_header.rs get_file_change_description_from_file_paths
//@sig pub fn format_label_region(label: &str) -> (r: String)
//@from <<<if !label.is_empty() {>>>
//@until <<<}; if comparing {>>>
//@| ensures r@ =~= label_spec(label@),  // @C14:a.label.is.separated.from.the.path.by.one.blank.and.an.empty.label.leaves.nothing
//@before <<<if !label.is_empty() {>>>| proof { reveal_strlit(" "); reveal_strlit(""); }
/// ASSUMED: a `str` is its text (Verus matches a string-literal PATTERN by equality of the str values, and knows that
/// equal values have equal text, but not the converse)
pub axiom fn axiom_str_is_its_text(a: &str, b: &str)
    requires a@ == b@,
    ensures a == b;
/// C14: the file header names the file - once when both sides name the same file, the old name for a removed file, the
/// new name for an added file, and OLD then NEW around the arrow for a renamed or copied one - after the label of the event
pub open spec fn description_spec(minus_file: Seq<char>, plus_file: Seq<char>, event: FileEvent, config: &Config) -> Seq<char> {
    if minus_file == plus_file { label_spec(config.file_modified_label@) + format_file_spec(minus_file, config) }
    else if plus_file == "/dev/null"@ { label_spec(config.file_removed_label@) + format_file_spec(minus_file, config) }
    else if minus_file == "/dev/null"@ { label_spec(config.file_added_label@) + format_file_spec(plus_file, config) }
    else {
        label_spec(match event { FileEvent::Rename => config.file_renamed_label@, FileEvent::Copy => config.file_copied_label@, _ => config.file_modified_label@ })
            + format_file_spec(minus_file, config) + " "@ + config.right_arrow@ + " "@ + format_file_spec(plus_file, config)
    }
}
//@ region src/handlers/diff_header.rs get_file_change_description_from_file_paths
//@sig pub fn file_change_description_region<'a>(minus_file: &'a str, plus_file: &'a str, minus_file_event: &FileEvent, plus_file_event: &FileEvent, config: &'a Config) -> (r: String)
//@from <<<match (minus_file, plus_file, minus_file_event, plus_file_event) {>>>
//@toblock
//@| ensures r@ =~= description_spec(minus_file@, plus_file@, *minus_file_event, config),  // @C14:the.file.header.names.the.right.file.old.then.new.for.renames.and.copies.after.the.label.of.the.event
//@before <<<match (minus_file, plus_file, minus_file_event, plus_file_event) {>>>| proof { reveal_strlit(" "); reveal_strlit(""); if plus_file@ == "/dev/null"@ { axiom_str_is_its_text(plus_file, "/dev/null"); } if minus_file@ == "/dev/null"@ { axiom_str_is_its_text(minus_file, "/dev/null"); } }
//@rewriteall <<<format_file(minus_file)>>> => <<<format_file_region(minus_file, config)>>>
//@rewriteall <<<format_file(plus_file)>>> => <<<format_file_region(plus_file, config)>>>
//@rewriteall <<<format_label(>>> => <<<format_label_region(>>>
/// the header of a plain `diff -u a b` comparison: both names as given
//@ region src/handlers/diff_header.rs get_file_change_description_from_file_paths
//@sig pub fn file_comparison_description_region(minus_file: &str, plus_file: &str, config: &Config) -> (r: String)
//@fromafter <<<if comparing {>>>
//@until <<<} else { let format_file = |file| {>>>
//@before <<<verif_fmt4(>>>| proof { reveal_strlit(" "); reveal_strlit(""); }
//@| ensures r@ =~= label_spec(config.file_modified_label@) + minus_file@ + " "@ + config.right_arrow@ + " "@ + plus_file@,  // @C14:a.comparison.header.shows.both.names.old.then.new
//@rewriteall <<<format_label(>>> => <<<format_label_region(>>>

// ---------------------------------------------------------------- features/line_numbers.rs format_line_number
//@ type src/format.rs Align derives=Clone,Copy,PartialEq,Eq,Structural
/// format::pad (width / alignment / precision formatting of a number); uninterpreted
pub uninterp spec fn pad_spec(n: usize, width: usize, alignment: Align, precision: Option<usize>) -> Seq<char>;
pub mod format {
    use vstd::prelude::*;
    use crate::*;
    #[verifier::external_body]
    pub fn pad(n: usize, width: usize, alignment: Align, precision: Option<usize>) -> (r: String)
        ensures r@ == pad_spec(n, width, alignment, precision) { unimplemented!() }
}
/// `Cow<str>::to_string()`: the text
pub broadcast axiom fn axiom_cow_to_string(c: &Cow<'_, str>, r: String)
    ensures #[trigger] vstd::string::to_string_from_display_ensures::<Cow<'_, str>>(c, r) <==> r@ == cow_view(c);
/// C19/C05: the field shows the padded number; with hyperlinks on and a resolvable path the SAME text is wrapped in a
/// link that carries exactly this number; an absent number is `width` spaces
pub open spec fn line_number_field_spec(line_number: Option<usize>, alignment: Align, width: usize, precision: Option<usize>, plus_file: Option<&str>, config: &Config) -> Seq<char> {
    match line_number {
        None => spaces(width as nat),
        Some(n) => {
            let shown = pad_spec(n, width, alignment, precision);
            match plus_file {
                Some(file) => if config.hyperlinks && abs_path_text(file@, config) is Some {
                        osc8_spec(file_url_spec(config, abs_path_text(file@, config)->0, Some(n)), shown)
                    } else { shown },
                None => shown,
            }
        }
    }
}
//@ fn src/features/line_numbers.rs format_line_number
//@| ensures r@ == line_number_field_spec(line_number, alignment, width, precision, plus_file, config),  // @C19,C05,C09:the.line.number.field.is.the.padded.number.or.that.number.wrapped.in.one.whole.link.carrying.it
//@rewrite <<<let pad = |n| format::pad(n, width, alignment, precision);>>> => <<<let pad = |n: usize| -> (p: String) ensures p@ == pad_spec(n, width, alignment, precision) { format::pad(n, width, alignment, precision) };>>>
//@rewrite <<<" ".repeat(width)>>> => <<<verif_spaces(width)>>>

// ---------------------------------------------------------------- format_commit_line_with_osc8_commit_hyperlink: a line that already carries a link
//@ region src/features/hyperlinks.rs format_commit_line_with_osc8_commit_hyperlink
//@sig pub fn commit_link_guard<'a>(line: &'a str) -> (r: Option<&'a str>)
//@fromafter <<<result.push_str(&line[pos..]); result } }>>>
//@until <<<if let Some(commit_link_format) = &config.hyperlinks_commit_link_format {>>>
//@tail None
//@| ensures contains_spec(line@, "\x1b]8;"@) ==> r == Some(line),  // @C09,C19:a.commit.line.that.already.carries.a.hyperlink.is.left.alone.no.link.is.opened.inside.a.link.or.inside.its.url
//@|         r matches Some(l) ==> l == line,
//@rewrite <<<return Cow::from(line);>>> => <<<return Some(line);>>>

} // verus!
fn main() {}
