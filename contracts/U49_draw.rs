//@ include prelude/header.rs
//@ unit U49 handlers/draw.rs paint_text / write_no_decoration: an undecorated header is exactly one written line - the raw text as it came when its style is raw, else the painted text (C02, C04, C09)
verus! {
//@ include prelude/base.rs
//@ include prelude/std_assumed.rs
//@ include prelude/ansi_term.rs
//@ include prelude/style.rs
//@ type src/cli.rs Width
//@ broadcast vax::vax_group lemma_empty_affixes
/// `format!("{x}")`: nothing before and nothing after the value
pub broadcast proof fn lemma_empty_affixes(x: Seq<char>)
    ensures #[trigger] (""@ + x + ""@) == x,
{ reveal_strlit(""); assert(""@ + x + ""@ =~= x); }
/// ansi_term: what `style.paint(text).to_string()` writes (the style's escape sequences around the text); uninterpreted
pub uninterp spec fn painted(style: Style, text: Seq<char>) -> Seq<char>;
#[verifier::external_body]
pub struct Painted { _p: u8 }
impl Painted {
    pub uninterp spec fn text(&self) -> Seq<char>;
    #[verifier::external_body]
    pub fn to_string(&self) -> (r: String) ensures r@ == self.text() { unimplemented!() }
}
/// the text types `Style::paint` is called with here (`&str`, `String`)
pub trait PaintInput { spec fn as_text(&self) -> Seq<char>; }
impl PaintInput for &str { open spec fn as_text(&self) -> Seq<char> { (*self)@ } }
impl PaintInput for String { open spec fn as_text(&self) -> Seq<char> { self@ } }
impl Style {
    #[verifier::external_body]
    pub fn paint<T: PaintInput>(self, input: T) -> (r: Painted) ensures r.text() == painted(self, input.as_text()) { unimplemented!() }
}
/// (R3) `text.to_string() + " (" + addendum + ")"` (String + &str is `Add`, which this vstd does not specify)
#[verifier::external_body]
pub fn verif_with_addendum(text: &str, addendum: &str) -> (r: String) ensures r@ == text@ + " ("@ + addendum@ + ")"@ { unimplemented!() }

/// the text of a header as it is painted: with its addendum (mode change ...) in parentheses when there is one
pub open spec fn header_text(text: Seq<char>, addendum: Seq<char>) -> Seq<char> {
    if addendum.len() == 0 { text } else { text + " ("@ + addendum + ")"@ }
}
//@ fn src/handlers/draw.rs paint_text
//@| ensures r@ == painted(text_style, header_text(text@, addendum@)),  // @C14,C09:a.header.is.painted.as.one.run.its.addendum.in.parentheses.when.there.is.one
//@rewrite <<<text.to_string() + " (" + addendum + ")">>> => <<<verif_with_addendum(text, addendum)>>>

//@ fn src/handlers/draw.rs write_no_decoration
//@| ensures r.is_ok() ==> final(writer).hist() == old(writer).hist().push(Ev::Text(if text_style.is_raw { raw_text@ } else { painted(text_style, header_text(text@, addendum@)) }, true)),  // @C02,C04,C09:an.undecorated.header.is.exactly.one.line.the.raw.text.as.it.came.when.its.style.is.raw.else.the.painted.text
//@|         r.is_err() ==> final(writer).hist() == old(writer).hist(),

} // verus!
fn main() {}
