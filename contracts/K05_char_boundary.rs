// K05 utils/round_char_boundary.rs is_utf8_char_boundary (C03): the bit trick `(b as i8) >= -0x40` says exactly "this byte is not a
// UTF-8 continuation byte" (b < 128 or b >= 192) - the test floor_char_boundary relies on when it cuts an over-long line, before an
// `unwrap_unchecked` (undefined behaviour if no such byte were found).
// Engine: Kani function contract over ALL 256 byte values (loop-free: a complete proof); counterexample replayed on the extracted function.
// kani: harness=check_is_utf8_char_boundary fn=is_utf8_char_boundary inputs=b:u8

#[cfg_attr(kani, kani::ensures(|r: &bool| *r == (b < 128 || b >= 192)))]  // @C03:a.byte.is.taken.for.a.character.boundary.exactly.when.it.is.not.a.utf8.continuation.byte
//@ fn src/utils/round_char_boundary.rs is_utf8_char_boundary plain=1

#[cfg(kani)]
#[kani::proof_for_contract(is_utf8_char_boundary)]
fn check_is_utf8_char_boundary() {
    let b: u8 = kani::any();
    is_utf8_char_boundary(b);
}

#[cfg(not(kani))]
fn main() {
    // replay: the argument is the bit pattern (binary) of Kani's counterexample
    let a: Vec<u8> = std::env::args().skip(1).map(|s| u64::from_str_radix(&s, 2).expect("bit pattern") as u8).collect();
    let b = a[0];
    let r = is_utf8_char_boundary(b);
    println!("is_utf8_char_boundary({:#04x}) = {}", b, r);
    let ok = r == (b < 128 || b >= 192);
    println!("{}", if ok { "postcondition holds" } else { "postcondition VIOLATED on the real function" });
    std::process::exit(if ok { 0 } else { 1 });
}
#[cfg(kani)]
fn main() {}
