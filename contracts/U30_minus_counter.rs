//@ include prelude/header.rs
//@ unit U30 handlers/hunk_header.rs AmbiguousDiffMinusCounter: counting the lines of a hunk never switches the counter off (C10), no overflow (C03)
verus! {
//@ include prelude/base.rs
//@ include prelude/std_assumed.rs
//@ type src/handlers/hunk_header.rs AmbiguousDiffMinusCounter

/// (R3) `lines.try_into().unwrap_or(default)` for usize -> isize: try_into "returns an error if the value does not fit"
#[verifier::external_body]
pub fn verif_usize_to_isize_or(lines: usize, default: isize) -> (r: isize)
    ensures r == (if lines <= isize::MAX { lines as isize } else { default }),
{ unimplemented!() }

impl AmbiguousDiffMinusCounter {
    //@ type src/handlers/hunk_header.rs AmbiguousDiffMinusCounter::COUNTER_RELEVANT_IF_GREATER_THAN
    //@ type src/handlers/hunk_header.rs AmbiguousDiffMinusCounter::EXPECT_DIFF_3DASH_HEADER

    /// the input is in the ambiguous format: `--- ` lines are told from removed lines by counting
    pub open spec fn needed(&self) -> bool { self.0 > Self::COUNTER_RELEVANT_IF_GREATER_THAN }
    /// still inside a hunk: this many '-'/' ' lines are yet to come
    pub open spec fn counting(&self) -> bool { self.0 >= 1 }

    //@ fn src/handlers/hunk_header.rs AmbiguousDiffMinusCounter::not_needed
    //@| ensures !r.needed(),  // @C10:a.counter.that.is.not.needed.says.so
    //@ fn src/handlers/hunk_header.rs AmbiguousDiffMinusCounter::prepare_to_count
    //@| ensures r.needed() && !r.counting(),  // @C10:the.first.file.header.of.an.ambiguous.diff.is.expected
    //@ fn src/handlers/hunk_header.rs AmbiguousDiffMinusCounter::three_dashes_expected
    //@| ensures r == !(self.needed() && self.counting()),  // @C10:a.three.dash.line.is.a.file.header.unless.the.lines.of.a.hunk.are.still.being.counted
    //@ fn src/handlers/hunk_header.rs AmbiguousDiffMinusCounter::count_line
    //@| ensures final(self).needed() == old(self).needed(),  // @C10:counting.lines.never.switches.the.counter.on.or.off
    //@|         old(self).counting() ==> final(self).0 == old(self).0 - 1,  // @C10:every.counted.line.is.counted.once
    //@|         !old(self).counting() ==> !final(self).counting(),
    //@ fn src/handlers/hunk_header.rs AmbiguousDiffMinusCounter::count_from
    //@| ensures lines <= isize::MAX ==> r.0 == lines && r.needed(),  // @C10:the.announced.number.of.lines.is.what.is.counted
    //@rewrite <<<lines .try_into() .unwrap_or(Self::COUNTER_RELEVANT_IF_GREATER_THAN),>>> => <<<verif_usize_to_isize_or(lines, Self::COUNTER_RELEVANT_IF_GREATER_THAN),>>>
    //@ fn src/handlers/hunk_header.rs AmbiguousDiffMinusCounter::must_count
    //@| ensures r == old(self).needed(), *final(self) == *old(self),  // @C10:a.hunk.header.restarts.the.count.exactly.when.the.counter.is.needed
}

} // verus!
fn main() {}
