//@ include prelude/header.rs
//@ unit U21 handlers/merge_conflict.rs: lines of a conflict region are stored once, painted once per comparison, and never left behind (C01, C04, C03)
verus! {
//@ set PAINTER_EXTRA ,highlighter
//@ set CONFIG_EXTRA ,handle_merge_conflicts,merge_conflict_begin_symbol,merge_conflict_end_symbol,merge_conflict_ours_diff_header_style,merge_conflict_theirs_diff_header_style,decorations_width,right_arrow,available_terminal_width
//@ include prelude/minusplus.rs
pub use MergeConflictCommit::*;
//@ include prelude/sm_env.rs

pub open spec fn mc_get<T>(m: MergeConflictCommits<T>, c: MergeConflictCommit) -> T {
    match c { MergeConflictCommit::Ours => m.ours, MergeConflictCommit::Ancestral => m.ancestral, MergeConflictCommit::Theirs => m.theirs }
}
impl<T> std::ops::Index<MergeConflictCommit> for MergeConflictCommits<T> {
    type Output = T;
    //@ fn src/handlers/merge_conflict.rs MergeConflictCommits@Index#1::index
    //@| ensures *r == mc_get(*self, commit),  // @C01:conflict.buffers.are.indexed.by.their.side
}
impl<T> vstd::std_specs::core::IndexSpecImpl<MergeConflictCommit> for MergeConflictCommits<T> {
    open spec fn index_req(&self, c: &MergeConflictCommit) -> bool { true }
}
impl<T> std::ops::Index<&MergeConflictCommit> for MergeConflictCommits<T> {
    type Output = T;
    //@ fn src/handlers/merge_conflict.rs MergeConflictCommits@Index#2::index
    //@| ensures *r == mc_get(*self, *commit),  // @C01:conflict.buffers.are.indexed.by.their.side.by.reference
}
impl<'c, T> vstd::std_specs::core::IndexSpecImpl<&'c MergeConflictCommit> for MergeConflictCommits<T> {
    open spec fn index_req(&self, c: &&'c MergeConflictCommit) -> bool { true }
}
impl<T> std::ops::IndexMut<MergeConflictCommit> for MergeConflictCommits<T> {
    //@ fn src/handlers/merge_conflict.rs MergeConflictCommits@IndexMut::index_mut
    //@| ensures *r == mc_get(*old(self), commit),  // @C01:writing.one.side.of.the.conflict.buffers.leaves.the.others
    //@|         match commit {
    //@|             MergeConflictCommit::Ours => final(self).ours == *final(r) && final(self).ancestral == old(self).ancestral && final(self).theirs == old(self).theirs,
    //@|             MergeConflictCommit::Ancestral => final(self).ancestral == *final(r) && final(self).ours == old(self).ours && final(self).theirs == old(self).theirs,
    //@|             MergeConflictCommit::Theirs => final(self).theirs == *final(r) && final(self).ours == old(self).ours && final(self).ancestral == old(self).ancestral,
    //@|         },
}
/// the text a conflict line is stored with: the line without its marker columns, tabs expanded (paint::prepare)
pub open spec fn state_dt(s: State) -> DiffType {
    match s { State::HunkMinus(d, _) => d, State::HunkZero(d, _) => d, State::HunkPlus(d, _) => d, _ => DiffType::Unified }
}
pub open spec fn mc_stored_text(sm: &StateMachine, state: State) -> Seq<char> {
    prepare_spec(sm.line@, n_parents_spec(state_dt(state)), &sm.config.tab_cfg)
}
/// v1 is v0 with one more line: this text, tagged with this state
pub open spec fn mc_pushed(v1: Seq<(String, State)>, v0: Seq<(String, State)>, text: Seq<char>, state: State) -> bool {
    v1.len() == v0.len() + 1 && v1.subrange(0, v0.len() as int) =~= v0 && v1.last().1 == state && v1.last().0@ == text
}
/// everything of the painter but the stored conflict lines is unchanged
pub open spec fn mc_painter_rest_same(a: &Painter, b: &Painter) -> bool {
    &&& a.minus_lines == b.minus_lines && a.plus_lines == b.plus_lines && a.output_buffer == b.output_buffer
    &&& a.writer.hist() == b.writer.hist() && a.merge_conflict_commit_names == b.merge_conflict_commit_names
    &&& (a.line_numbers_data is Some) == (b.line_numbers_data is Some)
}
/// C10: no commit name of a conflict region is remembered (the next region, maybe in the next file, may have fewer)
pub open spec fn mc_names_empty(n: &MergeConflictCommitNames) -> bool { n.ours is None && n.ancestral is None && n.theirs is None }
impl MergeConflictCommits<Option<String>> {
    //@ fn src/handlers/merge_conflict.rs MergeConflictCommitNames::new
    //@| ensures mc_names_empty(&r),  // @C10:new.conflict.names.are.empty
}
/// nothing of a conflict region is held
pub open spec fn mc_empty(m: &MergeConflictLines) -> bool { m.ours@.len() == 0 && m.ancestral@.len() == 0 && m.theirs@.len() == 0 }
impl MergeConflictCommits<Vec<(String, State)>> {
    //@ fn src/handlers/merge_conflict.rs MergeConflictLines::new
    //@| ensures mc_empty(&r),  // @C01:new.conflict.buffers.are.empty
    //@ fn src/handlers/merge_conflict.rs MergeConflictLines::clear
    //@| ensures mc_empty(final(self)),  // @C01:conflict.lines.cleared.on.all.three.sides.so.none.is.painted.again
}

// ---------------------------------------------------------------- stubs
/// `str::trim` ("Returns a string slice with leading and trailing whitespace removed"); uninterpreted
pub uninterp spec fn trim_spec(s: Seq<char>) -> Seq<char>;
pub assume_specification[ str::trim ](s: &str) -> (r: &str)
    ensures r@ == trim_spec(s@);
//@ stub src/paint.rs prepare spec=paint.prepare
//@ stub src/paint.rs paint_minus_and_plus_lines spec=paint.paint_minus_and_plus_lines
impl DiffType {
    //@ stub src/delta.rs DiffType::n_parents spec=delta.n_parents
}
impl<'p> Painter<'p> {
    //@ stub src/paint.rs Painter::emit spec=paint.emit
    //@ stub src/paint.rs Painter::paint_buffered_minus_and_plus_lines spec=paint.paint_buffered_minus_and_plus_lines optional=1
}
/// the two decoration writers: exactly one line of text each, nothing else touched
pub uninterp spec fn mc_header_text(c: MergeConflictCommit, style: Style, names: &MergeConflictCommitNames, config: &Config) -> Seq<char>;
pub uninterp spec fn mc_bar_text(s: Seq<char>, config: &Config) -> Seq<char>;
#[verifier::external_body]
pub fn write_diff_header(derived_commit_type: &MergeConflictCommit, style: Style, painter: &mut Painter, config: &Config) -> (r: std::io::Result<()>)
    requires old(painter).output_buffer@.len() == 0,  // @C01,C04,C10,C11,C14:OD.merge.conflict.header
    ensures r.is_ok() ==> final(painter).writer.hist() == old(painter).writer.hist().push(Ev::Text(mc_header_text(*derived_commit_type, style, &old(painter).merge_conflict_commit_names, config), true)),
            mc_rest_same(final(painter), old(painter)),
{ unimplemented!() }
#[verifier::external_body]
pub fn write_merge_conflict_bar(s: &str, painter: &mut Painter, config: &Config) -> (r: std::io::Result<()>)
    requires old(painter).output_buffer@.len() == 0,  // @C01,C04,C10,C11,C14:OD.merge.conflict.bar
    ensures r.is_ok() ==> final(painter).writer.hist() == old(painter).writer.hist().push(Ev::Text(mc_bar_text(s@, config), true)),
            mc_rest_same(final(painter), old(painter)),
{ unimplemented!() }
/// everything of the painter but the writer is unchanged
pub open spec fn mc_rest_same(a: &Painter, b: &Painter) -> bool {
    &&& a.minus_lines == b.minus_lines && a.plus_lines == b.plus_lines && a.output_buffer == b.output_buffer
    &&& a.merge_conflict_lines == b.merge_conflict_lines && a.merge_conflict_commit_names == b.merge_conflict_commit_names
    &&& (a.line_numbers_data is Some) == (b.line_numbers_data is Some)
}
pub open spec fn mp_known(mp: MergeParents) -> bool { !(mp is Unknown) }


/// a marker line only switches the state (and records the commit name); a non-marker line changes nothing
pub open spec fn mc_enter_ok(o: &StateMachine, f: &StateMachine, r: bool, new_state: State, marker: Seq<char>) -> bool {
    &&& sm_frame(f, o)
    &&& f.painter.merge_conflict_lines == o.painter.merge_conflict_lines
    &&& f.painter.minus_lines@ == o.painter.minus_lines@ && f.painter.plus_lines@ == o.painter.plus_lines@
    &&& f.painter.output_buffer == o.painter.output_buffer && f.painter.writer.hist() == o.painter.writer.hist()
    &&& (f.painter.line_numbers_data is Some) == (o.painter.line_numbers_data is Some)
    &&& (r ==> f.state == new_state && is_prefix(marker, o.line@))
    &&& (!r ==> f.state == o.state && f.painter == o.painter)
}
/// the begin marker: the buffered lines of the hunk are rendered (the region itself is written directly when it ends,
/// so whatever is still buffered then would come out after it), nothing is stored, nothing is written yet
pub open spec fn mc_begin_ok(o: &StateMachine, f: &StateMachine, r: std::io::Result<bool>, new_state: State) -> bool {
    &&& sm_frame(f, o)
    &&& f.painter.merge_conflict_lines == o.painter.merge_conflict_lines
    &&& (f.painter.line_numbers_data is Some) == (o.painter.line_numbers_data is Some)
    // C11: ... and WRITTEN (the region may be long): nothing waits in the output buffer while the region is collected
    &&& (r == Ok::<bool, std::io::Error>(true) ==> f.state == new_state && is_prefix("++<<<<<<<"@, o.line@) && f.painter.minus_lines@.len() == 0 && f.painter.plus_lines@.len() == 0
              && f.painter.output_buffer@.len() == 0 && all_lines(&f.painter) =~= all_lines(&o.painter))
    &&& (r == Ok::<bool, std::io::Error>(false) ==> f.state == o.state && f.painter == o.painter)
    &&& (!is_prefix("++<<<<<<<"@, o.line@) ==> r == Ok::<bool, std::io::Error>(false))
}
/// The stored region is written as: what was buffered, the begin bar, then for Ours and for Theirs a header
/// followed by the comparison ancestor -> side (every stored line of the ancestor and of that side, once, in
/// order), then the end bar; afterwards nothing is stored and the state is an ordinary unchanged-line state.
pub open spec fn mc_painted(o: &StateMachine, f: &StateMachine, mp: MergeParents) -> bool {
    &&& mc_empty(&f.painter.merge_conflict_lines)
    &&& f.state == State::HunkZero(DiffType::Combined(mp, InMergeConflict::No), None)
    &&& f.painter.minus_lines@ == o.painter.minus_lines@ && f.painter.plus_lines@ == o.painter.plus_lines@
    &&& mc_names_empty(&f.painter.merge_conflict_commit_names)
    &&& (f.painter.line_numbers_data is Some) == (o.painter.line_numbers_data is Some)
    &&& exists|b1: Seq<char>, b2: Seq<char>| #[trigger] mc_bufs_ok(o, 2, b1, b2)
         && f.painter.writer.hist() == mc_hist(o, 2, b1, b2).push(Ev::Text(mc_bar_text(o.config.merge_conflict_end_symbol@, o.config), true))
}
/// b1 / b2: what the first k comparisons rendered - every stored ancestor line, then every stored line of that side
pub open spec fn mc_bufs_ok(o: &StateMachine, k: int, b1: Seq<char>, b2: Seq<char>) -> bool {
    let l = o.painter.merge_conflict_lines;
    &&& (k >= 1 ==> lines_of(b1) == texts(l.ancestral@) + texts(l.ours@))
    &&& (k >= 2 ==> lines_of(b2) == texts(l.ancestral@) + texts(l.theirs@))
}
/// the output history after the begin bar and k comparisons
pub open spec fn mc_hist(o: &StateMachine, k: int, b1: Seq<char>, b2: Seq<char>) -> Seq<Ev> {
    let c = o.config;
    let n = &o.painter.merge_conflict_commit_names;
    let h0 = o.painter.writer.hist()
        .push(Ev::Flush(o.painter.output_buffer@))
        .push(Ev::Text(mc_bar_text(c.merge_conflict_begin_symbol@, c), true));
    let h1 = h0
        .push(Ev::Text(mc_header_text(MergeConflictCommit::Ours, c.merge_conflict_ours_diff_header_style, n, c), true))
        .push(Ev::Flush(Seq::empty()))
        .push(Ev::Flush(b1));
    let h2 = h1
        .push(Ev::Text(mc_header_text(MergeConflictCommit::Theirs, c.merge_conflict_theirs_diff_header_style, n, c), true))
        .push(Ev::Flush(Seq::empty()))
        .push(Ev::Flush(b2));
    if k <= 0 { h0 } else if k == 1 { h1 } else { h2 }
}
/// loop invariant of the two comparisons
pub open spec fn mc_loop_inv(o: &StateMachine, s: &StateMachine, k: int) -> bool {
    &&& sm_frame(s, o) && s.state == o.state
    &&& s.painter.merge_conflict_lines == o.painter.merge_conflict_lines
    &&& s.painter.merge_conflict_commit_names == o.painter.merge_conflict_commit_names
    &&& s.painter.minus_lines@ == o.painter.minus_lines@ && s.painter.plus_lines@ == o.painter.plus_lines@
    &&& s.painter.output_buffer@.len() == 0
    &&& (s.painter.line_numbers_data is Some) == (o.painter.line_numbers_data is Some)
    &&& 0 <= k <= 2
    &&& exists|b1: Seq<char>, b2: Seq<char>| #[trigger] mc_bufs_ok(o, k, b1, b2) && s.painter.writer.hist() == mc_hist(o, k, b1, b2)
}
/// the same, after the name of "theirs" has been recorded from the end marker
pub open spec fn mc_painted_but_names(o: &StateMachine, f: &StateMachine, mp: MergeParents) -> bool {
    &&& mc_empty(&f.painter.merge_conflict_lines)
    &&& f.state == State::HunkZero(DiffType::Combined(mp, InMergeConflict::No), None)
    &&& f.painter.minus_lines@ == o.painter.minus_lines@ && f.painter.plus_lines@ == o.painter.plus_lines@
    &&& f.painter.output_buffer@.len() == 0
    &&& mc_names_empty(&f.painter.merge_conflict_commit_names)
}


pub open spec fn mc_state_parents_known(s: State) -> bool {
    match s {
        State::MergeConflict(mp, _) => mp_known(mp),
        State::HunkHeader(DiffType::Combined(mp, _), _, _, _) => mp_known(mp),
        State::HunkMinus(DiffType::Combined(mp, _), _) => mp_known(mp),
        State::HunkZero(DiffType::Combined(mp, _), _) => mp_known(mp),
        State::HunkPlus(DiffType::Combined(mp, _), _) => mp_known(mp),
        _ => true,
    }
}
pub open spec fn mc_mp(s: State) -> MergeParents { match s { State::MergeConflict(mp, _) => mp, _ => MergeParents::Unknown } }
/// the stored lines of exactly one side grew by this line; everything else of the painter is as before
pub open spec fn mc_stored_on(o: &StateMachine, f: &StateMachine, c: MergeConflictCommit, state: State) -> bool {
    &&& mc_pushed(mc_get(f.painter.merge_conflict_lines, c)@, mc_get(o.painter.merge_conflict_lines, c)@, mc_stored_text(o, state), state)
    &&& forall|c2: MergeConflictCommit| c2 != c ==> mc_get(f.painter.merge_conflict_lines, c2) == mc_get(o.painter.merge_conflict_lines, c2)
    &&& mc_painter_rest_same(&f.painter, &o.painter)
    &&& f.state == o.state
}
/// nothing stored, buffered or written changed
pub open spec fn mc_only_state_changed(o: &StateMachine, f: &StateMachine) -> bool {
    &&& f.painter.merge_conflict_lines == o.painter.merge_conflict_lines
    &&& f.painter.minus_lines@ == o.painter.minus_lines@ && f.painter.plus_lines@ == o.painter.plus_lines@
    &&& f.painter.output_buffer == o.painter.output_buffer && f.painter.writer.hist() == o.painter.writer.hist()
}
pub open spec fn mc_line_accounted(o: &StateMachine, f: &StateMachine) -> bool {
    let l = o.line@;
    ||| ((is_prefix("++|||||||"@, l) || is_prefix("++======="@, l)) && mc_only_state_changed(o, f) && f.state is MergeConflict)
    ||| (is_prefix("++<<<<<<<"@, l) && f.state is MergeConflict && f.painter.merge_conflict_lines == o.painter.merge_conflict_lines
            && f.painter.output_buffer@.len() == 0 && f.painter.minus_lines@.len() == 0 && f.painter.plus_lines@.len() == 0
            && all_lines(&f.painter) =~= all_lines(&o.painter))
    ||| (is_prefix("++>>>>>>>"@, l) && mc_empty(&f.painter.merge_conflict_lines) && !(f.state is MergeConflict) && f.painter.output_buffer@.len() == 0
            && f.painter.minus_lines@ == o.painter.minus_lines@ && f.painter.plus_lines@ == o.painter.plus_lines@)
    ||| mc_stored_side(o, f, MergeConflictCommit::Ours) || mc_stored_side(o, f, MergeConflictCommit::Ancestral) || mc_stored_side(o, f, MergeConflictCommit::Theirs)
}
/// side c holds one more line: this line, prepared according to the hunk state it is tagged with
pub open spec fn mc_stored_side(o: &StateMachine, f: &StateMachine, c: MergeConflictCommit) -> bool {
    let v1 = mc_get(f.painter.merge_conflict_lines, c)@;
    v1.len() > 0 && mc_stored_on(o, f, c, v1.last().1) && (v1.last().1 is HunkMinus || v1.last().1 is HunkPlus)
}

//@ fn src/handlers/merge_conflict.rs parse_merge_marker
//@| ensures r is Some ==> is_prefix(marker@, line@),  // @C01,C04:a.conflict.marker.is.recognised.by.its.prefix
//@|         r matches Some(x) ==> x@.len() > 0,  // @C10:a.commit.name.taken.from.a.conflict.marker.is.never.empty

impl<'a> StateMachine<'a> {
    //@ fn src/handlers/merge_conflict.rs StateMachine::store_line
    //@| requires (state is HunkMinus || state is HunkZero || state is HunkPlus), state_diff_type_known(state),  // @C03:store_line.is.given.a.hunk.state
    //@| ensures r, sm_frame(final(self), old(self)), final(self).state == old(self).state,
    //@|         mc_pushed(mc_get(final(self).painter.merge_conflict_lines, commit)@, mc_get(old(self).painter.merge_conflict_lines, commit)@, mc_stored_text(old(self), state), state),  // @C01:conflict.line.is.stored.once.with.its.text
    //@|         forall|c: MergeConflictCommit| c != commit ==> mc_get(final(self).painter.merge_conflict_lines, c) == mc_get(old(self).painter.merge_conflict_lines, c),
    //@|         mc_painter_rest_same(&final(self).painter, &old(self).painter),

    //@ fn src/handlers/merge_conflict.rs StateMachine::enter_merge_conflict
    //@| ensures mc_begin_ok(old(self), final(self), r, State::MergeConflict(*merge_parents, MergeConflictCommit::Ours)),  // @C01,C04,C11:the.hunk.lines.that.precede.a.conflict.region.are.rendered.and.written.before.it.the.begin.marker.stores.nothing
    //@ fn src/handlers/merge_conflict.rs StateMachine::enter_ancestral
    //@| ensures mc_enter_ok(old(self), final(self), r, State::MergeConflict(*merge_parents, MergeConflictCommit::Ancestral), "++|||||||"@),  // @C01,C04:conflict.ancestral.marker.changes.the.state.only
    //@ fn src/handlers/merge_conflict.rs StateMachine::enter_theirs
    //@| ensures mc_enter_ok(old(self), final(self), r, State::MergeConflict(*merge_parents, MergeConflictCommit::Theirs), "++======="@),  // @C01,C04:conflict.theirs.marker.changes.the.state.only

    //@ fn src/handlers/merge_conflict.rs StateMachine::paint_buffered_merge_conflict_lines
    //@| requires mp_known(*merge_parents),
    //@| ensures sm_frame(final(self), old(self)),
    //@|         r.is_ok() ==> mc_painted(old(self), final(self), *merge_parents),  // @C01,C10:conflict.lines.are.painted.once.per.comparison.then.cleared.and.the.commit.names.forgotten
    //@|         r.is_ok() ==> final(self).painter.output_buffer@.len() == 0,
    //@rewrite <<<for (derived_commit_type, header_style) in &[>>> => <<<for (derived_commit_type, header_style) in it: &[>>>
    //@loop 1| invariant mc_loop_inv(old(self), self, it.index@), it.seq().len() == 2,
    //@loop 1|     it.seq()[0].0 == MergeConflictCommit::Ours && it.seq()[0].1 == old(self).config.merge_conflict_ours_diff_header_style,
    //@loop 1|     it.seq()[1].0 == MergeConflictCommit::Theirs && it.seq()[1].1 == old(self).config.merge_conflict_theirs_diff_header_style,
    //@before <<<write_diff_header(>>>| let ghost k = it.index@; let ghost w = choose|b1: Seq<char>, b2: Seq<char>| #[trigger] mc_bufs_ok(old(self), k, b1, b2) && self.painter.writer.hist() == mc_hist(old(self), k, b1, b2); let ghost h_k = self.painter.writer.hist(); assert(mc_bufs_ok(old(self), k, w.0, w.1) && h_k == mc_hist(old(self), k, w.0, w.1));
    //@afterstmt <<<write_diff_header(>>>| assert(self.painter.output_buffer@ =~= Seq::<char>::empty());
    //@before <<<paint::paint_minus_and_plus_lines(>>>| assert(self.painter.output_buffer@ =~= Seq::<char>::empty());
    //@afterstmt <<<paint::paint_minus_and_plus_lines(>>>| let ghost ob = self.painter.output_buffer@; proof { let l = old(self).painter.merge_conflict_lines; let ta = texts(l.ancestral@); let ts = texts(mc_get(l, *derived_commit_type)@); assert(self.painter.merge_conflict_lines == l); assert(lines_of(ob) == lines_of(Seq::<char>::empty()) + ta + ts); broadcast use rax::rax_group; assert(lines_of(Seq::<char>::empty()) == Seq::<Seq<char>>::empty()); assert(Seq::<Seq<char>>::empty() + ta =~= ta); assert(lines_of(ob) == ta + ts); }
    //@after#3/3 <<<self.painter.emit()?;>>>| proof { let nb = self.painter.writer.hist().last()->Flush_0; if k == 0 { assert(mc_bufs_ok(old(self), 1, nb, w.1)); assert(self.painter.writer.hist() == mc_hist(old(self), 1, nb, w.1)); } else { assert(mc_bufs_ok(old(self), 2, w.0, nb)); assert(self.painter.writer.hist() == mc_hist(old(self), 2, w.0, nb)); } }
    //@after <<<&self.config.merge_conflict_begin_symbol, &mut self.painter, self.config, )?;>>>| assert(mc_bufs_ok(old(self), 0, Seq::empty(), Seq::empty())); assert(sm_frame(self, old(self))); assert(self.state == old(self).state); assert(self.painter.merge_conflict_lines == old(self).painter.merge_conflict_lines); assert(self.painter.merge_conflict_commit_names == old(self).painter.merge_conflict_commit_names); assert(self.painter.minus_lines@ == old(self).painter.minus_lines@); assert(self.painter.output_buffer@.len() == 0); assert(self.painter.writer.hist() == mc_hist(old(self), 0, Seq::empty(), Seq::empty()));

    //@ fn src/handlers/merge_conflict.rs StateMachine::exit_merge_conflict
    //@| requires mp_known(*merge_parents),
    //@| ensures sm_frame(final(self), old(self)),
    //@|         r matches Ok(true) ==> is_prefix("++>>>>>>>"@, old(self).line@) && mc_painted_but_names(old(self), final(self), *merge_parents),  // @C01:conflict.end.marker.paints.the.stored.lines
    //@|         r matches Ok(false) ==> final(self).state == old(self).state && final(self).painter == old(self).painter,  // @C04:conflict.end.decline.changes.nothing

    //@ fn src/handlers/merge_conflict.rs StateMachine::handle_merge_conflict_line
    //@| requires mc_state_parents_known(old(self).state),  // @C03:merge.parents.known.assumed
    //@| ensures sm_frame(final(self), old(self)),
    //@|         (old(self).config.color_only || !old(self).config.handle_merge_conflicts) ==> r matches Ok(false),  // @C02,C04:merge.conflict.handler.declines.under.color_only
    //@|         r matches Ok(false) ==> final(self).state == old(self).state && final(self).painter == old(self).painter,  // @C01,C04:merge.conflict.decline.changes.nothing
    //@|         r matches Ok(true) ==> mc_line_accounted(old(self), final(self)),  // @C01:a.line.of.a.conflict.region.is.a.marker.or.is.stored.exactly.once.or.ends.the.region
    //@before <<<Ok(handled_line) }>>>| proof { assert(handled_line ==> mc_line_accounted(old(self), self)); }

}

} // verus!
fn main() {}
