//@ include prelude/header.rs
//@ unit U46 ansi/mod.rs parse_style_sections / ansi_preserving_index: every run of text of a raw line is read with the style of the last SGR sequence before it (C08); the i-th text byte is found inside a text element (C16, C03)
verus! {
//@ include prelude/base.rs
//@ include prelude/std_assumed.rs
//@ include prelude/ansi_term.rs
//@ broadcast vax::vax_group lemma_sty_push lemma_txt_push
pub use crate::AtStyle as Style;
//@ type src/ansi/iterator.rs Element derives=Clone,PartialEq
/// ASSUMED: `ansi_term::Style::default()` is the style with nothing set (the crate derives Default)
pub uninterp spec fn plain_style() -> AtStyle;
impl Default for AtStyle {
    #[verifier::external_body]
    fn default() -> (r: Self) ensures r == plain_style() { unimplemented!() }
}
pub open spec fn el_range(e: Element) -> (usize, usize) {
    match e { Element::Sgr(_, a, b) => (a, b), Element::Csi(a, b) => (a, b), Element::Esc(a, b) => (a, b), Element::Osc(a, b) => (a, b), Element::Text(a, b) => (a, b) }
}
/// what `AnsiElementIterator::new(s)` yields: the elements partition the line (U26 proves that of the real `next`: each
/// starts where the previous one ended); ASSUMED here in addition: they begin and end on character boundaries (escape
/// sequences are ASCII, the parser reports text character by character)
pub open spec fn elements_wf(els: Seq<Element>, bytes: Seq<u8>) -> bool {
    &&& forall|j: int| 0 <= j < els.len() ==> el_range(#[trigger] els[j]).0 <= el_range(els[j]).1 <= bytes.len()
            && is_char_boundary(bytes, el_range(els[j]).0 as int) && is_char_boundary(bytes, el_range(els[j]).1 as int)
    &&& forall|j: int| 0 < j < els.len() ==> el_range(#[trigger] els[j]).0 == el_range(els[j - 1]).1
    &&& (els.len() > 0 ==> el_range(els[0]).0 == 0)
}
/// (R3) `AnsiElementIterator::new(s)`: the iterator is replaced by the list of what it yields (the loop body is unchanged)
#[verifier::external_body]
pub fn verif_elements(s: &str) -> (r: Vec<Element>) ensures elements_wf(r@, s.spec_bytes()) { unimplemented!() }
/// (R3) `&s[a..b]`
#[verifier::external_body]
pub fn verif_str_slice<'a>(s: &'a str, a: usize, b: usize) -> (r: &'a str)
    requires a <= b <= s.spec_bytes().len(), is_char_boundary(s.spec_bytes(), a as int), is_char_boundary(s.spec_bytes(), b as int),  // @C03:a.text.element.is.a.slice.of.the.line.on.character.boundaries
    ensures r.spec_bytes() == s.spec_bytes().subrange(a as int, b as int),
{ unimplemented!() }

/// the style in effect after a list of elements: that of the last SGR sequence, the plain style before the first
pub open spec fn style_after(els: Seq<Element>) -> AtStyle decreases els.len() {
    if els.len() == 0 { plain_style() } else { match els.last() { Element::Sgr(st, _, _) => st, _ => style_after(els.drop_last()) } }
}
/// C08: the runs of text of a raw line, each with the style in effect where it starts
pub open spec fn styled_runs(els: Seq<Element>, bytes: Seq<u8>) -> Seq<(AtStyle, Seq<u8>)> decreases els.len() {
    if els.len() == 0 { Seq::empty() } else {
        let p = styled_runs(els.drop_last(), bytes);
        match els.last() { Element::Text(a, b) => p.push((style_after(els.drop_last()), bytes.subrange(a as int, b as int))), _ => p }
    }
}
pub broadcast proof fn lemma_sty_push(els: Seq<Element>, e: Element)
    ensures #[trigger] style_after(els.push(e)) == (match e { Element::Sgr(st, _, _) => st, _ => style_after(els) }),
{ assert(els.push(e).drop_last() =~= els); }
pub broadcast proof fn lemma_txt_push(els: Seq<Element>, e: Element, bytes: Seq<u8>)
    ensures #[trigger] styled_runs(els.push(e), bytes) == (match e { Element::Text(a, b) => styled_runs(els, bytes).push((style_after(els), bytes.subrange(a as int, b as int))), _ => styled_runs(els, bytes) }),
{ assert(els.push(e).drop_last() =~= els); }
pub open spec fn sections_view(v: Seq<(AtStyle, &str)>) -> Seq<(AtStyle, Seq<u8>)> { Seq::new(v.len(), |j: int| (v[j].0, v[j].1.spec_bytes())) }
/// the elements of a line are a fixed fact of the line
pub uninterp spec fn elements_of(bytes: Seq<u8>) -> Seq<Element>;
#[verifier::external_body]
pub fn verif_elements_of(s: &str) -> (r: Vec<Element>) ensures r@ == elements_of(s.spec_bytes()), elements_wf(r@, s.spec_bytes()) { unimplemented!() }

//@ fn src/ansi/mod.rs parse_style_sections
//@| ensures sections_view(r@) =~= styled_runs(elements_of(s.spec_bytes()), s.spec_bytes()),  // @C08:every.run.of.text.of.a.raw.line.is.read.with.the.style.of.the.last.sgr.sequence.before.it.in.order.none.dropped
//@rewrite <<<for element in AnsiElementIterator::new(s) {>>> => <<<let els = verif_elements_of(s); for element in it: els {>>>
//@rewrite <<<&s[start..end]>>> => <<<verif_str_slice(s, start, end)>>>
//@loop 1| invariant it.seq() == els@, els@ == elements_of(s.spec_bytes()), elements_wf(els@, s.spec_bytes()),
//@loop 1|     /* @C08:parse_style_sections.the.current.style.is.that.of.the.last.sgr.sequence.seen */ curr_style == style_after(els@.subrange(0, it.index@ as int)),
//@loop 1|     /* @C08:parse_style_sections.the.sections.so.far.are.the.text.runs.so.far */ sections_view(sections@) =~= styled_runs(els@.subrange(0, it.index@ as int), s.spec_bytes()),
//@before <<<match element {>>>| proof { assert(els@.subrange(0, it.index@ + 1) =~= els@.subrange(0, it.index@ as int).push(els@[it.index@ as int])); }
//@before <<<sections }>>>| proof { assert(els@.subrange(0, els@.len() as int) =~= els@); }

// ---------------------------------------------------------------- ansi_preserving_index
/// the number of text bytes (bytes outside escape sequences) in a list of elements
pub open spec fn text_len(els: Seq<Element>) -> nat decreases els.len() {
    if els.len() == 0 { 0 } else { text_len(els.drop_last()) + (match els.last() { Element::Text(a, b) => (b - a) as nat, _ => 0 }) }
}
pub broadcast proof fn lemma_text_len_push(els: Seq<Element>, e: Element)
    ensures #[trigger] text_len(els.push(e)) == text_len(els) + (match e { Element::Text(a, b) => (b - a) as nat, _ => 0 }),
{ assert(els.push(e).drop_last() =~= els); }
/// byte k of the line is the i-th text byte: it lies in a text element, and i text bytes come before it
pub open spec fn is_ith_text_byte(els: Seq<Element>, k: int, i: int) -> bool {
    exists|j: int| 0 <= j < els.len() && (#[trigger] els[j] matches Element::Text(a, b) && a <= k < b && text_len(els.subrange(0, j)) + (k - a) == i)
}
//@ fn src/ansi/mod.rs ansi_preserving_index
//@| ensures r matches Some(k) ==> is_ith_text_byte(elements_of(s.spec_bytes()), k as int, i as int),  // @C16,C08:the.index.found.is.the.byte.of.the.line.before.which.exactly.i.bytes.of.text.lie.escape.sequences.not.counted
//@|         r is None ==> text_len(elements_of(s.spec_bytes())) <= i,  // @C16:no.index.is.found.only.when.the.line.has.no.more.than.i.bytes.of.text
//@rewrite <<<for element in AnsiElementIterator::new(s) {>>> => <<<let els = verif_elements_of(s); for element in it: els {>>>
//@loop 1| invariant it.seq() == els@, els@ == elements_of(s.spec_bytes()), elements_wf(els@, s.spec_bytes()),
//@loop 1|     /* @C16,C08:ansi_preserving_index.counts.the.text.bytes.of.the.elements.seen.and.only.those */ index == text_len(els@.subrange(0, it.index@ as int)), index <= i,
//@loop 1|     it.index@ == 0 ==> index == 0, it.index@ > 0 ==> index <= el_range(els@[it.index@ - 1]).1,
//@before <<<if let Element::Text(a, b) = element {>>>| proof { broadcast use lemma_text_len_push; assert(els@.subrange(0, it.index@ + 1) =~= els@.subrange(0, it.index@ as int).push(els@[it.index@ as int])); }
//@before <<<None }>>>| proof { assert(els@.subrange(0, els@.len() as int) =~= els@); }

} // verus!
fn main() {}
