//@ include prelude/header.rs
//@ unit U33 handlers/diff_stat.rs, submodule.rs (log line), git_show_file.rs: what the three small handlers of the dispatch chain do when they decline and when they claim a line (C04, C01, C19)
verus! {
//@ set CONFIG_EXTRA ,relative_paths,cwd_relative_to_repo_root
//@ include prelude/sm_env.rs

impl<'p> Painter<'p> {
    //@ stub src/paint.rs Painter::emit spec=paint.emit
}
/// `relativize_path_in_diff_stat_line` (verified in U10 against a contract about the link; here only a function of its arguments)
pub uninterp spec fn diff_stat_replacement(line: Seq<char>, cwd: Seq<char>, config: &Config) -> Option<Seq<char>>;
//@ stub src/handlers/diff_stat.rs relativize_path_in_diff_stat_line
//@| ensures (match r { Some(x) => diff_stat_replacement(line@, cwd_relative_to_repo_root@, config) == Some(x@), None => diff_stat_replacement(line@, cwd_relative_to_repo_root@, config) is None }),
/// (R3) `self.config.cwd_relative_to_repo_root.as_deref()`
#[verifier::external_body]
pub fn verif_as_deref(o: &Option<String>) -> (r: Option<&str>)
    ensures (match (*o, r) { (Some(s), Some(x)) => s@ == x@, (None, None) => true, _ => false }),
{ unimplemented!() }

use vstd::std_specs::cmp::PartialEqSpec;
/// `==` on T decides spec equality
pub open spec fn eq_is_structural<T: PartialEq>() -> bool {
    T::obeys_eq_spec() && forall|a: T, b: T| #[trigger] a.eq_spec(&b) <==> a == b
}
/// ASSUMED: `#[derive(PartialEq)]` on `State` compares the variant and every field
pub axiom fn axiom_state_eq()
    ensures eq_is_structural::<State>();
/// the diff-stat handler looks at lines that start with a blank, before the first file section only
pub open spec fn diff_stat_test(sm: &StateMachine) -> bool {
    (sm.state == State::CommitMeta || sm.state == State::Unknown) && is_prefix(seq![' '], sm.line@)
}
pub open spec fn diff_stat_claims(sm: &StateMachine) -> Option<Seq<char>> {
    if !diff_stat_test(sm) || !sm.config.relative_paths { None }
    else { match sm.config.cwd_relative_to_repo_root { Some(cwd) => diff_stat_replacement(sm.raw_line@, cwd@, sm.config), None => None } }
}

impl<'a> StateMachine<'a> {
    //@ fn src/handlers/diff_stat.rs StateMachine::test_diff_stat_line
    //@| ensures r == diff_stat_test(self),  // @C04,C19:a.diff.stat.line.is.looked.for.only.after.commit.metadata
    //@before <<<(self.state == State::CommitMeta>>>| proof { axiom_state_eq(); }
    //@ fn src/handlers/diff_stat.rs StateMachine::handle_diff_stat_line
    //@| ensures sm_frame(final(self), old(self)), final(self).state == old(self).state,
    //@|     diff_stat_claims(old(self)) is None ==> r == Ok::<bool, std::io::Error>(false) && final(self).painter == old(self).painter,  // @C04:a.line.the.diff.stat.handler.does.not.rewrite.is.left.to.the.other.handlers.untouched
    //@|     r == Ok::<bool, std::io::Error>(true) ==> (diff_stat_claims(old(self)) matches Some(x) && final(self).painter.writer.hist() ==
    //@|         old(self).painter.writer.hist().push(Ev::Flush(old(self).painter.output_buffer@)).push(Ev::Text(""@ + x + ""@, true))),  // @C04,C19:a.diff.stat.line.is.written.once.as.its.replacement.after.what.was.rendered.before
    //@|     r.is_ok() ==> final(self).painter.minus_lines@ == old(self).painter.minus_lines@ && final(self).painter.plus_lines@ == old(self).painter.plus_lines@,
    //@|     r.is_ok() && diff_stat_claims(old(self)) is Some ==> r == Ok::<bool, std::io::Error>(true),  // @C04:a.diff.stat.line.that.has.been.rewritten.is.claimed.so.that.it.is.not.written.again
    //@rewrite <<<self.config.cwd_relative_to_repo_root.as_deref()>>> => <<<verif_as_deref(&self.config.cwd_relative_to_repo_root)>>>

    //@ stub src/handlers/mod.rs StateMachine::handle_additional_cases spec=diff_header.handle_additional_cases
    //@ fn src/handlers/submodule.rs StateMachine::test_submodule_log
    //@| ensures r == is_prefix("Submodule "@, self.line@),  // @C04:a.submodule.log.line.is.claimed.by.its.prefix
    //@ fn src/handlers/submodule.rs StateMachine::handle_submodule_log_line
    //@| requires get_style_defined(State::SubmoduleLog),
    //@| ensures !is_prefix("Submodule "@, old(self).line@) ==> r == Ok::<bool, std::io::Error>(false) && final(self).state == old(self).state && final(self).painter == old(self).painter,  // @C04:submodule.log.decline.changes.nothing
    //@|     r.is_ok() && is_prefix("Submodule "@, old(self).line@) ==> final(self).state == State::SubmoduleLog && all_lines(&final(self).painter) == all_lines(&old(self).painter),  // @C01:submodule.log.line.keeps.lines
    //@|     final(self).line == old(self).line && final(self).config == old(self).config,
}

// ---------------------------------------------------------------- handlers/git_show_file.rs
#[verifier::external_body]
pub struct CommandLine { _p: u8 }
//@ type src/utils/process.rs CallingProcess noderive
pub mod process { pub use crate::CallingProcess; }
/// the process that called delta (U16 has the mechanism under contract); a fixed fact of the run
pub uninterp spec fn the_calling_process() -> CallingProcess;
/// (R3) `&*process::calling_process()` (a MutexGuard)
#[verifier::external_body]
pub fn verif_calling_process() -> (r: CallingProcess) ensures r == the_calling_process() { unimplemented!() }
//@ type src/paint.rs BgFillMethod derives=Clone,Copy,PartialEq,Eq,Structural
//@ type src/paint.rs BgShouldFill derives=Clone,Copy,PartialEq,Eq,Structural
impl Default for BgShouldFill {
    #[verifier::external_body]
    fn default() -> (r: Self) { unimplemented!() }
}
pub type LineSections<'a, S> = Vec<(S, &'a str)>;
//@ type src/paint.rs StyleSectionSpecifier noderive
/// the line with its tabs expanded to the configured width (the configuration is fixed for the run); uninterpreted
pub uninterp spec fn tabs_expanded(line: Seq<char>) -> Seq<char>;
/// ghost: the language in effect was looked up for this file name (None: for no particular file)
impl<'p> Painter<'p> {
    pub uninterp spec fn language_of(&self) -> Option<Seq<char>>;
    #[verifier::external_body]
    pub fn set_syntax(&mut self, filename: Option<&str>)
        ensures final(self).language_of() == (match filename { Some(f) => Some(f@), None => None }),
                (final(self).line_numbers_data is Some) == (old(self).line_numbers_data is Some),
                final(self).minus_lines == old(self).minus_lines && final(self).plus_lines == old(self).plus_lines,
                final(self).output_buffer == old(self).output_buffer && final(self).writer.hist() == old(self).writer.hist(),
    { unimplemented!() }
    #[verifier::external_body]
    pub fn set_highlighter(&mut self)
        ensures final(self).language_of() == old(self).language_of(),
                (final(self).line_numbers_data is Some) == (old(self).line_numbers_data is Some),
                final(self).minus_lines == old(self).minus_lines && final(self).plus_lines == old(self).plus_lines,
                final(self).output_buffer == old(self).output_buffer && final(self).writer.hist() == old(self).writer.hist(),
    { unimplemented!() }
    /// ASSUMED (paint.rs; its parts - tabs::expand, the syntax sections, paint_lines' tail - are under contract in U28, U23, U18, U41):
    /// the line is rendered once, after what the output buffer holds
    #[verifier::external_body]
    pub fn syntax_highlight_and_paint_line(&mut self, line: &str, style_sections: StyleSectionSpecifier, state: State, background_color_extends_to_terminal_width: BgShouldFill)
        ensures final(self).language_of() == old(self).language_of(),
                (final(self).line_numbers_data is Some) == (old(self).line_numbers_data is Some),
                final(self).minus_lines == old(self).minus_lines && final(self).plus_lines == old(self).plus_lines,
                final(self).writer.hist() == old(self).writer.hist(),
                lines_of(final(self).output_buffer@) == lines_of(old(self).output_buffer@).push(tabs_expanded(line@)),
    { unimplemented!() }
}
/// `git show rev:path`: the file named on the command line, if delta was called that way
pub open spec fn git_show_file() -> Option<Seq<char>> {
    match the_calling_process() { CallingProcess::GitShow(_, Some(f)) => Some(f@), _ => None }
}
pub open spec fn git_show_claims(sm: &StateMachine) -> bool {
    sm.state is GitShowFile || (sm.state is Unknown && git_show_file() is Some)
}
impl<'a> StateMachine<'a> {
    //@ fn src/handlers/git_show_file.rs StateMachine::handle_git_show_file_line
    //@| ensures sm_frame(final(self), old(self)),
    //@|     r.is_ok() ==> r == Ok::<bool, std::io::Error>(git_show_claims(old(self))),  // @C04:a.line.is.taken.for.the.content.of.a.file.only.when.delta.was.called.by.git.show.rev.path
    //@|     r.is_ok() && !git_show_claims(old(self)) ==> final(self).state == old(self).state && final(self).painter.output_buffer@.len() == 0
    //@|         && final(self).painter.writer.hist() == old(self).painter.writer.hist().push(Ev::Flush(old(self).painter.output_buffer@)),  // @C04,C11:declining.the.handler.only.writes.out.what.was.already.rendered
    //@|     r.is_ok() && git_show_claims(old(self)) ==> final(self).state is GitShowFile
    //@|         && lines_of(final(self).painter.output_buffer@) == lines_of(Seq::<char>::empty()).push(tabs_expanded(old(self).line@)),  // @C04,C01:a.line.of.git.show.rev.path.output.is.rendered.once
    //@|     r.is_ok() && old(self).state is Unknown && git_show_claims(old(self)) ==> final(self).painter.language_of() == git_show_file(),  // @C15:the.content.of.git.show.rev.path.is.highlighted.in.the.language.of.that.path
    //@|     r.is_ok() ==> final(self).painter.minus_lines@ == old(self).painter.minus_lines@ && final(self).painter.plus_lines@ == old(self).painter.plus_lines@,
    //@rewrite <<<&*process::calling_process()>>> => <<<&verif_calling_process()>>>
    //@after? <<<self.painter.emit()?;>>>| proof { assert(self.painter.output_buffer@ =~= Seq::<char>::empty()); }
}

} // verus!
fn main() {}
