//@ include prelude/header.rs
//@ unit U33 handlers/diff_stat.rs, submodule.rs (log line), git_show_file.rs: what the three small handlers of the dispatch chain do when they decline and when they claim a line (C04, C01, C19)
verus! {
//@ set CONFIG_EXTRA ,relative_paths,cwd_relative_to_repo_root
//@ include prelude/sm_env.rs

impl<'p> Painter<'p> {
    //@ stub src/paint.rs Painter::emit spec=paint.emit
}
/// `relativize_path_in_diff_stat_line` (verified in U10 against a contract about the link; here only a function of its arguments)
pub uninterp spec fn diff_stat_replacement(line: Seq<char>, cwd: Seq<char>, config: &Config) -> Option<Seq<char>>;
//@ stub src/handlers/diff_stat.rs relativize_path_in_diff_stat_line
//@| ensures (match r { Some(x) => diff_stat_replacement(line@, cwd_relative_to_repo_root@, config) == Some(x@), None => diff_stat_replacement(line@, cwd_relative_to_repo_root@, config) is None }),
/// (R3) `self.config.cwd_relative_to_repo_root.as_deref()`
#[verifier::external_body]
pub fn verif_as_deref(o: &Option<String>) -> (r: Option<&str>)
    ensures (match (*o, r) { (Some(s), Some(x)) => s@ == x@, (None, None) => true, _ => false }),
{ unimplemented!() }

use vstd::std_specs::cmp::PartialEqSpec;
/// `==` on T decides spec equality
pub open spec fn eq_is_structural<T: PartialEq>() -> bool {
    T::obeys_eq_spec() && forall|a: T, b: T| #[trigger] a.eq_spec(&b) <==> a == b
}
/// ASSUMED: `#[derive(PartialEq)]` on `State` compares the variant and every field
pub axiom fn axiom_state_eq()
    ensures eq_is_structural::<State>();
/// the diff-stat handler looks at lines that start with a blank, before the first file section only
pub open spec fn diff_stat_test(sm: &StateMachine) -> bool {
    (sm.state == State::CommitMeta || sm.state == State::Unknown) && is_prefix(seq![' '], sm.line@)
}
pub open spec fn diff_stat_claims(sm: &StateMachine) -> Option<Seq<char>> {
    if !diff_stat_test(sm) || !sm.config.relative_paths { None }
    else { match sm.config.cwd_relative_to_repo_root { Some(cwd) => diff_stat_replacement(sm.raw_line@, cwd@, sm.config), None => None } }
}

impl<'a> StateMachine<'a> {
    //@ fn src/handlers/diff_stat.rs StateMachine::test_diff_stat_line
    //@| ensures r == diff_stat_test(self),  // @C04,C19:a.diff.stat.line.is.looked.for.only.after.commit.metadata
    //@before <<<(self.state == State::CommitMeta>>>| proof { axiom_state_eq(); }
    //@ fn src/handlers/diff_stat.rs StateMachine::handle_diff_stat_line
    //@| ensures sm_frame(final(self), old(self)), final(self).state == old(self).state,
    //@|     diff_stat_claims(old(self)) is None ==> r == Ok::<bool, std::io::Error>(false) && final(self).painter == old(self).painter,  // @C04:a.line.the.diff.stat.handler.does.not.rewrite.is.left.to.the.other.handlers.untouched
    //@|     r == Ok::<bool, std::io::Error>(true) ==> (diff_stat_claims(old(self)) matches Some(x) && final(self).painter.writer.hist() ==
    //@|         old(self).painter.writer.hist().push(Ev::Flush(old(self).painter.output_buffer@)).push(Ev::Text(""@ + x + ""@, true))),  // @C04,C19:a.diff.stat.line.is.written.once.as.its.replacement.after.what.was.rendered.before
    //@|     r.is_ok() ==> final(self).painter.minus_lines@ == old(self).painter.minus_lines@ && final(self).painter.plus_lines@ == old(self).painter.plus_lines@,
    //@rewrite <<<self.config.cwd_relative_to_repo_root.as_deref()>>> => <<<verif_as_deref(&self.config.cwd_relative_to_repo_root)>>>

    //@ stub src/handlers/mod.rs StateMachine::handle_additional_cases spec=diff_header.handle_additional_cases
    //@ fn src/handlers/submodule.rs StateMachine::test_submodule_log
    //@| ensures r == is_prefix("Submodule "@, self.line@),  // @C04:a.submodule.log.line.is.claimed.by.its.prefix
    //@ fn src/handlers/submodule.rs StateMachine::handle_submodule_log_line
    //@| requires get_style_defined(State::SubmoduleLog),
    //@| ensures !is_prefix("Submodule "@, old(self).line@) ==> r == Ok::<bool, std::io::Error>(false) && final(self).state == old(self).state && final(self).painter == old(self).painter,  // @C04:submodule.log.decline.changes.nothing
    //@|     r.is_ok() && is_prefix("Submodule "@, old(self).line@) ==> final(self).state == State::SubmoduleLog && all_lines(&final(self).painter) == all_lines(&old(self).painter),  // @C01:submodule.log.line.keeps.lines
    //@|     final(self).line == old(self).line && final(self).config == old(self).config,
}

} // verus!
fn main() {}
