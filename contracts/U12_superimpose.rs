//@ include prelude/header.rs
//@ unit U12 paint.rs superimpose_style_sections: syntax highlighting only replaces the foreground (C15), characters are kept (C01)
verus! {
//@ include prelude/base.rs
//@ include prelude/std_assumed.rs
//@ include prelude/ansi_term.rs
//@ include prelude/style.rs
//@ broadcast vax::vax_group axiom_ascii_suffix_boundary

// Mirror of syntect::highlighting::{Style, Color} (plain data of the dependency; trusted copy).
#[derive(Clone, Copy, PartialEq, Eq, Structural)]
pub struct SyntectColor { pub r: u8, pub g: u8, pub b: u8, pub a: u8 }
#[derive(Clone, Copy, PartialEq, Eq, Structural)]
pub struct SyntectStyle { pub foreground: SyntectColor, pub background: SyntectColor, pub font_style: FontStyle }
/// syntect's `FontStyle` bit set (bold 1, underline 2, italic 4); named so that code which looks at it is decided by the
/// obligations (delta takes nothing but the foreground from a syntax style)
#[derive(Clone, Copy, PartialEq, Eq, Structural)]
pub struct FontStyle { pub bits: u8 }
impl FontStyle {
    pub const BOLD: FontStyle = FontStyle { bits: 1 };
    pub const UNDERLINE: FontStyle = FontStyle { bits: 2 };
    pub const ITALIC: FontStyle = FontStyle { bits: 4 };
    #[verifier::external_body]
    pub fn contains(&self, other: FontStyle) -> (r: bool) { unimplemented!() }
}

/// `utils::bat::terminal::to_ansi_color` (U43 has it under contract; here a function of its arguments).
pub uninterp spec fn to_ansi_color_spec(c: SyntectColor, true_color: bool) -> Option<ansi_term::Color>;
#[verifier::external_body]
pub fn to_ansi_color(color: SyntectColor, true_color: bool) -> (r: Option<ansi_term::Color>)
    ensures r == to_ansi_color_spec(color, true_color)
{ unimplemented!() }

/// C15: the superimposed style is the diff style, except that its foreground is replaced by the
/// syntax colour - and only when the diff style asks for syntax highlighting and the syntax
/// style is not the null style.  Background, attributes and decoration are never touched.
pub open spec fn superimposed_style_spec(syntect_style: SyntectStyle, style: Style, true_color: bool, null_syntect_style: SyntectStyle) -> Style {
    if style.is_syntax_highlighted && syntect_style != null_syntect_style {
        Style {
            ansi_term_style: ansi_term::Style { foreground: to_ansi_color_spec(syntect_style.foreground, true_color), ..style.ansi_term_style },
            ..style
        }
    } else {
        style
    }
}

//@ fn src/paint.rs superimpose_style_sections::coalesce
//@loop 1| invariant forall|p: (SyntectStyle, Style)| make_superimposed_style.requires((p,)),
//@rewrite <<<let make_superimposed_style = |(syntect_style, style): (SyntectStyle, Style)| {>>> => <<<let make_superimposed_style = |p: (SyntectStyle, Style)| -> (r: Style) ensures /* @C15:superimposed.style.changes.only.the.foreground.and.only.when.asked */ r == superimposed_style_spec(p.0, p.1, true_color, null_syntect_style) { let (syntect_style, style) = p;>>>

} // verus!
fn main() {}
