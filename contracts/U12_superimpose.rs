//@ include prelude/header.rs
//@ unit U12 paint.rs superimpose_style_sections: the function and its helpers explode, superimpose, coalesce whole - syntax highlighting only replaces the foreground (C15), every character is kept in its place with the styles of its own position (C01)
verus! {
//@ include prelude/base.rs
//@ include prelude/std_assumed.rs
//@ include prelude/ansi_term.rs
//@ include prelude/style.rs
//@ broadcast vax::vax_group axiom_ascii_suffix_boundary axiom_ascii_suffix_one_byte lemma_flat_push axiom_char_to_string lemma_subrange_full

// Mirror of syntect::highlighting::{Style, Color} (plain data of the dependency; trusted copy).
#[derive(Clone, Copy, PartialEq, Eq, Structural)]
pub struct SyntectColor { pub r: u8, pub g: u8, pub b: u8, pub a: u8 }
#[derive(Clone, Copy, PartialEq, Eq, Structural)]
pub struct SyntectStyle { pub foreground: SyntectColor, pub background: SyntectColor, pub font_style: FontStyle }
/// syntect's `FontStyle` bit set (bold 1, underline 2, italic 4); named so that code which looks at it is decided by the
/// obligations (delta takes nothing but the foreground from a syntax style)
#[derive(Clone, Copy, PartialEq, Eq, Structural)]
pub struct FontStyle { pub bits: u8 }
impl FontStyle {
    pub const BOLD: FontStyle = FontStyle { bits: 1 };
    pub const UNDERLINE: FontStyle = FontStyle { bits: 2 };
    pub const ITALIC: FontStyle = FontStyle { bits: 4 };
    #[verifier::external_body]
    pub fn contains(&self, other: FontStyle) -> (r: bool) { unimplemented!() }
}

/// `utils::bat::terminal::to_ansi_color` (U43 has it under contract; here a function of its arguments).
pub uninterp spec fn to_ansi_color_spec(c: SyntectColor, true_color: bool) -> Option<ansi_term::Color>;
#[verifier::external_body]
pub fn to_ansi_color(color: SyntectColor, true_color: bool) -> (r: Option<ansi_term::Color>)
    ensures r == to_ansi_color_spec(color, true_color)
{ unimplemented!() }

/// C15: the superimposed style is the diff style, except that its foreground is replaced by the
/// syntax colour - and only when the diff style asks for syntax highlighting and the syntax
/// style is not the null style.  Background, attributes and decoration are never touched.
pub open spec fn superimposed_style_spec(syntect_style: SyntectStyle, style: Style, true_color: bool, null_syntect_style: SyntectStyle) -> Style {
    if style.is_syntax_highlighted && syntect_style != null_syntect_style {
        Style {
            ansi_term_style: ansi_term::Style { foreground: to_ansi_color_spec(syntect_style.foreground, true_color), ..style.ansi_term_style },
            ..style
        }
    } else {
        style
    }
}

/// a list of (style, text) sections, character by character
pub open spec fn chars_with(style: Style, s: Seq<char>) -> Seq<(Style, char)> { Seq::new(s.len(), |i: int| (style, s[i])) }
pub open spec fn flat(v: Seq<(Style, String)>) -> Seq<(Style, char)> decreases v.len() {
    if v.len() == 0 { Seq::empty() } else { flat(v.drop_last()) + chars_with(v.last().0, v.last().1@) }
}
pub broadcast proof fn lemma_flat_push(v: Seq<(Style, String)>, x: (Style, String))
    ensures #[trigger] flat(v.push(x)) == flat(v) + chars_with(x.0, x.1@),
{ assert(v.push(x).drop_last() =~= v); }
/// C01/C15: what superimposing must give - every character of the line, in order, each in the diff style of ITS position with
/// the syntax foreground of ITS position laid over it
pub open spec fn superimposed_chars(secs: Seq<((SyntectStyle, Style), char)>, n: int, true_color: bool, null: SyntectStyle) -> Seq<(Style, char)> {
    Seq::new(n as nat, |i: int| (superimposed_style_spec(secs[i].0.0, secs[i].0.1, true_color, null), secs[i].1))
}
/// a proper prefix of `s` that is at least as long as `s` without its last character IS `s` without its last character
pub proof fn lemma_truncated_by_one(s: Seq<char>, t: Seq<char>)
    requires s.len() >= 1, is_prefix(t, s), is_prefix(s.drop_last(), s) ==> s.drop_last().len() <= t.len(), t != s,
    ensures t == s.drop_last(),
{
    assert(is_prefix(s.drop_last(), s)) by { assert(s.subrange(0, s.len() - 1) == s.drop_last()); }
    if t.len() == s.len() { assert(s.subrange(0, s.len() as int) == s); }
}
use vstd::std_specs::cmp::PartialEqSpec;
/// ASSUMED: `!=` on `&(SyntectStyle, Style)` (derived PartialEq of plain data) compares the contents
pub axiom fn axiom_style_pair_eq()
    ensures <(SyntectStyle, Style) as PartialEqSpec>::obeys_eq_spec(), forall|a: (SyntectStyle, Style), b: (SyntectStyle, Style)| #[trigger] a.eq_spec(&b) <==> a == b;

//@ fn src/paint.rs superimpose_style_sections::coalesce
//@| ensures flat(r@) =~= (if style_sections@.len() > 0 && style_sections@.last().1 == '\n' { superimposed_chars(style_sections@, style_sections@.len() - 1, true_color, null_syntect_style) }
//@|                       else { superimposed_chars(style_sections@, style_sections@.len() as int, true_color, null_syntect_style) }),  // @C01,C15:every.character.of.the.line.comes.out.once.in.order.in.the.superimposed.style.of.its.own.position.only.the.final.newline.is.taken.off
//@before <<<let mut style_sections = style_sections.iter();>>>| let ghost secs = style_sections@; proof { axiom_style_pair_eq(); }
//@before <<<current_string.push(*c);>>>| proof { let i = it.index@ as int; assert(*style_pair == secs[i + 1].0 && *c == secs[i + 1].1);
//@before <<<current_string.push(*c);>>>|   assert(superimposed_chars(secs, i + 2, true_color, null_syntect_style) =~= superimposed_chars(secs, i + 1, true_color, null_syntect_style).push((superimposed_style_spec(secs[i + 1].0.0, secs[i + 1].0.1, true_color, null_syntect_style), secs[i + 1].1)));
//@before <<<current_string.push(*c);>>>|   let st = superimposed_style_spec(current_style_pair.0, current_style_pair.1, true_color, null_syntect_style);
//@before <<<current_string.push(*c);>>>|   assert(chars_with(st, current_string@.push(*c)) =~= chars_with(st, current_string@).push((st, *c))); }
//@loop 1| invariant current_string@.len() >= 1,
//@before <<<if current_string.ends_with('\n') {>>>| let ghost cs0 = current_string@; let ghost st = superimposed_style_spec(current_style_pair.0, current_style_pair.1, true_color, null_syntect_style);
//@before <<<if current_string.ends_with('\n') {>>>| proof { let all = superimposed_chars(secs, secs.len() as int, true_color, null_syntect_style); assert(flat(coalesced@) + chars_with(st, cs0) =~= all); assert(all.last().1 == secs.last().1); assert(chars_with(st, cs0).last().1 == cs0.last()); assert((flat(coalesced@) + chars_with(st, cs0)).last() == chars_with(st, cs0).last()); assert(cs0.last() == secs.last().1);
//@before <<<if current_string.ends_with('\n') {>>>|   assert(is_suffix(seq!['\n'], cs0) <==> cs0.last() == '\n') by { if cs0.last() == '\n' { assert(cs0.subrange(cs0.len() - 1, cs0.len() as int) =~= seq!['\n']); } if is_suffix(seq!['\n'], cs0) { assert(cs0.subrange(cs0.len() - 1, cs0.len() as int)[0] == '\n'); } } }
//@before#2/2 <<<let style = make_superimposed_style(*current_style_pair);>>>| proof { if is_suffix(seq!['\n'], cs0) { assert(('\n' as u32) < 128); assert(encode_utf8(cs0).len() >= 1); assert(encode_utf8(cs0.drop_last()).len() == encode_utf8(cs0).len() - 1); assert(encode_utf8(current_string@).len() == encode_utf8(cs0).len() - 1); assert(current_string@ != cs0); lemma_truncated_by_one(cs0, current_string@); assert(chars_with(st, cs0.drop_last()) =~= chars_with(st, cs0).drop_last()); assert(flat(coalesced@) + chars_with(st, cs0).drop_last() =~= (flat(coalesced@) + chars_with(st, cs0)).drop_last()); } }
//@rewrite <<<for (style_pair, c) in style_sections {>>> => <<<for (style_pair, c) in it: style_sections {>>>
//@loop 1|     it.seq().len() == secs.len() - 1, forall|j: int| 0 <= j < it.seq().len() ==> *(#[trigger] it.seq()[j]) == secs[j + 1],
//@loop 1|     *current_style_pair == secs[it.index@ as int].0,
//@loop 1|     /* @C01,C15:coalesce.the.finished.runs.and.the.open.run.spell.the.characters.seen.so.far.each.in.the.style.of.its.position */ flat(coalesced@) + chars_with(superimposed_style_spec(current_style_pair.0, current_style_pair.1, true_color, null_syntect_style), current_string@) =~= superimposed_chars(secs, it.index@ + 1, true_color, null_syntect_style),
//@loop 1|     forall|p: (SyntectStyle, Style)| make_superimposed_style.requires((p,)), forall|p: (SyntectStyle, Style), q: Style| make_superimposed_style.ensures((p,), q) ==> q == superimposed_style_spec(p.0, p.1, true_color, null_syntect_style),
//@rewrite <<<let make_superimposed_style = |(syntect_style, style): (SyntectStyle, Style)| {>>> => <<<let make_superimposed_style = |p: (SyntectStyle, Style)| -> (r: Style) ensures /* @C15:superimposed.style.changes.only.the.foreground.and.only.when.asked */ r == superimposed_style_spec(p.0, p.1, true_color, null_syntect_style) { let (syntect_style, style) = p;>>>


// ---------------------------------------------------------------- explode / superimpose: the per-character lists
/// the characters of one section, each with the section's style
pub open spec fn styled_chars<T>(style: T, s: Seq<char>) -> Seq<(T, char)> { Seq::new(s.len(), |i: int| (style, s[i])) }
/// the characters of a list of sections, in order, each with the style of its section
pub open spec fn exploded_spec<T>(secs: Seq<(T, &str)>) -> Seq<(T, char)> decreases secs.len() {
    if secs.len() == 0 { Seq::empty() } else { exploded_spec(secs.drop_last()) + styled_chars(secs.last().0, secs.last().1@) }
}
pub broadcast proof fn lemma_subrange_full<A>(s: Seq<A>)
    ensures #[trigger] s.subrange(0, s.len() as int) == s,
{ assert(s.subrange(0, s.len() as int) =~= s); }
//@ fn src/paint.rs superimpose_style_sections::explode
//@| ensures r@ =~= exploded_spec(style_sections@),  // @C01,C15:the.per.character.list.of.a.line.is.its.sections.spelled.out.in.order.each.character.with.the.style.of.its.section
//@rewrite <<<for (style, s) in style_sections {>>> => <<<for (style, s) in it: style_sections {>>>
//@rewrite <<<for c in s.chars() {>>> => <<<for c in it2: s.chars() {>>>
//@loop 1| invariant it.seq().len() == style_sections@.len(), forall|j: int| 0 <= j < it.seq().len() ==> *(#[trigger] it.seq()[j]) == style_sections@[j],
//@loop 1|     exploded@ =~= exploded_spec(style_sections@.subrange(0, it.index@ as int)),
//@loop 2| invariant it2.seq() == s@, *style == style_sections@[it.index@ as int].0, *s == style_sections@[it.index@ as int].1, 0 <= it.index@ < style_sections@.len(),
//@loop 2|     exploded@ =~= exploded_spec(style_sections@.subrange(0, it.index@ as int)) + styled_chars(*style, s@.subrange(0, it2.index@ as int)),
//@before <<<exploded.push((*style, c));>>>| proof { assert(styled_chars(*style, s@.subrange(0, it2.index@ + 1)) =~= styled_chars(*style, s@.subrange(0, it2.index@ as int)).push((*style, c))); }
//@after <<<exploded.push((*style, c)); }>>>| proof { let i = it.index@ as int; assert(style_sections@.subrange(0, i + 1).drop_last() =~= style_sections@.subrange(0, i)); assert(s@.subrange(0, s@.len() as int) =~= s@); }

//@ fn src/paint.rs superimpose_style_sections::superimpose
//@| requires forall|i: int| 0 <= i < style_section_pairs@.len() ==> (#[trigger] style_section_pairs@[i]).0.1 == style_section_pairs@[i].1.1,
//@| ensures r@.len() == style_section_pairs@.len(),
//@|     forall|i: int| 0 <= i < r@.len() ==> #[trigger] r@[i] == ((style_section_pairs@[i].0.0, style_section_pairs@[i].1.0), style_section_pairs@[i].0.1),  // @C01,C15:position.by.position.the.syntax.style.and.the.diff.style.of.the.same.character.are.paired.and.the.character.is.kept
//@before <<<for ((syntax_style, char_1), (style, char_2)) in it: style_section_pairs {>>>| let ghost pairs = style_section_pairs@;
//@rewrite <<<for ((syntax_style, char_1), (style, char_2)) in style_section_pairs {>>> => <<<for ((syntax_style, char_1), (style, char_2)) in it: style_section_pairs {>>>
//@loop 1| invariant it.seq() == pairs, superimposed@.len() == it.index@,
//@loop 1|     forall|i: int| 0 <= i < pairs.len() ==> (#[trigger] pairs[i]).0.1 == pairs[i].1.1,
//@loop 1|     forall|i: int| 0 <= i < superimposed@.len() ==> #[trigger] superimposed@[i] == ((pairs[i].0.0, pairs[i].1.0), pairs[i].0.1),


// ---------------------------------------------------------------- superimpose_style_sections itself: the three helpers put together
/// the two per-character lists are not of the same text (as far as the shorter one goes)
pub open spec fn text_differs(syn: Seq<(SyntectStyle, char)>, dif: Seq<(Style, char)>) -> bool {
    exists|i: int| 0 <= i < syn.len() && i < dif.len() && (#[trigger] syn[i]).1 != dif[i].1
}
/// what goes into `coalesce`: position by position the syntax style and the diff style of the same character - or, when the
/// two annotations are not of the same text, the diff style alone (with the null syntax style) for every character of the line
pub open spec fn paired(syn: Seq<(SyntectStyle, char)>, dif: Seq<(Style, char)>, null: SyntectStyle) -> Seq<((SyntectStyle, Style), char)> {
    if text_differs(syn, dif) { Seq::new(dif.len(), |i: int| ((null, dif[i].0), dif[i].1)) }
    else { Seq::new(if syn.len() <= dif.len() { syn.len() } else { dif.len() }, |i: int| ((syn[i].0, dif[i].0), syn[i].1)) }
}
/// (R3) `syntax.iter().zip(&diff).any(|(s, d)| s.1 != d.1)`: some position, as far as the shorter list goes, holds different characters
#[verifier::external_body]
pub fn verif_any_text_differs(syntax: &Vec<(SyntectStyle, char)>, diff: &Vec<(Style, char)>) -> (r: bool)
    ensures r == text_differs(syntax@, diff@)
{ unimplemented!() }
/// (R3) `diff.into_iter().map(|(style, c)| ((null_syntect_style, style), c)).collect()`
#[verifier::external_body]
pub fn verif_without_syntax(diff: Vec<(Style, char)>, null: SyntectStyle) -> (r: Vec<((SyntectStyle, Style), char)>)
    ensures r@.len() == diff@.len(), forall|i: int| 0 <= i < r@.len() ==> #[trigger] r@[i] == ((null, diff@[i].0), diff@[i].1)
{ unimplemented!() }
/// (R3) `syntax.iter().zip(diff).collect::<Vec<_>>()`: pairs as far as the shorter list goes
#[verifier::external_body]
pub fn verif_zip_refs<'a>(syntax: &'a Vec<(SyntectStyle, char)>, diff: Vec<(Style, char)>) -> (r: Vec<(&'a (SyntectStyle, char), (Style, char))>)
    ensures r@.len() == (if syntax@.len() <= diff@.len() { syntax@.len() } else { diff@.len() }),
            forall|i: int| 0 <= i < r@.len() ==> *(#[trigger] r@[i]).0 == syntax@[i] && r@[i].1 == diff@[i]
{ unimplemented!() }

//@ fn src/paint.rs superimpose_style_sections::superimpose_style_sections
//@| ensures ({ let p = paired(exploded_spec(syntax_style_sections@), exploded_spec(diff_style_sections@), null_syntect_style);
//@|     flat(r@) =~= (if p.len() > 0 && p.last().1 == '\n' { superimposed_chars(p, p.len() - 1, true_color, null_syntect_style) } else { superimposed_chars(p, p.len() as int, true_color, null_syntect_style) }) }),  // @C01,C15:every.character.of.a.painted.line.comes.out.once.and.in.order.in.the.diff.style.of.its.own.position.with.the.syntax.foreground.of.its.own.position.or.in.its.diff.style.alone.when.the.two.annotations.are.not.of.the.same.text
//@rewrite <<<syntax.iter().zip(&diff).any(|(s, d)| s.1 != d.1)>>> => <<<verif_any_text_differs(&syntax, &diff)>>>
//@rewrite <<<diff.into_iter() .map(|(style, c)| ((null_syntect_style, style), c)) .collect()>>> => <<<verif_without_syntax(diff, null_syntect_style)>>>
//@rewrite <<<syntax .iter() .zip(diff) .collect::<Vec<(&(SyntectStyle, char), (Style, char))>>()>>> => <<<verif_zip_refs(&syntax, diff)>>>

} // verus!
fn main() {}
