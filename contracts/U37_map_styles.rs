//@ include prelude/header.rs
//@ unit U37 parse_styles.rs parse_as_style_or_reference_to_git_config: the keys and values of map-styles are read with their colours kept exactly (C08)
verus! {
//@ include prelude/base.rs
//@ include prelude/std_assumed.rs
//@ include prelude/ansi_term.rs
//@ include prelude/style.rs
//@ shims cli
#[verifier::external_body]
pub struct GitConfig { _p: u8 }
//@ type src/cli.rs ComputedValues keep=true_color noderive
//@ type src/cli.rs Opt keep=computed noderive
pub uninterp spec fn opt_git_config(opt: &Opt) -> Option<&GitConfig>;
impl Opt {
    #[verifier::external_body]
    pub fn git_config(&self) -> (r: Option<&GitConfig>) ensures r == opt_git_config(self) { unimplemented!() }
}
//@ type src/parse_styles.rs StyleReference noderive

/// `style_from_str`: the style a style string stands for; `true_color` = false replaces every 24-bit colour by the nearest
/// of the 256 (so the result no longer equals the colour as written). Uninterpreted.
pub uninterp spec fn style_from_str_spec(style_string: Seq<char>, default: Option<Style>, decoration_style_string: Option<&str>, true_color: bool, git_config: Option<&GitConfig>) -> StyleReference;
#[verifier::external_body]
pub fn style_from_str(style_string: &str, default: Option<Style>, decoration_style_string: Option<&str>, true_color: bool, git_config: Option<&GitConfig>) -> (r: StyleReference)
    ensures r == style_from_str_spec(style_string@, default, decoration_style_string, true_color, git_config),
{ unimplemented!() }
pub uninterp spec fn reference_spec(style_ref: Seq<char>, opt: &Opt) -> Style;
#[verifier::external_body]
pub fn parse_as_reference_to_git_config(style_string: &str, opt: &cli::Opt) -> (r: Style)
    ensures r == reference_spec(style_string@, opt),
{ unimplemented!() }

//@ fn src/parse_styles.rs parse_as_style_or_reference_to_git_config
//@| ensures r == (match style_from_str_spec(style_string@, None, None, true, opt_git_config(opt)) { StyleReference::Reference(s) => reference_spec(s@, opt), StyleReference::Style(st) => st }),  // @C08:a.map-styles.key.is.read.with.its.24.bit.colours.kept.whatever.the.true-color.setting.so.it.equals.the.colour.git.wrote

} // verus!
fn main() {}
