//@ include prelude/header.rs
//@ unit U16 utils/process.rs: the thread body, the launcher's section, the initial state and the waiter's predicate on CALLER (C20; lock-boundary interference model; level `other`)
verus! {
//@ include prelude/base.rs

// ---- substitution-based model of the shared state (see DESIGN C20) ----
// `*caller` (the value inside the Mutex) and CALLER_INFO_SOURCE become fields of one struct; the
// Condvar notification becomes a ghost flag.  `caller_mutex.lock().unwrap()` becomes `verif_lock`,
// which HAVOCS the shared state within LockInv: whatever the other thread did before we got the
// lock has happened.  Reads of CALLER_INFO_SOURCE made before the lock is taken therefore say
// nothing about the state afterwards.  ASSUMED: the mutex serialises the sections; CALLER_INFO_SOURCE
// is written only while the lock is held (true of the three sections below).
#[derive(PartialEq, Eq, Structural, Clone, Copy)]
pub enum CallingProcess { Pending, None, Some(u64) }   // abstraction of the real enum: Pending / None / a described process
pub const CALLER_GUESSED: usize = 1;
pub const CALLER_KNOWN: usize = 2;
pub struct Shared {
    pub caller: CallingProcess,
    pub source: usize,
    pub notified: Ghost<bool>,
    pub launched: Ghost<Option<CallingProcess>>,   // what `delta git ...`/`delta rg ...` reported, if anything yet
    pub at_lock: Ghost<(CallingProcess, usize)>,   // (caller, source) at the moment this thread last acquired the lock
    pub locked: Ghost<bool>,
}
/// LockInv: once the source is KNOWN the cell holds exactly the launched command and is not Pending.
pub open spec fn lockinv(sh: &Shared) -> bool {
    &&& (sh.source == CALLER_GUESSED || sh.source == CALLER_KNOWN)
    &&& (sh.source == CALLER_KNOWN ==> sh.launched@ == Some(sh.caller) && sh.caller != CallingProcess::Pending)
    &&& (sh.source == CALLER_GUESSED ==> sh.launched@ is None)
}
pub fn verif_notify_all(sh: &mut Shared)
    ensures final(sh).caller == old(sh).caller, final(sh).source == old(sh).source, final(sh).launched == old(sh).launched, final(sh).notified@,
            final(sh).at_lock == old(sh).at_lock, final(sh).locked == old(sh).locked,
{ sh.notified = Ghost(true); }
/// (R3) `caller_mutex.lock().unwrap()`: the other thread may have run; afterwards we own the state.
#[verifier::external_body]
pub fn verif_lock(sh: &mut Shared)
    requires !old(sh).locked@,   // @C20:the.lock.is.taken.once
    ensures lockinv(final(sh)), final(sh).locked@, final(sh).at_lock@ == (final(sh).caller, final(sh).source),
            final(sh).notified == old(sh).notified,
{ unimplemented!() }
/// the process-tree scan; ASSUMED to return (never Pending)
#[verifier::external_body]
pub fn determine_calling_process() -> (r: CallingProcess) ensures r != CallingProcess::Pending { unimplemented!() }
/// (R3) `CALLER_INFO_SOURCE.load(..)`: reading the source without the lock tells nothing that lasts
pub fn verif_load_source(sh: &Shared) -> (r: usize) ensures sh.locked@ ==> r == sh.source { sh.source }

//@ region src/utils/process.rs start_determining_calling_process_in_thread
//@sig pub fn guess_thread_body(sh: &mut Shared)
//@fromafter <<<.spawn(move || {>>>
//@to <<<determine_done.notify_all();>>>
//@rewrite <<<let (caller_mutex, determine_done) = &**CALLER;>>> => <<<>>>
//@rewrite <<<let mut caller = caller_mutex.lock().unwrap();>>> => <<<verif_lock(sh);>>>
//@rewriteall <<<CALLER_INFO_SOURCE.load(DELTA_ATOMIC_ORDERING)>>> => <<<verif_load_source(sh)>>>
//@rewrite <<<*caller = calling_process;>>> => <<<sh.caller = calling_process;>>>
//@rewrite <<<determine_done.notify_all();>>> => <<<verif_notify_all(sh);>>>
//@| requires !old(sh).locked@,
//@| ensures final(sh).locked@ ==> lockinv(final(sh)),  // @C20:guess.preserves.lock.invariant
//@|         final(sh).locked@ && final(sh).at_lock@.1 == CALLER_KNOWN ==> final(sh).caller == final(sh).at_lock@.0,  // @C20:guess.never.overwrites.a.launched.command
//@|         final(sh).locked@ && final(sh).caller != CallingProcess::Pending,  // @C20:guess.leaves.an.answer
//@|         final(sh).notified@,  // @C20:guess.wakes.the.waiter
//@|         final(sh).locked@ ==> final(sh).source == final(sh).at_lock@.1,

//@ region src/utils/process.rs set_calling_process
//@sig pub fn known_section(sh: &mut Shared, result: CallingProcess)
//@from <<<let mut caller = caller_mutex.lock().unwrap();>>>
//@to <<<determine_done.notify_all();>>>
//@rewrite <<<let mut caller = caller_mutex.lock().unwrap();>>> => <<<verif_lock(sh);>>>
//@rewrite <<<*caller = result;>>> => <<<sh.caller = result; sh.launched = Ghost(Some(result));>>>
//@rewrite <<<CALLER_INFO_SOURCE.store(CALLER_KNOWN, DELTA_ATOMIC_ORDERING);>>> => <<<sh.source = CALLER_KNOWN;>>>
//@rewrite <<<determine_done.notify_all();>>> => <<<verif_notify_all(sh);>>>
//@| requires !old(sh).locked@, result != CallingProcess::Pending,
//@| ensures lockinv(final(sh)),  // @C20:known.preserves.lock.invariant
//@|         final(sh).source == CALLER_KNOWN && final(sh).caller == result,  // @C20:known.is.recorded.as.known
//@|         final(sh).notified@,  // @C20:known.wakes.the.waiter

/// (R3) `Arc::new((Mutex::new(x), Condvar::new()))`: the shared cell with its first content
pub fn verif_shared_new(x: (CallingProcess)) -> (r: CallingProcess) ensures r == x { x }
//@ region src/utils/process.rs lazy_static
//@sig pub fn caller_initial_content() -> (r: CallingProcess)
//@from <<<Arc::new((Mutex::new(>>>
//@to <<<Condvar::new()))>>>
//@rewrite <<<Arc::new((Mutex::new(>>> => <<<verif_shared_new((>>>
//@rewrite <<<, Condvar::new()))>>> => <<<)>>>
//@| ensures r == CallingProcess::Pending,  // @C20:no.answer.exists.before.one.is.stored.so.an.early.query.waits

//@ region src/utils/process.rs calling_process
//@sig pub fn wait_predicate(caller: &CallingProcess) -> (r: bool)
//@from <<<*caller == CallingProcess::Pending>>>
//@to <<<*caller == CallingProcess::Pending>>>
//@| ensures r == (*caller == CallingProcess::Pending),  // @C20:waiter.sleeps.exactly.while.pending

// the whole body of calling_process(): the query waits - with the predicate verified above - until an answer is there
/// (R3) `determine_done.wait_while(caller_mutex.lock().unwrap(), PRED).unwrap()`. Condvar::wait_while: "Blocks the current thread
/// until the provided condition becomes false" - it returns, holding the lock, only once the predicate says false. ASSUMED
/// (as is that the lock is not poisoned; that a notified waiter wakes up is liveness and not decided).
#[verifier::external_body]
pub fn verif_wait_while<F: Fn(&CallingProcess) -> bool>(sh: &mut Shared, pred: F) -> (r: CallingProcess)
    requires !old(sh).locked@, forall|c: &CallingProcess| #[trigger] pred.requires((c,)),
    ensures final(sh).locked@, lockinv(final(sh)), r == final(sh).caller, pred.ensures((&r,), false),
{ unimplemented!() }
//@ region src/utils/process.rs calling_process
//@sig pub fn calling_process_query(sh: &mut Shared) -> (r: CallingProcess)
//@from <<<^>>>
//@to <<<}) .unwrap()>>>
//@rewrite <<<let (caller_mutex, determine_done) = &**CALLER;>>> => <<<>>>
//@rewrite <<<determine_done .wait_while(caller_mutex.lock().unwrap(), |caller| { *caller == CallingProcess::Pending }) .unwrap()>>> => <<<verif_wait_while(sh, wait_predicate)>>>
//@| requires !old(sh).locked@,
//@| ensures r != CallingProcess::Pending,  // @C20:a.query.returns.only.a.finished.answer.it.waits.with.no.time.limit.while.the.cell.is.pending

} // verus!
fn main() {}
