//@ include prelude/header.rs
//@ unit U16 utils/process.rs: the two critical sections on CALLER and the waiter's predicate (C20, sequential lock invariant; level `other`)
verus! {
//@ include prelude/base.rs

// ---- substitution-based model of the shared state (see DESIGN C20) ----
// `*caller` (the value inside the Mutex) and CALLER_INFO_SOURCE (an AtomicUsize only accessed while
// the lock is held in these sections) become fields of one struct; lock()/unwrap() are dropped, the
// Condvar notification becomes a ghost flag.  ASSUMED: the mutex serialises the sections.
#[derive(PartialEq, Eq, Structural, Clone, Copy)]
pub enum CallingProcess { Pending, None, Some(u64) }   // abstraction of the real enum: Pending / None / a described process
pub const CALLER_GUESSED: usize = 1;
pub const CALLER_KNOWN: usize = 2;
pub struct Shared {
    pub caller: CallingProcess,
    pub source: usize,
    pub notified: Ghost<bool>,
    pub launched: Ghost<Option<CallingProcess>>,   // what `delta git ...`/`delta rg ...` reported, if anything yet
}
/// LockInv: once the source is KNOWN the cell holds exactly the launched command and is not Pending.
pub open spec fn lockinv(sh: &Shared) -> bool {
    &&& (sh.source == CALLER_GUESSED || sh.source == CALLER_KNOWN)
    &&& (sh.source == CALLER_KNOWN ==> sh.launched@ == Some(sh.caller) && sh.caller != CallingProcess::Pending)
    &&& (sh.source == CALLER_GUESSED ==> sh.launched@ is None)
}
pub fn verif_notify_all(sh: &mut Shared)
    ensures final(sh).caller == old(sh).caller, final(sh).source == old(sh).source, final(sh).launched == old(sh).launched, final(sh).notified@,
{ sh.notified = Ghost(true); }

//@ region src/utils/process.rs start_determining_calling_process_in_thread
//@sig pub fn guess_section(sh: &mut Shared, calling_process: CallingProcess)
//@from <<<if CALLER_INFO_SOURCE>>>
//@to <<<determine_done.notify_all();>>>
//@rewrite <<<CALLER_INFO_SOURCE.load(DELTA_ATOMIC_ORDERING)>>> => <<<sh.source>>>
//@rewrite <<<*caller = calling_process;>>> => <<<sh.caller = calling_process;>>>
//@rewrite <<<determine_done.notify_all();>>> => <<<verif_notify_all(sh);>>>
//@| requires lockinv(old(sh)), calling_process != CallingProcess::Pending,
//@| ensures lockinv(final(sh)),  // @C20:guess.preserves.lock.invariant
//@|         old(sh).source == CALLER_KNOWN ==> final(sh).caller == old(sh).caller,  // @C20:guess.never.overwrites.a.launched.command
//@|         final(sh).caller != CallingProcess::Pending,  // @C20:guess.leaves.an.answer
//@|         final(sh).notified@,  // @C20:guess.wakes.the.waiter
//@|         final(sh).source == old(sh).source,

//@ region src/utils/process.rs set_calling_process
//@sig pub fn known_section(sh: &mut Shared, result: CallingProcess)
//@from <<<*caller =>>>
//@to <<<determine_done.notify_all();>>>
//@rewrite <<<*caller = result;>>> => <<<sh.caller = result; sh.launched = Ghost(Some(result));>>>
//@rewrite <<<CALLER_INFO_SOURCE.store(CALLER_KNOWN, DELTA_ATOMIC_ORDERING);>>> => <<<sh.source = CALLER_KNOWN;>>>
//@rewrite <<<determine_done.notify_all();>>> => <<<verif_notify_all(sh);>>>
//@| requires lockinv(old(sh)), result != CallingProcess::Pending,
//@| ensures lockinv(final(sh)),  // @C20:known.preserves.lock.invariant
//@|         final(sh).source == CALLER_KNOWN && final(sh).caller == result,  // @C20:known.is.recorded.as.known
//@|         final(sh).notified@,  // @C20:known.wakes.the.waiter

//@ region src/utils/process.rs calling_process
//@sig pub fn wait_predicate(caller: &CallingProcess) -> (r: bool)
//@from <<<*caller == CallingProcess::Pending>>>
//@to <<<*caller == CallingProcess::Pending>>>
//@| ensures r == (*caller == CallingProcess::Pending),  // @C20:waiter.sleeps.exactly.while.pending

} // verus!
fn main() {}
