//@ include prelude/header.rs
//@ unit U17 options/get.rs + git_config/mod.rs + options/set.rs: per-option lookup order, gitconfig switch, feature-flag order (C13)
verus! {
//@ include prelude/base.rs
//@ include prelude/std_assumed.rs
//@ shims features git_config cli config
//@ broadcast vax::vax_group vstd::std_specs::hash::group_hash_axioms axiom_string_obeys_key_model axiom_borrowed_string_keys axiom_borrowed_string_values axiom_str_key_inverse axiom_to_string_string axiom_str_is_its_text
use vstd::std_specs::hash::*;
pub assume_specification<T, A: std::alloc::Allocator>[ <Vec<T, A> as From<std::collections::VecDeque<T, A>>>::from ](v: std::collections::VecDeque<T, A>) -> (r: Vec<T, A>)
    ensures r@ == v@;

/// ASSUMED: `String`'s `Hash` and `Eq` agree, so vstd's HashMap model applies to `HashMap<String, _>`.
pub broadcast axiom fn axiom_string_obeys_key_model()
    ensures #[trigger] obeys_key_model::<String>();
/// ASSUMED: a `String` is determined by its characters (`str_key` is the inverse of the view), and
/// looking a `HashMap<String, V>` up by a borrowed `&str` finds the entry whose key has these characters
/// (`impl Borrow<str> for String`; vstd leaves the borrowed-key predicates uninterpreted).
pub uninterp spec fn str_key(k: Seq<char>) -> String;
pub broadcast axiom fn axiom_borrowed_string_keys<V>(m: Map<String, V>, k: &str)
    ensures #[trigger] contains_borrowed_key(m, k) <==> m.contains_key(str_key(k@));
pub broadcast axiom fn axiom_borrowed_string_values<V>(m: Map<String, V>, k: &str, v: V)
    ensures #[trigger] maps_borrowed_key_to_value(m, k, v) <==> (m.contains_key(str_key(k@)) && m[str_key(k@)] == v);
pub broadcast axiom fn axiom_str_key_inverse(s: String)
    ensures #[trigger] str_key(s@) == s;
/// ASSUMED: `<String as ToString>::to_string` copies the characters.
pub broadcast axiom fn axiom_to_string_string(s: &String, r: String)
    ensures #[trigger] vstd::string::to_string_from_display_ensures::<String>(s, r) <==> r@ == s@;

// ---------------------------------------------------------------- git_config getters
pub mod git2 {
    use vstd::prelude::*;
    /// the parsed gitconfig file(s) (dependency git2; opaque)
    #[verifier::external_body]
    pub struct Config { _p: u8 }
    /// value of `key` in the gitconfig FILE; uninterpreted
    pub uninterp spec fn file_string(c: &Config, key: Seq<char>) -> Option<Seq<char>>;
    impl Config {
        /// ASSUMED contract of git2 `Config::get_string`: a function of the file and the key.
        #[verifier::external_body]
        pub fn get_string(&self, key: &str) -> (r: Result<String, ()>)
            ensures match r { Ok(v) => file_string(self, key@) == Some(v@), Err(_) => file_string(self, key@) is None },
        { unimplemented!() }
        /// ASSUMED contracts of git2 `Config::get_i64` / `get_bool`: functions of the file and the key.
        #[verifier::external_body]
        pub fn get_i64(&self, key: &str) -> (r: Result<i64, ()>)
            ensures match r { Ok(v) => file_i64(self, key@) == Some(v), Err(_) => file_i64(self, key@) is None },
        { unimplemented!() }
        #[verifier::external_body]
        pub fn get_bool(&self, key: &str) -> (r: Result<bool, ()>)
            ensures match r { Ok(v) => file_bool(self, key@) == Some(v), Err(_) => file_bool(self, key@) is None },
        { unimplemented!() }
    }
    pub uninterp spec fn file_i64(c: &Config, key: Seq<char>) -> Option<i64>;
    pub uninterp spec fn file_bool(c: &Config, key: Seq<char>) -> Option<bool>;
}
use git2::file_string;
use git2::{file_i64, file_bool};
//@ type src/git_config/mod.rs GitConfig keep=config,config_from_env_var,enabled noderive

/// C13: "the main [delta] gitconfig section (including GIT_CONFIG_PARAMETERS overrides)": an override
/// given with `git -c` beats the value in the file; the file is consulted only when there is none.
pub open spec fn string_lookup_ok(gc: &GitConfig, key: &str, r: Option<Seq<char>>) -> bool {
    if gc.config_from_env_var@.contains_key(str_key(key@)) {
        r == Some(gc.config_from_env_var@[str_key(key@)]@)
    } else {
        r == file_string(&gc.config, key@)
    }
}

pub trait GitConfigGet: Sized {
    /// what a lookup of `key` yields for this option type (per-type parsers are below / out of reach)
    spec fn gc_get_spec(key: Seq<char>, gc: &GitConfig) -> Option<Self>;
    fn git_config_get(key: &str, git_config: &GitConfig) -> (r: Option<Self>)
        ensures r == Self::gc_get_spec(key@, git_config);
}
pub open spec fn gc_get<T: GitConfigGet>(gc: &GitConfig, key: Seq<char>) -> Option<T> {
    if gc.enabled { T::gc_get_spec(key, gc) } else { None }
}
pub open spec fn opt_view(o: Option<String>) -> Option<Seq<char>> { match o { Some(s) => Some(s@), None => None } }
pub open spec fn optopt_view(o: Option<Option<String>>) -> Option<Seq<char>> { match o { Some(Some(s)) => Some(s@), _ => None } }

//@ fn src/git_config/mod.rs String@GitConfigGet::git_config_get as=git_config_get_string self=String
//@| ensures string_lookup_ok(git_config, key, opt_view(r)),  // @C13:string.option.override.beats.file

//@ fn src/git_config/mod.rs Option@GitConfigGet::git_config_get as=git_config_get_option_string self=Option<String>
//@| ensures string_lookup_ok(git_config, key, optopt_view(r)),  // @C13:optional.string.option.override.beats.file
//@|         r matches Some(inner) ==> inner is Some,

/// (R3) `s.parse::<usize>()`: "Parses this string slice into another type"; uninterpreted
pub uninterp spec fn parse_usize_spec(s: Seq<char>) -> Option<usize>;
#[verifier::external_body]
pub fn verif_parse_usize(s: &String) -> (r: Result<usize, ()>)
    ensures match r { Ok(n) => parse_usize_spec(s@) == Some(n), Err(_) => parse_usize_spec(s@) is None },
{ unimplemented!() }
/// C13 for integer options: an override given with `git -c` that is a number beats the file; otherwise WHATEVER number
/// the file holds for the key is the value - zero included (a source that sets 0 has set the option)
pub open spec fn usize_lookup_ok(gc: &GitConfig, key: &str, r: Option<usize>) -> bool {
    if gc.config_from_env_var@.contains_key(str_key(key@)) && parse_usize_spec(gc.config_from_env_var@[str_key(key@)]@) is Some {
        r == parse_usize_spec(gc.config_from_env_var@[str_key(key@)]@)
    } else {
        match file_i64(&gc.config, key@) { Some(v) => r is Some && (v >= 0 ==> r == Some(v as usize)), None => r is None }
    }
}
//@ fn src/git_config/mod.rs usize@GitConfigGet::git_config_get as=git_config_get_usize self=usize
//@| ensures usize_lookup_ok(git_config, key, r),  // @C13:integer.option.override.beats.file.and.whatever.number.the.file.holds.counts.zero.included
//@rewrite <<<s.parse::<usize>()>>> => <<<verif_parse_usize(s)>>>

/// (R3) `map.get(key).map(|s| s.as_str())`
#[verifier::external_body]
pub fn verif_get_as_str<'a>(m: &'a HashMap<String, String>, key: &str) -> (r: Option<&'a str>)
    ensures m@.contains_key(str_key(key@)) ==> r is Some && r.unwrap()@ == m@[str_key(key@)]@,
            !m@.contains_key(str_key(key@)) ==> r is None,
{ unimplemented!() }
/// ASSUMED: a `str` is its text
pub broadcast axiom fn axiom_str_is_its_text(a: &str, b: &str)
    ensures #![trigger a@, b@] a@ == b@ ==> a == b;
/// C13 for boolean options: an override spelled `true` or `false` beats the file; otherwise the file decides
pub open spec fn bool_lookup_ok(gc: &GitConfig, key: &str, r: Option<bool>) -> bool {
    let has = gc.config_from_env_var@.contains_key(str_key(key@));
    if has && gc.config_from_env_var@[str_key(key@)]@ == "true"@ { r == Some(true) }
    else if has && gc.config_from_env_var@[str_key(key@)]@ == "false"@ { r == Some(false) }
    else { r == file_bool(&gc.config, key@) }
}
//@ fn src/git_config/mod.rs bool@GitConfigGet::git_config_get as=git_config_get_bool self=bool
//@| ensures bool_lookup_ok(git_config, key, r),  // @C13:boolean.option.override.beats.file
//@rewrite <<<git_config.config_from_env_var.get(key).map(|s| s.as_str())>>> => <<<verif_get_as_str(&git_config.config_from_env_var, key)>>>
//@before <<<match verif_get_as_str>>>| proof { reveal_strlit("true"); reveal_strlit("false"); }

impl GitConfig {
    //@ fn src/git_config/mod.rs GitConfig::get
    //@| ensures r == gc_get::<T>(self, key@),
    //@|         !self.enabled ==> r is None,  // @C13:disabled.gitconfig.answers.no.lookup
}

// ---------------------------------------------------------------- options/set.rs: --no-gitconfig
//@ type src/cli.rs Opt keep=features,no_gitconfig,minus_style,minus_emph_style,raw,color_only,diff_highlight,diff_so_fancy,hyperlinks,line_numbers,navigate,side_by_side,file_decoration_style,commit_decoration_style,hunk_header_decoration_style noderive

//@ region src/options/set.rs set_options
//@sig pub fn set_options_no_gitconfig_prologue(opt: &mut cli::Opt, git_config: &mut Option<GitConfig>)
//@from <<<^>>>
//@until <<<opt.navigate = >>>
//@| ensures old(opt).no_gitconfig ==> (*final(git_config) matches Some(g) ==> !g.enabled),  // @C13:no.gitconfig.disables.every.gitconfig.lookup


// ---------------------------------------------------------------- options/set.rs: the last word of set_options under --color-only
//@ region src/options/set.rs set_options
//@sig pub fn set_options_color_only_epilogue(opt: &mut cli::Opt)
//@from <<<if opt.color_only>>>
//@toblock
//@| ensures old(opt).color_only ==> !final(opt).side_by_side && final(opt).file_decoration_style@ == "none"@ && final(opt).commit_decoration_style@ == "none"@ && final(opt).hunk_header_decoration_style@ == "none"@,  // @C02:under.color-only.there.is.no.side-by-side.layout.and.no.decoration.whatever.was.configured
//@|         final(opt).color_only == old(opt).color_only,
//@|         !old(opt).color_only ==> final(opt).side_by_side == old(opt).side_by_side && final(opt).file_decoration_style == old(opt).file_decoration_style && final(opt).commit_decoration_style == old(opt).commit_decoration_style && final(opt).hunk_header_decoration_style == old(opt).hunk_header_decoration_style,

// ---------------------------------------------------------------- options/set.rs: a value given on the command line is never replaced
pub mod clap {
    use vstd::prelude::*;
    #[verifier::external_body]
    pub struct ArgMatches { _p: u8 }
}
/// config::user_supplied_option: was this option given on the command line; uninterpreted
pub uninterp spec fn user_supplied(name: Seq<char>, m: &clap::ArgMatches) -> bool;
#[verifier::external_body]
pub fn user_supplied_option(option: &str, arg_matches: &clap::ArgMatches) -> (r: bool)
    ensures r == user_supplied(option@, arg_matches) { unimplemented!() }
/// (R3) `features.contains(&"side-by-side".to_string())`
#[verifier::external_body]
pub fn verif_has_feature(features: &Vec<String>, name: &str) -> (r: bool) { unimplemented!() }
/// (R3) `&s[n..]` (this vstd gives str range indexing no postcondition): the rest of the string; in range is an obligation
pub uninterp spec fn str_tail(s: Seq<char>, n: int) -> Seq<char>;
#[verifier::external_body]
pub fn verif_str_tail(s: &str, n: usize) -> (r: &str)
    requires is_prefix_bytes(s, n),  // @C03:set_options.slice.starts.after.a.prefix.that.is.there
    ensures r@ == str_tail(s@, n as int),
{ unimplemented!() }
/// the first n bytes of s are a whole prefix of its characters (so slicing at n is in range and on a boundary)
pub open spec fn is_prefix_bytes(s: &str, n: usize) -> bool {
    exists|p: Seq<char>| #[trigger] is_prefix(p, s@) && encode_utf8(p).len() == n
}

//@ region src/options/set.rs set_options
//@sig pub fn set_options_side_by_side_minus_styles(opt: &mut cli::Opt, features: &Vec<String>, arg_matches: &clap::ArgMatches)
//@from <<<if features.contains(&"side-by-side".to_string()) {>>>
//@toblock
//@rewrite <<<features.contains(&"side-by-side".to_string())>>> => <<<verif_has_feature(features, "side-by-side")>>>
//@rewrite <<<&opt.minus_style[prefix.len()..]>>> => <<<verif_str_tail(&opt.minus_style, prefix.len())>>>
//@rewrite <<<&opt.minus_emph_style[prefix.len()..]>>> => <<<verif_str_tail(&opt.minus_emph_style, prefix.len())>>>
//@| ensures user_supplied("minus_style"@, arg_matches) ==> final(opt).minus_style == old(opt).minus_style,  // @C13,C12,C15:a.minus.style.given.on.the.command.line.is.kept
//@|         user_supplied("minus_emph_style"@, arg_matches) ==> final(opt).minus_emph_style == old(opt).minus_emph_style,  // @C13,C12,C15:a.minus.emph.style.given.on.the.command.line.is.kept
//@|         !is_prefix("normal "@, old(opt).minus_style@) ==> final(opt).minus_style == old(opt).minus_style,  // @C12:only.a.normal.minus.style.is.turned.into.syntax
//@|         final(opt).features == old(opt).features && final(opt).no_gitconfig == old(opt).no_gitconfig,


// ---------------------------------------------------------------- options/set.rs gather_features: the main [delta] section
/// `impl GitConfigGet for String` (its body is verified above as `git_config_get_string`); here only its value matters
pub uninterp spec fn gc_string(key: Seq<char>, gc: &GitConfig) -> Option<String>;
impl GitConfigGet for String {
    open spec fn gc_get_spec(key: Seq<char>, gc: &GitConfig) -> Option<String> { gc_string(key, gc) }
    #[verifier::external_body]
    fn git_config_get(key: &str, git_config: &GitConfig) -> (r: Option<String>) { unimplemented!() }
}
/// `split_feature_string`: the words of a features string from the last listed to the first (`split_whitespace().rev()`)
#[verifier::external_body]
pub fn split_feature_string<'a>(features: &'a str) -> (r: Vec<&'a str>)
    ensures r@.len() == split_ws(features@).len(), forall|i: int| 0 <= i < r@.len() ==> (#[trigger] r@[i])@ == split_ws(features@)[split_ws(features@).len() - 1 - i],
{ unimplemented!() }
/// the two gatherers (recursive; VecDeque, iterator chains): what they do to the list is a function of their arguments
pub uninterp spec fn gfr_spec(fs: Seq<String>, feature: Seq<char>, builtin: Map<String, BuiltinFeature>, opt: &cli::Opt, gc: &GitConfig) -> Seq<String>;
pub uninterp spec fn flags_spec(fs: Seq<String>, key: Seq<char>, builtin: Map<String, BuiltinFeature>, opt: &cli::Opt, gc: &GitConfig) -> Seq<String>;
#[verifier::external_body]
pub fn gather_features_recursively(feature: &str, features: &mut VecDeque<String>, builtin_features: &HashMap<String, BuiltinFeature>, opt: &cli::Opt, git_config: &GitConfig)
    ensures final(features)@ == gfr_spec(old(features)@, feature@, builtin_features@, opt, git_config),
{ unimplemented!() }
#[verifier::external_body]
pub fn gather_builtin_features_from_flags_in_gitconfig(git_config_key: &str, features: &mut VecDeque<String>, builtin_features: &HashMap<String, BuiltinFeature>, opt: &cli::Opt, git_config: &GitConfig)
    ensures final(features)@ == flags_spec(old(features)@, git_config_key@, builtin_features@, opt, git_config),
{ unimplemented!() }
/// the features listed in the main section, gathered from the last listed to the first
pub open spec fn gather_listed(fs: Seq<String>, listed: Seq<Seq<char>>, k: int, builtin: Map<String, BuiltinFeature>, opt: &cli::Opt, gc: &GitConfig) -> Seq<String>
    decreases k
{
    if k <= 0 || k > listed.len() { fs } else {
        gfr_spec(gather_listed(fs, listed, k - 1, builtin, opt, gc), listed[listed.len() - k], builtin, opt, gc)
    }
}
/// C13: the features named in the main section come first (they are pushed to the front later than nothing else
/// but the flags), the feature FLAGS of the main section are gathered after them - so a listed feature outranks a flag
pub open spec fn main_section_spec(fs: Seq<String>, builtin: Map<String, BuiltinFeature>, opt: &cli::Opt, gc: &Option<GitConfig>) -> Seq<String> {
    match gc {
        None => fs,
        Some(g) => {
            let listed = if opt.features is None && gc_get::<String>(g, "delta.features"@) is Some {
                let ws = split_ws(gc_get::<String>(g, "delta.features"@)->0@);
                gather_listed(fs, ws, ws.len() as int, builtin, opt, g)
            } else { fs };
            flags_spec(listed, "delta"@, builtin, opt, g)
        }
    }
}
//@ region src/options/set.rs gather_features
//@sig pub fn gather_features_main_section(opt: &mut cli::Opt, features_in: VecDeque<String>, builtin_features: &HashMap<String, BuiltinFeature>, git_config: &Option<GitConfig>) -> (r: Vec<String>)
//@fromafter <<<gather_builtin_features_recursively("side-by-side", &mut features, builtin_features, opt); }>>>
//@to <<<Vec::<String>::from(features)>>>
//@| ensures r@ == main_section_spec(features_in@, builtin_features@, old(opt), git_config),  // @C13:main.section.features.are.gathered.before.its.feature.flags.so.they.outrank.them
//@|         *final(opt) == *old(opt),
//@before <<<if let Some(git_config) = git_config {>>>| let mut features = features_in;
//@rewrite <<<for feature in split_feature_string(&feature_string) {>>> => <<<for feature in it: split_feature_string(&feature_string) {>>>
//@loop 1| invariant *opt == *old(opt), it.seq().len() == split_ws(feature_string@).len(),
//@loop 1|     forall|i: int| 0 <= i < it.seq().len() ==> (#[trigger] it.seq()[i])@ == split_ws(feature_string@)[split_ws(feature_string@).len() - 1 - i],
//@loop 1|     features@ == gather_listed(features_in@, split_ws(feature_string@), it.index@, builtin_features@, opt, git_config),


// ---------------------------------------------------------------- options/set.rs gather_features: named features, then the flags given on the command line
pub uninterp spec fn gbfr_spec(fs: Seq<String>, feature: Seq<char>, builtin: Map<String, BuiltinFeature>, opt: &cli::Opt) -> Seq<String>;
#[verifier::external_body]
pub fn gather_builtin_features_recursively(feature: &str, features: &mut VecDeque<String>, builtin_features: &HashMap<String, BuiltinFeature>, opt: &cli::Opt)
    ensures final(features)@ == gbfr_spec(old(features)@, feature@, builtin_features@, opt),
{ unimplemented!() }
/// the features named by --features / DELTA_FEATURES, gathered in the order given (each is pushed to the FRONT, so a later
/// one ends up before an earlier one and - the list being read from the right - has lower priority)
pub open spec fn gather_named(fs: Seq<String>, named: Seq<&str>, k: int, builtin: Map<String, BuiltinFeature>, opt: &cli::Opt, gc: &Option<GitConfig>) -> Seq<String>
    decreases k
{
    if k <= 0 || k > named.len() { fs } else {
        let prev = gather_named(fs, named, k - 1, builtin, opt, gc);
        match gc {
            Some(g) => gfr_spec(prev, named[k - 1]@, builtin, opt, g),
            // C13 "features enabled by features": without any gitconfig a feature has no custom section, but a built-in one
            // still brings the features it is defined to enable - exactly as when it is given as a flag
            None => if builtin.contains_key(str_key(named[k - 1]@)) { gbfr_spec(prev, named[k - 1]@, builtin, opt) } else { seq![str_key(named[k - 1]@)] + prev },
        }
    }
}
pub open spec fn flag_step(fs: Seq<String>, on: bool, name: Seq<char>, builtin: Map<String, BuiltinFeature>, opt: &cli::Opt) -> Seq<String> {
    if on { gbfr_spec(fs, name, builtin, opt) } else { fs }
}
/// C13: first the named features, then the feature FLAGS of the command line in this fixed order - so every flag ends up
/// in front of every named feature, i.e. has lower priority
pub open spec fn named_then_flags_spec(named: Seq<&str>, builtin: Map<String, BuiltinFeature>, opt: &cli::Opt, gc: &Option<GitConfig>) -> Seq<String> {
    let f0 = gather_named(Seq::empty(), named, named.len() as int, builtin, opt, gc);
    let f1 = flag_step(f0, opt.raw, "raw"@, builtin, opt);
    let f2 = flag_step(f1, opt.color_only, "color-only"@, builtin, opt);
    let f3 = flag_step(f2, opt.diff_highlight, "diff-highlight"@, builtin, opt);
    let f4 = flag_step(f3, opt.diff_so_fancy, "diff-so-fancy"@, builtin, opt);
    let f5 = flag_step(f4, opt.hyperlinks, "hyperlinks"@, builtin, opt);
    let f6 = flag_step(f5, opt.line_numbers, "line-numbers"@, builtin, opt);
    let f7 = flag_step(f6, opt.navigate, "navigate"@, builtin, opt);
    flag_step(f7, opt.side_by_side, "side-by-side"@, builtin, opt)
}
//@ region src/options/set.rs gather_features
//@sig pub fn gather_features_named_then_flags(opt: &mut cli::Opt, input_features: Vec<&str>, builtin_features: &HashMap<String, BuiltinFeature>, git_config: &Option<GitConfig>) -> (r: VecDeque<String>)
//@from <<<let mut features = VecDeque::new();>>>
//@to <<<gather_builtin_features_recursively("side-by-side", &mut features, builtin_features, opt); }>>>
//@tail features
//@| ensures r@ =~= named_then_flags_spec(input_features@, builtin_features@, old(opt), git_config),  // @C13:named.features.are.gathered.before.the.command.line.feature.flags.in.a.fixed.order
//@|         *final(opt) == *old(opt),
//@rewriteall <<<for feature in input_features {>>> => <<<for feature in it: input_features {>>>
//@after <<<let mut features = VecDeque::new();>>>| let ghost named = input_features@; let ghost gc0 = *git_config; proof { assert(features@ =~= Seq::<String>::empty()); }
//@loop 1| invariant *opt == *old(opt), it.seq() == named, features@ =~= gather_named(Seq::empty(), named, it.index@, builtin_features@, opt, &gc0), gc0 == Some(*git_config),
//@loop 2| invariant *opt == *old(opt), it.seq() == named, features@ =~= gather_named(Seq::empty(), named, it.index@, builtin_features@, opt, &gc0), gc0 is None,

// ---------------------------------------------------------------- options/get.rs
//@ type src/options/option_value.rs OptionValue noderive
//@ type src/options/option_value.rs ProvenancedOptionValue noderive
use ProvenancedOptionValue::*;
/// a builtin feature's value function (`Box<dyn Fn(&cli::Opt, &Option<GitConfig>) -> ProvenancedOptionValue>`); opaque
#[verifier::external_body]
pub struct OptionValueFunction { _p: u8 }
pub type BuiltinFeature = HashMap<String, OptionValueFunction>;
pub uninterp spec fn vf_result(f: &OptionValueFunction, opt: &cli::Opt, gc: &Option<GitConfig>) -> ProvenancedOptionValue;
/// (R3) the call `value_function(opt, git_config)` of the boxed closure
#[verifier::external_body]
pub fn verif_call_value_function(f: &OptionValueFunction, opt: &cli::Opt, gc: &Option<GitConfig>) -> (r: ProvenancedOptionValue)
    ensures r == vf_result(f, opt, gc) { unimplemented!() }
/// the `Into<OptionValue>` / `From<OptionValue>` conversions of the option types (options/option_value.rs); uninterpreted
pub uninterp spec fn into_ov<T>(v: T) -> OptionValue;
pub uninterp spec fn from_ov<T>(v: OptionValue) -> T;
#[verifier::external_body]
pub fn verif_into_ov<T: Into<OptionValue>>(v: T) -> (r: OptionValue) ensures r == into_ov(v) { unimplemented!() }
#[verifier::external_body]
pub fn verif_from_ov<T: From<OptionValue>>(v: OptionValue) -> (r: T) ensures r == from_ov::<T>(v) { unimplemented!() }

/// whitespace-separated words of a features string in LISTED order (`str::split_whitespace`); uninterpreted
pub uninterp spec fn split_ws(s: Seq<char>) -> Seq<Seq<char>>;
/// (R3) `s.split_whitespace()`, as the vector of its words
#[verifier::external_body]
pub fn verif_split_whitespace<'a>(s: &'a str) -> (r: Vec<&'a str>)
    ensures r@.len() == split_ws(s@).len(), forall|i: int| 0 <= i < r@.len() ==> (#[trigger] r@[i])@ == split_ws(s@)[i],
{ unimplemented!() }
/// ASSUMED contract of `Iterator::rev` on the word iterator: same words, opposite order.
pub trait VerifRev<'a>: Sized {
    spec fn words(&self) -> Seq<&'a str>;
    fn rev(self) -> (r: Vec<&'a str>)
        ensures r@.len() == self.words().len(), forall|i: int| 0 <= i < r@.len() ==> #[trigger] r@[i] == self.words()[self.words().len() - 1 - i];
}
impl<'a> VerifRev<'a> for Vec<&'a str> {
    open spec fn words(&self) -> Seq<&'a str> { self@ }
    #[verifier::external_body]
    fn rev(self) -> (r: Vec<&'a str>) { unimplemented!() }
}

/// the keys, in the shape `format!` builds them (`""@` is the empty tail of the format string)
pub open spec fn main_key(name: Seq<char>) -> Seq<char> { "delta."@ + name + ""@ }
pub open spec fn custom_key(feature: Seq<char>, name: Seq<char>) -> Seq<char> { "delta."@ + feature + "."@ + name + ""@ }
/// 2.2: the value a builtin feature gives an option (none if the feature or the option is unknown)
pub open spec fn builtin_value(name: Seq<char>, feature: Seq<char>, builtin: Map<String, BuiltinFeature>, opt: &cli::Opt, gc: &Option<GitConfig>) -> Option<ProvenancedOptionValue> {
    if builtin.contains_key(str_key(feature)) && builtin[str_key(feature)]@.contains_key(str_key(name)) {
        Some(vf_result(&builtin[str_key(feature)]@[str_key(name)], opt, gc))
    } else { None }
}
pub open spec fn custom_value<T: GitConfigGet>(name: Seq<char>, feature: Seq<char>, gc: &Option<GitConfig>) -> Option<T> {
    match gc { Some(g) => gc_get::<T>(g, custom_key(feature, name)), None => None }
}
pub open spec fn main_value<T: GitConfigGet>(name: Seq<char>, gc: &Option<GitConfig>) -> Option<T> {
    match gc { Some(g) => gc_get::<T>(g, main_key(name)), None => None }
}
/// 2.1 before 2.2: a custom [delta "feature"] section before the built-in feature's value
pub open spec fn feature_value<T: GitConfigGet>(name: Seq<char>, feature: Seq<char>, builtin: Map<String, BuiltinFeature>, opt: &cli::Opt, gc: &Option<GitConfig>) -> Option<ProvenancedOptionValue> {
    match custom_value::<T>(name, feature, gc) {
        Some(v) => Some(GitConfigValue(into_ov(v))),
        None => builtin_value(name, feature, builtin, opt, gc),
    }
}
/// features from last-listed to first-listed: the first one (from the right) with a value decides
pub open spec fn lookup_down<T: GitConfigGet>(name: Seq<char>, listed: Seq<Seq<char>>, k: int, builtin: Map<String, BuiltinFeature>, opt: &cli::Opt, gc: &Option<GitConfig>) -> Option<T>
    decreases k
{
    if k <= 0 || k > listed.len() { None } else {
        match feature_value::<T>(name, listed[k - 1], builtin, opt, gc) {
            Some(GitConfigValue(v)) => Some(from_ov::<T>(v)),
            Some(DefaultValue(v)) => Some(from_ov::<T>(v)),
            None => lookup_down::<T>(name, listed, k - 1, builtin, opt, gc),
        }
    }
}
pub open spec fn option_value_spec<T: GitConfigGet>(name: Seq<char>, builtin: Map<String, BuiltinFeature>, opt: &cli::Opt, gc: &Option<GitConfig>) -> Option<T> {
    if main_value::<T>(name, gc) is Some {
        main_value::<T>(name, gc)
    } else {
        match opt.features {
            Some(fs) => lookup_down::<T>(name, split_ws(fs@), split_ws(fs@).len() as int, builtin, opt, gc),
            None => None,
        }
    }
}

pub trait GetOptionValue {
    //@ fn src/options/get.rs GetOptionValue::get_option_value vis=keep
    //@| ensures *final(git_config) == *old(git_config),
    //@|         r == option_value_spec::<Self>(option_name@, builtin_features@, opt, old(git_config)),  // @C13:main.section.then.features.from.last.listed.to.first
    //@rewrite <<<for feature in >>> => <<<for feature in it: >>>
    //@rewrite <<<features.split_whitespace()>>> => <<<verif_split_whitespace(features)>>>
    //@rewrite <<<return Some(value.into());>>> => <<<return Some(verif_from_ov::<Self>(value));>>>
    //@loop 1| invariant *git_config == *old(git_config), opt.features == Some(*features), main_value::<Self>(option_name@, git_config) is None,
    //@loop 1|     it.seq().len() == split_ws(features@).len(),
    //@loop 1|     forall|i: int| 0 <= i < it.seq().len() ==> (#[trigger] it.seq()[i])@ == split_ws(features@)[split_ws(features@).len() - 1 - i],
    //@loop 1|     lookup_down::<Self>(option_name@, split_ws(features@), split_ws(features@).len() as int, builtin_features@, opt, git_config)
    //@loop 1|         == lookup_down::<Self>(option_name@, split_ws(features@), split_ws(features@).len() - it.index@, builtin_features@, opt, git_config),

    //@ fn src/options/get.rs GetOptionValue::get_provenanced_value_for_feature vis=keep
    //@| ensures *final(git_config) == *old(git_config),
    //@|         r == feature_value::<Self>(option_name@, feature@, builtin_features@, opt, old(git_config)),  // @C13:custom.section.before.builtin.feature.value
    //@rewrite <<<GitConfigValue(value.into())>>> => <<<GitConfigValue(verif_into_ov(value))>>>
    //@rewrite <<<value_function(opt, git_config)>>> => <<<verif_call_value_function(value_function, opt, git_config)>>>
}

} // verus!
fn main() {}
