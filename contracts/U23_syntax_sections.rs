//@ include prelude/header.rs
//@ unit U23 paint.rs get_syntax_style_sections_for_lines: the syntax sections of a line spell exactly that line (C15, C01), the split of an over-long line is in range (C03)
verus! {
//@ include prelude/base.rs
//@ include prelude/std_assumed.rs
//@ include prelude/state.rs
//@ shims config ansi merge_conflict grep
//@ broadcast vax::vax_group
pub type LineSections<'a, S> = Vec<(S, &'a str)>;

// Mirror of syntect::highlighting::{Style, Color} (plain data of the dependency; trusted copy).
#[derive(Clone, Copy, PartialEq, Eq, Structural)]
pub struct SyntectColor { pub r: u8, pub g: u8, pub b: u8, pub a: u8 }
#[derive(Clone, Copy, PartialEq, Eq, Structural)]
pub struct SyntectStyle { pub foreground: SyntectColor, pub background: SyntectColor, pub font_style: u8 }
#[verifier::external_body]
pub struct SyntaxSet { _p: u8 }
//@ type src/config.rs Config keep=max_syntax_length,null_syntect_style,syntax_set

/// the text a sequence of styled sections spells
pub open spec fn sect_text<S>(s: Seq<(S, &str)>) -> Seq<char>
    decreases s.len()
{
    if s.len() == 0 { Seq::empty() } else { sect_text(s.drop_last()) + s.last().1@ }
}
pub proof fn lemma_sect_text_push<S>(s: Seq<(S, &str)>, x: (S, &str))
    ensures sect_text(s.push(x)) == sect_text(s) + x.1@,
{
    assert(s.push(x).drop_last() =~= s);
}
pub proof fn lemma_sect_text_one<S>(x: (S, &str))
    ensures sect_text(seq![x]) == x.1@,
{
    assert(seq![x].drop_last() =~= Seq::<(S, &str)>::empty());
    assert(sect_text(Seq::<(S, &str)>::empty()) =~= Seq::<char>::empty());
    assert(Seq::<char>::empty() + x.1@ =~= x.1@);
}

/// syntect's HighlightLines (dependency; opaque). ASSUMED contract of `highlight_line`: the returned
/// ranges are slices of the given line which, put together, are that line.
#[verifier::external_body]
pub struct HighlightLines<'a> { _p: std::marker::PhantomData<&'a ()> }
impl<'a> HighlightLines<'a> {
    #[verifier::external_body]
    pub fn highlight_line<'b>(&mut self, line: &'b str, syntax_set: &SyntaxSet) -> (r: Result<Vec<(SyntectStyle, &'b str)>, ()>)
        ensures r is Ok,   // ASSUMED: syntect does not fail on a line (the real code unwraps)
                r matches Ok(v) ==> sect_text(v@) == line@,
    { unimplemented!() }
}
/// ASSUMED contract of ansi::truncate_str_short: "always returns a prefix of the input and only cuts at grapheme borders"
pub uninterp spec fn short_prefix_len(s: Seq<char>, w: usize) -> int;
#[verifier::external_body]
pub fn truncate_str_short<'a>(s: &'a str, display_width: usize) -> (r: Cow<'a, str>)
    ensures is_prefix(cow_view(&r), s@), encode_utf8(cow_view(&r)).len() <= s.spec_bytes().len(),
{ unimplemented!() }
/// (R3) `line_syntax.len()`: the byte length of the truncated prefix
#[verifier::external_body]
pub fn verif_cow_len(c: &Cow<'_, str>) -> (r: usize) ensures r == encode_utf8(cow_view(c)).len() { unimplemented!() }
/// `str::split_at(mid)` at the end of a prefix of the string: "The two slices returned go from the start of the
/// string slice to mid, and from mid to the end of the string slice."
#[verifier::external_body]
pub fn verif_split_at<'a>(s: &'a str, mid: usize, Ghost(p): Ghost<Seq<char>>) -> (r: (&'a str, &'a str))
    requires is_prefix(p, s@), encode_utf8(p).len() == mid,  // @C03:syntax.split.point.is.the.end.of.a.prefix.of.the.line
    ensures r.0@ == p, r.0@ + r.1@ == s@,
{ unimplemented!() }
/// (R3) `lines.iter().any(|(_, state)| Painter::should_compute_syntax_highlighting(state, config))`
#[verifier::external_body]
pub fn verif_any_line_wants_syntax(lines: &[(String, State)], config: &Config) -> (r: bool) ensures r == any_line_wants_syntax(lines@, config) { unimplemented!() }
/// some line of the block is of a kind whose styles ask for syntax highlighting (U50 has should_compute_syntax_highlighting under contract); uninterpreted
pub uninterp spec fn any_line_wants_syntax(lines: Seq<(String, State)>, config: &Config) -> bool;
/// every line has exactly one section, in the null syntax style
pub open spec fn all_null_style(r: Seq<Vec<(SyntectStyle, &str)>>, n: int, config: &Config) -> bool {
    forall|i: int| 0 <= i < n ==> (#[trigger] r[i])@.len() == 1 && r[i]@[0].0 == config.null_syntect_style
}
/// (R3) `v.last_mut().unwrap().push(x)`: the last vector grows by x, nothing else changes
#[verifier::external_body]
pub fn verif_push_to_last<'a>(v: &mut Vec<LineSections<'a, SyntectStyle>>, x: (SyntectStyle, &'a str))
    requires old(v)@.len() > 0,  // @C03:there.is.a.last.section.list.to.extend
    ensures final(v)@.len() == old(v)@.len(),
            forall|i: int| 0 <= i < old(v)@.len() - 1 ==> #[trigger] final(v)@[i] == old(v)@[i],
            final(v)@.last()@ == old(v)@.last()@.push(x),
{ unimplemented!() }
// (`str::trim_end` is named in prelude/std_assumed.rs: `trim_end_spec`)

/// C15/C01: every line gets sections that spell exactly the line, so that superimposing them on the diff
/// sections (a zip over characters) neither drops nor invents a character
pub open spec fn sections_spell_lines(r: Seq<Vec<(SyntectStyle, &str)>>, lines: Seq<(String, State)>, n: int) -> bool {
    r.len() == n && forall|i: int| 0 <= i < n ==> sect_text((#[trigger] r[i])@) == lines[i].0@
}

//@ fn src/paint.rs get_syntax_style_sections_for_lines
//@| ensures sections_spell_lines(r@, lines@, lines@.len() as int),  // @C15,C01:syntax.sections.of.a.line.spell.exactly.the.line
//@|         !any_line_wants_syntax(lines@, config) ==> all_null_style(r@, lines@.len() as int, config),  // @C15:lines.whose.styles.do.not.ask.for.syntax.are.not.highlighted.they.get.the.null.syntax.style.whatever.the.theme
//@rewrite <<<lines .iter() .any(|(_, state)| Painter::should_compute_syntax_highlighting(state, config))>>> => <<<verif_any_line_wants_syntax(lines, config)>>>
//@rewriteall <<<for (line, _) in lines.iter() {>>> => <<<for lp in it: lines.iter() { let line = &lp.0;>>>
//@rewrite <<<line.split_at(line_syntax.len())>>> => <<<verif_split_at(line, verif_cow_len(&line_syntax), Ghost(cow_view(&line_syntax)))>>>
//@rewrite <<<line_sections .last_mut() .unwrap() .push((config.null_syntect_style, plain));>>> => <<<verif_push_to_last(&mut line_sections, (config.null_syntect_style, plain));>>>
//@loop 1| invariant sections_spell_lines(line_sections@, lines@, it.index@), it.seq().len() == lines@.len(), forall|i: int| 0 <= i < it.seq().len() ==> *(#[trigger] it.seq()[i]) == lines@[i],
//@loop 2| invariant all_null_style(line_sections@, it.index@ as int, config), sections_spell_lines(line_sections@, lines@, it.index@), it.seq().len() == lines@.len(), forall|i: int| 0 <= i < it.seq().len() ==> *(#[trigger] it.seq()[i]) == lines@[i],
//@before <<<verif_push_to_last(>>>| proof { lemma_sect_text_push(line_sections@.last()@, (config.null_syntect_style, plain)); }
//@after <<<line_sections.push(vec![(config.null_syntect_style, line.as_str())])>>>| ; proof { let v = line_sections@.last()@; assert(v =~= seq![v[0]]); lemma_sect_text_one(v[0]); }

} // verus!
fn main() {}
