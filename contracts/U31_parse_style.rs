//@ include prelude/header.rs
//@ unit U31 parse_style.rs parse_ansi_term_style: a style string means its words - exactly the attributes named, first colour = foreground, second = background (C12)
verus! {
//@ include prelude/base.rs
//@ include prelude/std_assumed.rs
//@ include prelude/ansi_term.rs
//@ include prelude/style.rs
//@ shims color

/// mirror of ansi_term 0.12.1 `Style::new()` ("Creates a new Style with no properties set"): `Style::default()`
pub open spec fn at_plain() -> ansi_term::Style {
    AtStyle { foreground: None, background: None, is_bold: false, is_dimmed: false, is_italic: false, is_underline: false,
              is_blink: false, is_reverse: false, is_hidden: false, is_strikethrough: false }
}
impl AtStyle {
    #[verifier::external_body]
    pub fn new() -> (r: AtStyle) ensures r == at_plain() { unimplemented!() }
}
#[verifier::external_body]
pub struct GitConfig { _p: u8 }
/// `color::parse_color` (named / bright / 0-255 / #rrggbb / git colour names, `normal` = no colour); uninterpreted here
pub uninterp spec fn parse_color_spec(word: Seq<char>, true_color: bool, git_config: Option<&GitConfig>) -> Option<ansi_term::Color>;
#[verifier::external_body]
pub fn parse_color(s: &str, true_color: bool, git_config: Option<&GitConfig>) -> (r: Option<ansi_term::Color>)
    ensures r == parse_color_spec(s@, true_color, git_config),
{ unimplemented!() }
/// (R3) `fatal(format!(..))`: message and exit(2); never returns
#[verifier::external_body]
pub fn verif_fatal() -> ! { unimplemented!() }

/// (R3) the word iterator `s.to_lowercase().split_whitespace().map(|word| word.trim_matches(quotes))`: the words of the
/// style string, lower-cased, without surrounding quotes; uninterpreted ("in any letter case" rests on to_lowercase)
pub uninterp spec fn style_words_spec(s: Seq<char>) -> Seq<Seq<char>>;
#[verifier::external_body]
pub fn verif_style_words<'a>(s: &'a str) -> (r: Vec<&'a str>)
    ensures r@.len() == style_words_spec(s@).len(), forall|j: int| 0 <= j < r@.len() ==> (#[trigger] r@[j])@ == style_words_spec(s@)[j],
{ unimplemented!() }

/// (R3) `default.and_then(|s| s.ansi_term_style.foreground)` etc. (Verus gives a closure no contract unless it is written on it).
/// ASSUMED: Option::and_then / map / unwrap_or as documented in std.
#[verifier::external_body]
pub fn verif_default_fg(default: Option<Style>) -> (r: Option<ansi_term::Color>)
    ensures r == (match default { Some(d) => d.ansi_term_style.foreground, None => None }) { unimplemented!() }
#[verifier::external_body]
pub fn verif_default_bg(default: Option<Style>) -> (r: Option<ansi_term::Color>)
    ensures r == (match default { Some(d) => d.ansi_term_style.background, None => None }) { unimplemented!() }
#[verifier::external_body]
pub fn verif_default_syntax(default: Option<Style>) -> (r: bool)
    ensures r == (match default { Some(d) => d.is_syntax_highlighted, None => false }) { unimplemented!() }


// ---------------------------------------------------------------- what a style string means (C12)
/// the words that are not colours: attributes, and the three words that only mean something in hunk-header-style
pub open spec fn is_attr_word(w: Seq<char>) -> bool {
    w == "blink"@ || w == "bold"@ || w == "dim"@ || w == "hidden"@ || w == "italic"@ || w == "omit"@ || w == "reverse"@
    || w == "raw"@ || w == "strike"@ || w == "ul"@ || w == "underline"@ || w == "line-number"@ || w == "file"@ || w == "omit-code-fragment"@
}
/// one of the first k words is x
#[verifier::opaque]
pub open spec fn has_word(w: Seq<Seq<char>>, k: int, x: Seq<char>) -> bool
    decreases k
{
    k > 0 && k <= w.len() && (w[k - 1] == x || has_word(w, k - 1, x))
}
/// the colour words among the first k words, in order
#[verifier::opaque]
pub open spec fn colour_words(w: Seq<Seq<char>>, k: int) -> Seq<Seq<char>>
    decreases k
{
    if k <= 0 || k > w.len() { Seq::empty() } else {
        let p = colour_words(w, k - 1);
        if is_attr_word(w[k - 1]) { p } else { p.push(w[k - 1]) }
    }
}
/// the colour a colour word stands for in the foreground / background slot
pub open spec fn fg_of(c: Seq<char>, default: Option<Style>, true_color: bool, git_config: Option<&GitConfig>) -> Option<ansi_term::Color> {
    if c == "syntax"@ { None }
    else if c == "auto"@ { match default { Some(d) => d.ansi_term_style.foreground, None => None } }
    else { parse_color_spec(c, true_color, git_config) }
}
pub open spec fn bg_of(c: Seq<char>, default: Option<Style>, true_color: bool, git_config: Option<&GitConfig>) -> Option<ansi_term::Color> {
    if c == "auto"@ { match default { Some(d) => d.ansi_term_style.background, None => None } }
    else { parse_color_spec(c, true_color, git_config) }
}
pub open spec fn syntax_of(c: Seq<char>, default: Option<Style>) -> bool {
    c == "syntax"@ || (c == "auto"@ && (match default { Some(d) => d.is_syntax_highlighted, None => false }))
}
/// C12: the style carries exactly the attributes whose words occur (in any position), the first colour word is the
/// foreground, the second the background, and there is no third
pub open spec fn style_means_words(st: ansi_term::Style, w: Seq<Seq<char>>, k: int, default: Option<Style>, true_color: bool, git_config: Option<&GitConfig>) -> bool {
    let cw = colour_words(w, k);
    &&& st.is_blink == has_word(w, k, "blink"@)
    &&& st.is_bold == has_word(w, k, "bold"@)
    &&& st.is_dimmed == has_word(w, k, "dim"@)
    &&& st.is_hidden == has_word(w, k, "hidden"@)
    &&& st.is_italic == has_word(w, k, "italic"@)
    &&& st.is_reverse == has_word(w, k, "reverse"@)
    &&& st.is_strikethrough == has_word(w, k, "strike"@)
    &&& st.is_underline == (has_word(w, k, "ul"@) || has_word(w, k, "underline"@))
    &&& cw.len() <= 2
    &&& st.foreground == (if cw.len() >= 1 { fg_of(cw[0], default, true_color, git_config) } else { None })
    &&& st.background == (if cw.len() >= 2 { bg_of(cw[1], default, true_color, git_config) } else { None })
}
pub open spec fn both_auto(cw: Seq<Seq<char>>) -> bool { cw.len() >= 2 && cw[0] == "auto"@ && cw[1] == "auto"@ }

/// one more word: what it adds (the two definitions, unfolded once)
pub proof fn lemma_word_step(w: Seq<Seq<char>>, i: int)
    requires 0 <= i < w.len(),
    ensures
        colour_words(w, i + 1) == (if is_attr_word(w[i]) { colour_words(w, i) } else { colour_words(w, i).push(w[i]) }),
        forall|x: Seq<char>| #[trigger] has_word(w, i + 1, x) == (w[i] == x || has_word(w, i, x)),
{
    reveal_with_fuel(colour_words, 2);
    reveal_with_fuel(has_word, 2);
}
pub proof fn lemma_no_words(w: Seq<Seq<char>>)
    ensures colour_words(w, 0) == Seq::<Seq<char>>::empty(), forall|x: Seq<char>| !#[trigger] has_word(w, 0, x),
{
    reveal_with_fuel(colour_words, 1);
    reveal_with_fuel(has_word, 1);
}

/// what tells the sixteen words apart: length and the first two characters
pub open spec fn wid(s: Seq<char>) -> (nat, char, char) {
    (s.len(), if s.len() > 0 { s[0] } else { ' ' }, if s.len() > 1 { s[1] } else { ' ' })
}
/// the sixteen words are different words (a word equal to one of them is none of the others)
pub proof fn lemma_words_revealed()
    ensures
        wid("blink"@) == (5nat, 'b', 'l'), wid("bold"@) == (4nat, 'b', 'o'), wid("dim"@) == (3nat, 'd', 'i'), wid("hidden"@) == (6nat, 'h', 'i'),
        wid("italic"@) == (6nat, 'i', 't'), wid("omit"@) == (4nat, 'o', 'm'), wid("reverse"@) == (7nat, 'r', 'e'), wid("raw"@) == (3nat, 'r', 'a'),
        wid("strike"@) == (6nat, 's', 't'), wid("ul"@) == (2nat, 'u', 'l'), wid("underline"@) == (9nat, 'u', 'n'), wid("line-number"@) == (11nat, 'l', 'i'),
        wid("file"@) == (4nat, 'f', 'i'), wid("omit-code-fragment"@) == (18nat, 'o', 'm'), wid("syntax"@) == (6nat, 's', 'y'), wid("auto"@) == (4nat, 'a', 'u'),
{
    reveal_strlit("blink"); reveal_strlit("bold"); reveal_strlit("dim"); reveal_strlit("hidden"); reveal_strlit("italic");
    reveal_strlit("omit"); reveal_strlit("reverse"); reveal_strlit("raw"); reveal_strlit("strike"); reveal_strlit("ul");
    reveal_strlit("underline"); reveal_strlit("line-number"); reveal_strlit("file"); reveal_strlit("omit-code-fragment");
    reveal_strlit("syntax"); reveal_strlit("auto");
}

/// the loop invariant of parse_ansi_term_style after k words.  `fl` = (seen_foreground, seen_background,
/// foreground_is_auto, background_is_auto, is_omitted, is_raw, seen_omit, seen_raw, is_syntax_highlighted), `env` =
/// (default, true_color, git_config).  (Opaque, and with packed arguments: a predicate or lemma that takes the fifteen
/// values one by one makes the query of the thirteen-way branch about fifty times as expensive.)
#[verifier::opaque]
pub open spec fn ps_inv(st: ansi_term::Style, fl: (bool, bool, bool, bool, bool, bool, bool, bool, bool), w: Seq<Seq<char>>, k: int, env: (Option<Style>, bool, Option<&GitConfig>)) -> bool {
    let cw = colour_words(w, k);
    &&& 0 <= k <= w.len()
    &&& style_means_words(st, w, k, env.0, env.1, env.2)
    &&& fl.0 == (cw.len() >= 1) && fl.1 == (cw.len() >= 2)
    &&& fl.6 == has_word(w, k, "omit"@) && fl.4 == fl.6 && fl.7 == has_word(w, k, "raw"@) && fl.5 == fl.7
    &&& fl.2 == (cw.len() >= 1 && cw[0] == "auto"@)
    &&& fl.3 == (cw.len() >= 2 && cw[1] == "auto"@)
    &&& fl.8 == (cw.len() >= 1 && syntax_of(cw[0], env.0))
}
/// st1 is st0 with attribute number `k` switched on (0: none) and these colours (field by field: an equation between
/// whole structs is expensive in the exec context)
pub open spec fn at_upd(st0: ansi_term::Style, st1: ansi_term::Style, k: int, fg: Option<ansi_term::Color>, bg: Option<ansi_term::Color>) -> bool {
    &&& st1.foreground == fg && st1.background == bg
    &&& st1.is_blink == (st0.is_blink || k == 1) && st1.is_bold == (st0.is_bold || k == 2) && st1.is_dimmed == (st0.is_dimmed || k == 3)
    &&& st1.is_hidden == (st0.is_hidden || k == 4) && st1.is_italic == (st0.is_italic || k == 5) && st1.is_reverse == (st0.is_reverse || k == 6)
    &&& st1.is_strikethrough == (st0.is_strikethrough || k == 7) && st1.is_underline == (st0.is_underline || k == 8)
}
/// the word of branch number k of the code (1-8: the attribute with that number in `at_upd`, 9 omit, 10 raw, 11 the
/// three words that only mean something in hunk-header-style)
pub open spec fn attr_word_k(x: Seq<char>, k: int) -> bool {
    if k == 1 { x == "blink"@ } else if k == 2 { x == "bold"@ } else if k == 3 { x == "dim"@ } else if k == 4 { x == "hidden"@ }
    else if k == 5 { x == "italic"@ } else if k == 6 { x == "reverse"@ } else if k == 7 { x == "strike"@ }
    else if k == 8 { x == "ul"@ || x == "underline"@ } else if k == 9 { x == "omit"@ } else if k == 10 { x == "raw"@ }
    else { k == 11 && (x == "line-number"@ || x == "file"@ || x == "omit-code-fragment"@) }
}
/// the step of the invariant for an attribute word (that a word equal to one of the sixteen is none of the others is
/// needed only here)
pub proof fn lemma_step_attr(k: int, st0: ansi_term::Style, st1: ansi_term::Style, fl0: (bool, bool, bool, bool, bool, bool, bool, bool, bool), fl1: (bool, bool, bool, bool, bool, bool, bool, bool, bool), w: Seq<Seq<char>>, i: int, env: (Option<Style>, bool, Option<&GitConfig>))
    requires
        0 <= i < w.len(), 1 <= k <= 11,
        ps_inv(st0, fl0, w, i, env),
        attr_word_k(w[i], k),
        at_upd(st0, st1, if k <= 8 { k } else { 0 }, st0.foreground, st0.background),
        fl1 == (fl0.0, fl0.1, fl0.2, fl0.3, fl0.4 || k == 9, fl0.5 || k == 10, fl0.6 || k == 9, fl0.7 || k == 10, fl0.8),
    ensures
        ps_inv(st1, fl1, w, i + 1, env),
{
    reveal(ps_inv); lemma_words_revealed(); lemma_word_step(w, i);
    assert(is_attr_word(w[i]));
    assert(colour_words(w, i + 1) == colour_words(w, i));
}
/// ... for a word that fills the foreground slot (the three cases of the code)
pub proof fn lemma_step_fg(st0: ansi_term::Style, st1: ansi_term::Style, fl0: (bool, bool, bool, bool, bool, bool, bool, bool, bool), fl1: (bool, bool, bool, bool, bool, bool, bool, bool, bool), w: Seq<Seq<char>>, i: int, env: (Option<Style>, bool, Option<&GitConfig>))
    requires
        0 <= i < w.len(), !is_attr_word(w[i]), !fl0.0,
        ps_inv(st0, fl0, w, i, env),
        fl1.0 && fl1.1 == fl0.1 && fl1.3 == fl0.3 && fl1.4 == fl0.4 && fl1.5 == fl0.5 && fl1.6 == fl0.6 && fl1.7 == fl0.7,
        (   (w[i] == "syntax"@ && at_upd(st0, st1, 0, st0.foreground, st0.background) && fl1.2 == fl0.2 && fl1.8)
         || (w[i] != "syntax"@ && w[i] == "auto"@ && fl1.2 && at_upd(st0, st1, 0, (match env.0 { Some(d) => d.ansi_term_style.foreground, None => None }), st0.background)
              && fl1.8 == (match env.0 { Some(d) => d.is_syntax_highlighted, None => false }))
         || (w[i] != "syntax"@ && w[i] != "auto"@ && fl1.2 == fl0.2 && fl1.8 == fl0.8 && at_upd(st0, st1, 0, parse_color_spec(w[i], env.1, env.2), st0.background))),
    ensures
        ps_inv(st1, fl1, w, i + 1, env),
{
    reveal(ps_inv); lemma_words_revealed(); lemma_word_step(w, i);
    let cw0 = colour_words(w, i);
    let cw1 = colour_words(w, i + 1);
    assert(cw0.len() == 0);
    assert(cw1 == cw0.push(w[i]));
    assert(cw1.len() == 1 && cw1[0] == w[i]);
}
/// ... for a word that fills the background slot
pub proof fn lemma_step_bg(st0: ansi_term::Style, st1: ansi_term::Style, fl0: (bool, bool, bool, bool, bool, bool, bool, bool, bool), fl1: (bool, bool, bool, bool, bool, bool, bool, bool, bool), w: Seq<Seq<char>>, i: int, env: (Option<Style>, bool, Option<&GitConfig>))
    requires
        0 <= i < w.len(), !is_attr_word(w[i]), w[i] != "syntax"@, fl0.0, !fl0.1,
        ps_inv(st0, fl0, w, i, env),
        fl1.0 && fl1.1 && fl1.2 == fl0.2 && fl1.4 == fl0.4 && fl1.5 == fl0.5 && fl1.6 == fl0.6 && fl1.7 == fl0.7 && fl1.8 == fl0.8,
        (   (w[i] == "auto"@ && fl1.3 && at_upd(st0, st1, 0, st0.foreground, (match env.0 { Some(d) => d.ansi_term_style.background, None => None })))
         || (w[i] != "auto"@ && fl1.3 == fl0.3 && at_upd(st0, st1, 0, st0.foreground, parse_color_spec(w[i], env.1, env.2)))),
    ensures
        ps_inv(st1, fl1, w, i + 1, env),
{
    reveal(ps_inv); lemma_word_step(w, i);
    let cw0 = colour_words(w, i);
    let cw1 = colour_words(w, i + 1);
    assert(cw0.len() == 1);
    assert(cw1 == cw0.push(w[i]));
    assert(cw1.len() == 2 && cw1[0] == cw0[0] && cw1[1] == w[i]);
}
//@ define FL (seen_foreground, seen_background, foreground_is_auto, background_is_auto, is_omitted, is_raw, seen_omit, seen_raw, is_syntax_highlighted)
//@ define ENV (default, true_color, git_config)
//@ define STEPA proof { lemma_step_attr(
//@ define STEPB , st0, style, fl0, ${FL}, w, i, ${ENV}); took = true; res = (style, ${FL}); }

// The function is verified in three regions - the initial state, the loop body (one word), what follows the loop.
// NOT verified by this split: that the `for` loop hands the words of the iterator to the body one by one in order.

// (1) before the loop: nothing seen, a plain style
//@ region src/parse_style.rs parse_ansi_term_style
//@sig pub fn parse_ansi_term_style_initial_state(s: &str, default: Option<Style>, true_color: bool, git_config: Option<&GitConfig>) -> (r: (ansi_term::Style, (bool, bool, bool, bool, bool, bool, bool, bool, bool)))
//@from <<<^>>>
//@until <<<for word in s>>>
//@tail { proof { reveal(ps_inv); lemma_no_words(style_words_spec(s@)); } (style, ${FL}) }
//@| ensures ps_inv(r.0, r.1, style_words_spec(s@), 0, ${ENV}),  // @C12:before.the.first.word.the.style.is.plain
//@localdefault seen_omit: bool = false
//@localdefault seen_raw: bool = false

// (2) the loop body: one more word.  The same region is verified several times with different ghost instrumentation,
// because the solver's cost grows exponentially with the number of branches of the if-chain that carry a proof step
// in one query (2 steps: 3 s, 4 steps: > 60 s; the values of ten variables are merged where the branches join):
//  - attribute words, in two groups: `took ==> ps_inv(res, next word)`, where the ghost `took` is set in the branches
//    of the group and the ghost `res` is the value of (style, flags) at the end of the branch;
//  - the link: in every attribute branch `res` is what the variables hold when the body ends;
//  - colour words: ps_inv for the next word, for a word that is no attribute word.
// NOT verified: that a word which is an attribute word takes its attribute branch (the if-chain compares with each of
// the fourteen words before it reaches the colour slots).
//@ define MARK proof { took = true; res = (style, ${FL}); }
//@ region src/parse_style.rs parse_ansi_term_style
//@sig pub fn parse_ansi_term_style_one_attribute_word_a(word: &str, s: &str, mut style: ansi_term::Style, mut seen_foreground: bool, mut seen_background: bool, mut foreground_is_auto: bool, mut background_is_auto: bool, mut is_omitted: bool, mut is_raw: bool, mut seen_omit: bool, mut seen_raw: bool, mut is_syntax_highlighted: bool, default: Option<Style>, true_color: bool, git_config: Option<&GitConfig>, Ghost(w): Ghost<Seq<Seq<char>>>, Ghost(i): Ghost<int>) -> (r: (ansi_term::Style, (bool, bool, bool, bool, bool, bool, bool, bool, bool), Ghost<bool>, Ghost<(ansi_term::Style, (bool, bool, bool, bool, bool, bool, bool, bool, bool))>))
//@from <<<if word == "blink" {>>>
//@until <<<} if foreground_is_auto>>>
//@tail (style, ${FL}, Ghost(took), Ghost(res))
//@rewrite <<<default.and_then(|s| s.ansi_term_style.foreground)>>> => <<<verif_default_fg(default)>>>
//@rewrite <<<default.and_then(|s| s.ansi_term_style.background)>>> => <<<verif_default_bg(default)>>>
//@rewrite <<<default.map(|s| s.is_syntax_highlighted).unwrap_or(false)>>> => <<<verif_default_syntax(default)>>>
//@rewrite <<<fatal(format!( "Invalid style string: {s}. See the STYLES section of delta --help.", ));>>> => <<<verif_fatal();>>>
//@before <<<if word == "blink" {>>>| let ghost st0 = style; let ghost fl0 = ${FL}; let ghost mut took = false; let ghost mut res = (style, ${FL});
//@| requires 0 <= i < w.len(), word@ == w[i], ps_inv(style, ${FL}, w, i, ${ENV}),
//@| ensures r.2@ ==> ps_inv(r.3@.0, r.3@.1, w, i + 1, ${ENV}),  // @C12:blink.bold.dim.hidden.italic.omit.switch.on.exactly.their.attribute
//@before <<<} else if word == "bold" {>>>| ${STEPA} 1 ${STEPB}
//@before <<<} else if word == "dim" {>>>| ${STEPA} 2 ${STEPB}
//@before <<<} else if word == "hidden" {>>>| ${STEPA} 3 ${STEPB}
//@before <<<} else if word == "italic" {>>>| ${STEPA} 4 ${STEPB}
//@before <<<} else if word == "omit" {>>>| ${STEPA} 5 ${STEPB}
//@before <<<} else if word == "reverse" {>>>| ${STEPA} 9 ${STEPB}

//@ region src/parse_style.rs parse_ansi_term_style
//@sig pub fn parse_ansi_term_style_one_attribute_word_b(word: &str, s: &str, mut style: ansi_term::Style, mut seen_foreground: bool, mut seen_background: bool, mut foreground_is_auto: bool, mut background_is_auto: bool, mut is_omitted: bool, mut is_raw: bool, mut seen_omit: bool, mut seen_raw: bool, mut is_syntax_highlighted: bool, default: Option<Style>, true_color: bool, git_config: Option<&GitConfig>, Ghost(w): Ghost<Seq<Seq<char>>>, Ghost(i): Ghost<int>) -> (r: (ansi_term::Style, (bool, bool, bool, bool, bool, bool, bool, bool, bool), Ghost<bool>, Ghost<(ansi_term::Style, (bool, bool, bool, bool, bool, bool, bool, bool, bool))>))
//@from <<<if word == "blink" {>>>
//@until <<<} if foreground_is_auto>>>
//@tail (style, ${FL}, Ghost(took), Ghost(res))
//@rewrite <<<default.and_then(|s| s.ansi_term_style.foreground)>>> => <<<verif_default_fg(default)>>>
//@rewrite <<<default.and_then(|s| s.ansi_term_style.background)>>> => <<<verif_default_bg(default)>>>
//@rewrite <<<default.map(|s| s.is_syntax_highlighted).unwrap_or(false)>>> => <<<verif_default_syntax(default)>>>
//@rewrite <<<fatal(format!( "Invalid style string: {s}. See the STYLES section of delta --help.", ));>>> => <<<verif_fatal();>>>
//@before <<<if word == "blink" {>>>| let ghost st0 = style; let ghost fl0 = ${FL}; let ghost mut took = false; let ghost mut res = (style, ${FL});
//@| requires 0 <= i < w.len(), word@ == w[i], ps_inv(style, ${FL}, w, i, ${ENV}),
//@| ensures r.2@ ==> ps_inv(r.3@.0, r.3@.1, w, i + 1, ${ENV}),  // @C12:reverse.raw.strike.ul.underline.switch.on.exactly.their.attribute.the.hunk.header.words.nothing
//@before <<<} else if word == "raw" {>>>| ${STEPA} 6 ${STEPB}
//@before <<<} else if word == "strike" {>>>| ${STEPA} 10 ${STEPB}
//@before <<<} else if word == "ul" || word == "underline" {>>>| ${STEPA} 7 ${STEPB}
//@before <<<} else if word == "line-number" || word == "file" || word == "omit-code-fragment" {>>>| ${STEPA} 8 ${STEPB}
//@before <<<} else if !seen_foreground {>>>| ${STEPA} 11 ${STEPB}

//@ region src/parse_style.rs parse_ansi_term_style
//@sig pub fn parse_ansi_term_style_one_attribute_word_link(word: &str, s: &str, mut style: ansi_term::Style, mut seen_foreground: bool, mut seen_background: bool, mut foreground_is_auto: bool, mut background_is_auto: bool, mut is_omitted: bool, mut is_raw: bool, mut seen_omit: bool, mut seen_raw: bool, mut is_syntax_highlighted: bool, default: Option<Style>, true_color: bool, git_config: Option<&GitConfig>, Ghost(w): Ghost<Seq<Seq<char>>>, Ghost(i): Ghost<int>) -> (r: (ansi_term::Style, (bool, bool, bool, bool, bool, bool, bool, bool, bool), Ghost<bool>, Ghost<(ansi_term::Style, (bool, bool, bool, bool, bool, bool, bool, bool, bool))>))
//@from <<<if word == "blink" {>>>
//@until <<<} if foreground_is_auto>>>
//@tail (style, ${FL}, Ghost(took), Ghost(res))
//@rewrite <<<default.and_then(|s| s.ansi_term_style.foreground)>>> => <<<verif_default_fg(default)>>>
//@rewrite <<<default.and_then(|s| s.ansi_term_style.background)>>> => <<<verif_default_bg(default)>>>
//@rewrite <<<default.map(|s| s.is_syntax_highlighted).unwrap_or(false)>>> => <<<verif_default_syntax(default)>>>
//@rewrite <<<fatal(format!( "Invalid style string: {s}. See the STYLES section of delta --help.", ));>>> => <<<verif_fatal();>>>
//@before <<<if word == "blink" {>>>| let ghost st0 = style; let ghost fl0 = ${FL}; let ghost mut took = false; let ghost mut res = (style, ${FL});
//@| requires 0 <= i < w.len(), word@ == w[i], ps_inv(style, ${FL}, w, i, ${ENV}),
//@| ensures r.2@ ==> r.0 == r.3@.0 && r.1 == r.3@.1,  // @C12:what.the.invariant.is.stated.for.is.what.the.variables.hold.when.the.body.ends
//@before <<<} else if word == "bold" {>>>| ${MARK}
//@before <<<} else if word == "dim" {>>>| ${MARK}
//@before <<<} else if word == "hidden" {>>>| ${MARK}
//@before <<<} else if word == "italic" {>>>| ${MARK}
//@before <<<} else if word == "omit" {>>>| ${MARK}
//@before <<<} else if word == "reverse" {>>>| ${MARK}
//@before <<<} else if word == "raw" {>>>| ${MARK}
//@before <<<} else if word == "strike" {>>>| ${MARK}
//@before <<<} else if word == "ul" || word == "underline" {>>>| ${MARK}
//@before <<<} else if word == "line-number" || word == "file" || word == "omit-code-fragment" {>>>| ${MARK}
//@before <<<} else if !seen_foreground {>>>| ${MARK}

//@ region src/parse_style.rs parse_ansi_term_style
//@sig pub fn parse_ansi_term_style_one_colour_word(word: &str, s: &str, mut style: ansi_term::Style, mut seen_foreground: bool, mut seen_background: bool, mut foreground_is_auto: bool, mut background_is_auto: bool, mut is_omitted: bool, mut is_raw: bool, mut seen_omit: bool, mut seen_raw: bool, mut is_syntax_highlighted: bool, default: Option<Style>, true_color: bool, git_config: Option<&GitConfig>, Ghost(w): Ghost<Seq<Seq<char>>>, Ghost(i): Ghost<int>) -> (r: (ansi_term::Style, (bool, bool, bool, bool, bool, bool, bool, bool, bool)))
//@from <<<if word == "blink" {>>>
//@until <<<} if foreground_is_auto>>>
//@tail (style, ${FL})
//@rewrite <<<default.and_then(|s| s.ansi_term_style.foreground)>>> => <<<verif_default_fg(default)>>>
//@rewrite <<<default.and_then(|s| s.ansi_term_style.background)>>> => <<<verif_default_bg(default)>>>
//@rewrite <<<default.map(|s| s.is_syntax_highlighted).unwrap_or(false)>>> => <<<verif_default_syntax(default)>>>
//@rewrite <<<fatal(format!( "Invalid style string: {s}. See the STYLES section of delta --help.", ));>>> => <<<verif_fatal();>>>
//@before <<<if word == "blink" {>>>| let ghost st0 = style; let ghost fl0 = ${FL};
//@| requires 0 <= i < w.len(), word@ == w[i], ps_inv(style, ${FL}, w, i, ${ENV}), !is_attr_word(word@),
//@| ensures ps_inv(r.0, r.1, w, i + 1, ${ENV}),  // @C12:a.colour.word.fills.the.next.colour.slot.foreground.first.and.nothing.else.a.third.colour.is.refused
//@after <<<seen_foreground = true;>>>| proof { lemma_step_fg(st0, style, fl0, ${FL}, w, i, ${ENV}); }
//@after <<<seen_background = true;>>>| proof { lemma_step_bg(st0, style, fl0, ${FL}, w, i, ${ENV}); }

// (3) after the loop: omit / raw are taken from the default style only for `auto auto`
//@ region src/parse_style.rs parse_ansi_term_style
//@sig pub fn parse_ansi_term_style_after_the_words(s: &str, style: ansi_term::Style, seen_foreground: bool, seen_background: bool, foreground_is_auto: bool, background_is_auto: bool, mut is_omitted: bool, mut is_raw: bool, seen_omit: bool, seen_raw: bool, is_syntax_highlighted: bool, default: Option<Style>, true_color: bool, git_config: Option<&GitConfig>) -> (r: (ansi_term::Style, bool, bool, bool))
//@from <<<if foreground_is_auto>>>
//@to <<<(style, is_omitted, is_raw, is_syntax_highlighted)>>>
//@| requires ps_inv(style, ${FL}, style_words_spec(s@), style_words_spec(s@).len() as int, ${ENV}),
//@| ensures ({ let w = style_words_spec(s@); let cw = colour_words(w, w.len() as int);
//@|     &&& style_means_words(r.0, w, w.len() as int, default, true_color, git_config)  // @C12:a.style.string.gives.exactly.the.attributes.it.names.the.first.colour.as.foreground.the.second.as.background
//@|     &&& (has_word(w, w.len() as int, "omit"@) ==> r.1) && (has_word(w, w.len() as int, "raw"@) ==> r.2)  // @C12:omit.and.raw.are.honoured.wherever.they.stand
//@|     &&& (!both_auto(cw) ==> r.1 == has_word(w, w.len() as int, "omit"@) && r.2 == has_word(w, w.len() as int, "raw"@))  // @C12:omit.and.raw.come.from.the.default.only.for.auto.auto
//@|     &&& r.3 == (cw.len() >= 1 && syntax_of(cw[0], default))  // @C12:syntax.highlighting.is.asked.for.by.the.foreground.word.only
//@|     &&& (both_auto(cw) ==> r.1 == (has_word(w, w.len() as int, "omit"@) || (default matches Some(d) && d.is_omitted)) && r.2 == (has_word(w, w.len() as int, "raw"@) || (default matches Some(d) && d.is_raw)))  // @C12:auto.auto.takes.omit.and.raw.from.the.default.style.and.from.nothing.when.there.is.none
//@| }),
//@before <<<if foreground_is_auto>>>| proof { reveal(ps_inv); }
//@rewrite <<<|s| s.is_omitted>>> => <<<|s: Style| -> (b: bool) ensures b == s.is_omitted { s.is_omitted }>>>
//@rewrite <<<|s| s.is_raw>>> => <<<|s: Style| -> (b: bool) ensures b == s.is_raw { s.is_raw }>>>

// ---------------------------------------------------------------- _extract_special_decoration_attributes: which words are taken out of a style string
/// mirror of the bitflags type DecorationAttributes (EMPTY 0, BOX 1, OVERLINE 2, UNDERLINE 4), opaque but for its bits
#[verifier::external_body]
pub struct DecorationAttributes { _p: u8 }
impl DecorationAttributes {
    pub uninterp spec fn bits(&self) -> u8;
}
/// (R3) `DecorationAttributes::EMPTY` and `attributes |= DecorationAttributes::X` (bitflags!: a macro-generated type)
#[verifier::external_body]
pub fn verif_no_decoration() -> (r: DecorationAttributes) ensures r.bits() == 0 { unimplemented!() }
#[verifier::external_body]
pub fn verif_add_decoration(a: &mut DecorationAttributes, bit: u8) ensures final(a).bits() == old(a).bits() | bit { unimplemented!() }
/// (R3) the word iterator `style_string.split_whitespace().map(|word| word.trim_matches(quotes))`; uninterpreted
pub uninterp spec fn words_trimmed_spec(s: Seq<char>) -> Seq<Seq<char>>;
#[verifier::external_body]
pub fn verif_words_trimmed<'a>(s: &'a str) -> (r: Vec<&'a str>)
    ensures r@.len() == words_trimmed_spec(s@).len(), forall|j: int| 0 <= j < r@.len() ==> (#[trigger] r@[j])@ == words_trimmed_spec(s@)[j],
{ unimplemented!() }
pub uninterp spec fn lower_spec(s: Seq<char>) -> Seq<char>;
pub assume_specification[ str::to_lowercase ](s: &str) -> (r: String)
    ensures r@ == lower_spec(s@);
/// (R3) `new_style_string.join(" ")`; uninterpreted function of the words
pub uninterp spec fn join_spec(words: Seq<Seq<char>>) -> Seq<char>;
#[verifier::external_body]
pub fn verif_join_with_space(v: &Vec<&str>) -> (r: String)
    ensures r@ == join_spec(v@.map_values(|x: &str| x@)),
{ unimplemented!() }

/// the decoration a word asks for (0: the word is not a decoration word); `ol` / `ul` only in a decoration style string
pub open spec fn deco_bit(x: Seq<char>, is_deco: bool) -> u8 {
    if x == "box"@ { 1u8 } else if x == "overline"@ || (is_deco && x == "ol"@) { 2u8 } else if x == "underline"@ || (is_deco && x == "ul"@) { 4u8 } else { 0u8 }
}
/// a word that is taken out of the style string: a decoration word, or `none` / `plain`
pub open spec fn taken_out(x: Seq<char>, is_deco: bool) -> bool { deco_bit(x, is_deco) != 0 || x == "none"@ || x == "plain"@ }
/// the words that are left for the style parser, in order
pub open spec fn kept_words(w: Seq<Seq<char>>, k: int, is_deco: bool) -> Seq<Seq<char>>
    decreases k
{
    if k <= 0 || k > w.len() { Seq::empty() } else {
        let p = kept_words(w, k - 1, is_deco);
        if taken_out(w[k - 1], is_deco) { p } else { p.push(w[k - 1]) }
    }
}
pub open spec fn deco_bits(w: Seq<Seq<char>>, k: int, is_deco: bool) -> u8
    decreases k
{
    if k <= 0 || k > w.len() { 0u8 } else if deco_bit(w[k - 1], is_deco) == 0 { deco_bits(w, k - 1, is_deco) } else { deco_bits(w, k - 1, is_deco) | deco_bit(w[k - 1], is_deco) }
}
//@ fn src/parse_style.rs _extract_special_decoration_attributes
//@| ensures ({ let w = words_trimmed_spec(lower_spec(style_string@));
//@|     &&& r.1@ == join_spec(kept_words(w, w.len() as int, is_decoration_style_string))  // @C12:exactly.the.decoration.words.and.none.plain.are.taken.out.of.a.style.string.every.other.word.reaches.the.style.parser.in.order
//@|     &&& r.0.bits() == deco_bits(w, w.len() as int, is_decoration_style_string)  // @C12:the.decoration.is.the.union.of.the.decoration.words
//@| }),
//@rewrite <<<DecorationAttributes::EMPTY>>> => <<<verif_no_decoration()>>>
//@rewrite <<<for token in style_string .split_whitespace() .map(|word| word.trim_matches(|c| c == '"' || c == '\''))>>> => <<<for token in it: verif_words_trimmed(&style_string)>>>
//@rewrite <<<"box" => attributes |= DecorationAttributes::BOX,>>> => <<<token if token == "box" => { verif_add_decoration(&mut attributes, 1u8) }>>>
//@rewrite <<<attributes |= DecorationAttributes::OVERLINE>>> => <<<verif_add_decoration(&mut attributes, 2u8)>>>
//@rewrite <<<attributes |= DecorationAttributes::UNDERLINE>>> => <<<verif_add_decoration(&mut attributes, 4u8)>>>
//@rewrite <<<new_style_string.join(" ")>>> => <<<verif_join_with_space(&new_style_string)>>>
//@before <<<for token in it: verif_words_trimmed(&style_string)>>>| let ghost w = words_trimmed_spec(style_string@);
//@loop 1| invariant it.seq().len() == w.len(), forall|j: int| 0 <= j < w.len() ==> (#[trigger] it.seq()[j])@ == w[j], w == words_trimmed_spec(style_string@),
//@loop 1|     new_style_string@.map_values(|x: &str| x@) =~= kept_words(w, it.index@ as int, is_decoration_style_string),
//@loop 1|     attributes.bits() == deco_bits(w, it.index@ as int, is_decoration_style_string),
//@before <<<match token {>>>| proof { assert(token@ == w[it.index@ as int]); reveal_with_fuel(kept_words, 2); reveal_with_fuel(deco_bits, 2); lemma_deco_words_revealed(); }

pub proof fn lemma_deco_words_revealed()
    ensures wid("box"@) == (3nat, 'b', 'o'), wid("overline"@) == (8nat, 'o', 'v'), wid("ol"@) == (2nat, 'o', 'l'), wid("underline"@) == (9nat, 'u', 'n'),
            wid("ul"@) == (2nat, 'u', 'l'), wid("none"@) == (4nat, 'n', 'o'), wid("plain"@) == (5nat, 'p', 'l'),
{
    reveal_strlit("box"); reveal_strlit("overline"); reveal_strlit("ol"); reveal_strlit("underline"); reveal_strlit("ul"); reveal_strlit("none"); reveal_strlit("plain");
}

} // verus!
fn main() {}
