//@ include prelude/header.rs
//@ unit U26 ansi/iterator.rs AnsiElementIterator: the elements partition the line - each starts where the previous one ended, text ranges end where the text ended (C08, C09), no overflow, the scan terminates (C03)
verus! {
//@ include prelude/base.rs
//@ include prelude/std_assumed.rs
//@ include prelude/ansi_term.rs
//@ broadcast vax::vax_group

/// `core::str::Bytes` (R: opaque): only how many bytes are left matters
#[verifier::external_body]
pub struct Bytes<'a> { _p: std::marker::PhantomData<&'a ()> }
impl<'a> Bytes<'a> {
    pub uninterp spec fn left(&self) -> nat;
    #[verifier::external_body]
    pub fn next(&mut self) -> (r: Option<u8>)
        ensures r is Some ==> old(self).left() > 0 && final(self).left() == old(self).left() - 1,
                r is None ==> old(self).left() == 0 && final(self).left() == 0,
    { unimplemented!() }
}
/// the escape-sequence parser (crate anstyle-parse; opaque). Ghost: how many bytes it has consumed and where the
/// most recently reported text byte ended. ASSUMED contract of `advance` (one byte): it reports at most one character
/// of text (1..4 bytes, ending at this byte) and/or one finished non-text element to the performer.
pub mod anstyle_parse {
    use vstd::prelude::*;
    use crate::*;
    #[verifier::external_body]
    pub struct Parser { _p: u8 }
    impl Parser {
        pub uninterp spec fn consumed(&self) -> nat;
        pub uninterp spec fn text_end(&self) -> nat;
        /// text bytes reported so far (never more than the bytes consumed)
        pub uninterp spec fn reported(&self) -> nat;
        #[verifier::external_body]
        pub fn advance(&mut self, performer: &mut Performer, byte: u8)
            requires old(performer).element is None, old(performer).text_length == 0,
            ensures final(self).consumed() == old(self).consumed() + 1,
                    final(performer).text_length <= 4,
                    final(self).reported() == old(self).reported() + final(performer).text_length, final(self).reported() <= final(self).consumed(),
                    final(performer).text_length > 0 ==> final(self).text_end() == final(self).consumed(),
                    final(performer).text_length == 0 ==> final(self).text_end() == old(self).text_end(),
                    final(performer).element matches Some(e) ==> !(e is Text),
        { unimplemented!() }
    }
}
//@ type src/ansi/iterator.rs Element derives=Clone,PartialEq
//@ type src/ansi/iterator.rs Performer noderive
//@ type src/ansi/iterator.rs AnsiElementIterator noderive
/// ASSUMED: `#[derive(Default)]` gives `None` and `0`
impl Default for Performer {
    #[verifier::external_body]
    fn default() -> (r: Self) ensures r.element is None, r.text_length == 0 { unimplemented!() }
}
pub open spec fn el_range(e: Element) -> (usize, usize) {
    match e { Element::Sgr(_, a, b) => (a, b), Element::Csi(a, b) => (a, b), Element::Esc(a, b) => (a, b), Element::Osc(a, b) => (a, b), Element::Text(a, b) => (a, b) }
}
pub open spec fn same_kind(e: Element, f: Element) -> bool {
    match (e, f) {
        (Element::Sgr(s, _, _), Element::Sgr(t, _, _)) => s == t,
        (Element::Csi(_, _), Element::Csi(_, _)) => true, (Element::Esc(_, _), Element::Esc(_, _)) => true,
        (Element::Osc(_, _), Element::Osc(_, _)) => true, (Element::Text(_, _), Element::Text(_, _)) => true,
        _ => false,
    }
}
impl Element {
    //@ fn src/ansi/iterator.rs Element::set_range
    //@| ensures el_range(*final(self)) == (start, end), same_kind(*final(self), *old(self)),  // @C08,C09:set_range.changes.the.range.only
}
/// representation invariant of the iterator between two calls of `next`
pub open spec fn it_wf(it: &AnsiElementIterator) -> bool {
    &&& it.start <= it.pos && it.text_end <= it.pos
    &&& it.pos == it.machine.consumed() && it.text_end == it.machine.text_end()
    &&& it.pos + it.bytes.left() <= usize::MAX
    &&& (it.text_length > 0 ==> it.start < it.text_end)
    &&& it.text_length <= it.machine.reported() && it.machine.reported() <= it.machine.consumed()
    &&& (it.element matches Some(e) ==> !(e is Text))
}
impl<'a> AnsiElementIterator<'a> {
    //@ fn src/ansi/iterator.rs AnsiElementIterator::advance_vte
    //@| requires it_wf(old(self)), old(self).element is None, old(self).bytes.left() + old(self).pos < usize::MAX,
    //@| ensures final(self).pos == old(self).pos + 1, final(self).start == old(self).start, final(self).bytes == old(self).bytes,  // @C08,C09:advance_vte.consumes.one.byte
    //@|         it_wf(final(self)),
    //@|         final(self).text_length >= old(self).text_length,
}

/// C08/C09: what one call of `next` hands out
pub open spec fn next_ok(o: &AnsiElementIterator, f: &AnsiElementIterator, r: Option<Element>) -> bool {
    match r {
        // a text element: starts where the previous element ended, ends just after the most recent text byte,
        // or - the last element of the line - at the end of the input
        Some(Element::Text(a, b)) => a == o.start && a < b
            && ((b == f.start && b == f.machine.text_end() && f.element is Some) || (b == f.pos && f.bytes.left() == 0 && f.element is None)),
        // any other element: starts where the previous element ended and ends at the byte just consumed
        Some(e) => el_range(e).0 == o.start && el_range(e).1 == f.start && f.start == f.pos && o.start <= f.start,
        // the end: every byte has been consumed and no text is pending
        None => f.bytes.left() == 0 && f.text_length == 0 && f.element is None,
    }
}
impl<'a> AnsiElementIterator<'a> {
    //@ fn src/ansi/iterator.rs AnsiElementIterator@Iterator::next vis=keep
    //@| requires it_wf(old(self)),
    //@| ensures it_wf(final(self)), next_ok(old(self), final(self), r),  // @C08,C09:ansi.elements.are.contiguous.and.a.text.element.ends.where.the.text.ended
    //@|         final(self).pos + final(self).bytes.left() == old(self).pos + old(self).bytes.left(),
    //@loop 1| invariant it_wf(self), self.start == old(self).start, self.pos + self.bytes.left() == old(self).pos + old(self).bytes.left(), self.text_length >= old(self).text_length,
    //@loop 1| ensures self.element is None ==> self.bytes.left() == 0,
    //@loop 1| decreases self.bytes.left(),
}

} // verus!
fn main() {}
