//@ include prelude/header.rs
//@ unit U32 edits.rs infer_edits: every removed and added line is emitted exactly once and in order, pairs never cross and respect the distance limits, unpaired lines carry no emphasis (C06, C01), indices in range (C03)
verus! {
//@ include prelude/base.rs
//@ include prelude/std_assumed.rs
//@ shims align

#[verifier::external_body]
pub struct Regex { _p: u8 }
/// `tokenize` (regex matches and single graphemes, after an initial empty token); uninterpreted
pub uninterp spec fn tokens_spec(line: Seq<char>, regex: &Regex) -> Seq<Seq<char>>;
pub open spec fn strs(v: Seq<&str>) -> Seq<Seq<char>> { v.map_values(|s: &str| s@) }
//@ stub src/edits.rs tokenize
//@| ensures strs(r@) == tokens_spec(line@, regex),
/// align::Alignment, reduced to the two token sequences it was built from
#[verifier::external_body]
pub struct Alignment<'a> { _p: std::marker::PhantomData<&'a ()> }
impl<'a> Alignment<'a> {
    pub uninterp spec fn toks(&self) -> (Seq<Seq<char>>, Seq<Seq<char>>);
    #[verifier::external_body]
    pub fn new(x: Vec<&'a str>, y: Vec<&'a str>) -> (r: Alignment<'a>) ensures r.toks() == (strs(x@), strs(y@)) { unimplemented!() }
}
/// the text of an annotated line: its sections one after the other
pub open spec fn cat<E>(s: Seq<(E, &str)>) -> Seq<char>
    decreases s.len()
{
    if s.len() == 0 { Seq::empty() } else { cat(s.drop_last()) + s.last().1@ }
}
/// the normalised distance annotate computes from the two token sequences; uninterpreted (K01: a number from 0 to 1)
pub uninterp spec fn dist_of_tokens(x: Seq<Seq<char>>, y: Seq<Seq<char>>) -> f64;
// ASSUMED contract of annotate (its doc comment: "their concatenation equals the line"; closures over &mut offsets: out of reach)
//@ stub src/edits.rs annotate
//@| ensures cat(r.0@) == minus_line@, cat(r.1@) == plus_line@, r.2 == dist_of_tokens(alignment.toks().0, alignment.toks().1),
// ASSUMED: `line.trim_end()` is a prefix of the line
//@ stub src/edits.rs get_contents_before_trailing_whitespace
//@| ensures r matches Some(c) ==> is_prefix(c@, line@),

/// (R3) `distance <= limit` on f64 (Verus has no floating point arithmetic)
pub uninterp spec fn le_spec(a: f64, b: f64) -> bool;
#[verifier::external_body]
pub fn verif_le(a: f64, b: f64) -> (r: bool) ensures r == le_spec(a, b) { unimplemented!() }
/// (R10) `&v[a..]` / `&v[a..b]` on a Vec in a `for` header; the range must lie inside the vector (an obligation here)
#[verifier::external_body]
pub fn verif_slice_from<'s, T>(v: &'s Vec<T>, a: usize) -> (r: &'s [T])
    requires a <= v@.len(),  // @C03:infer_edits.slice.start.inside.the.vector
    ensures r@ == v@.subrange(a as int, v@.len() as int),
{ unimplemented!() }
#[verifier::external_body]
pub fn verif_slice<'s, T>(v: &'s Vec<T>, a: usize, b: usize) -> (r: &'s [T])
    requires a <= b <= v@.len(),  // @C03:infer_edits.slice.range.inside.the.vector
    ensures r@ == v@.subrange(a as int, b as int),
{ unimplemented!() }
/// (R3) `&line[content.len()..]` where `content` is a prefix of `line`: the rest of the line
#[verifier::external_body]
pub fn verif_str_after_prefix<'s>(line: &'s str, content: &str) -> (r: &'s str)
    requires is_prefix(content@, line@),  // @C03:infer_edits.rest.of.the.line.starts.at.the.end.of.a.prefix
    ensures content@ + r@ == line@,
{ unimplemented!() }

// ---------------------------------------------------------------- what the line alignment must look like
pub type Al = Seq<(Option<usize>, Option<usize>)>;
/// number of removed / added lines listed so far
pub open spec fn al_m(a: Al) -> int decreases a.len() { if a.len() == 0 { 0 } else { al_m(a.drop_last()) + (if a.last().0 is Some { 1int } else { 0 }) } }
pub open spec fn al_p(a: Al) -> int decreases a.len() { if a.len() == 0 { 0 } else { al_p(a.drop_last()) + (if a.last().1 is Some { 1int } else { 0 }) } }
/// an entry names the next removed line and/or the next added line, never nothing
pub open spec fn entry_ok(e: (Option<usize>, Option<usize>), m: int, p: int) -> bool {
    match e {
        (Some(i), Some(j)) => i == m && j == p,
        (Some(i), None) => i == m,
        (None, Some(j)) => j == p,
        (None, None) => false,
    }
}
/// C06/C01: the removed lines 0, 1, 2, .. and the added lines 0, 1, 2, .. each appear exactly once and in order - so pairs never cross
pub open spec fn al_wf(a: Al) -> bool decreases a.len() { a.len() == 0 || (al_wf(a.drop_last()) && entry_ok(a.last(), al_m(a.drop_last()), al_p(a.drop_last()))) }
pub proof fn lemma_al_push(a: Al, e: (Option<usize>, Option<usize>))
    ensures
        al_m(a.push(e)) == al_m(a) + (if e.0 is Some { 1int } else { 0 }),
        al_p(a.push(e)) == al_p(a) + (if e.1 is Some { 1int } else { 0 }),
        al_wf(a.push(e)) == (al_wf(a) && entry_ok(e, al_m(a), al_p(a))),
{
    assert(a.push(e).drop_last() =~= a);
}
/// C06: a pair is made only within the distance limits
pub open spec fn pair_accepted(d: f64, max: f64, naive: f64, equal_counts: bool) -> bool { (equal_counts && le_spec(d, naive)) || le_spec(d, max) }
pub open spec fn pairs_ok(a: Al, ml: Seq<&str>, pl: Seq<&str>, regex: &Regex, max: f64, naive: f64) -> bool {
    forall|k: int| 0 <= k < a.len() ==> ((#[trigger] a[k]) matches (Some(i), Some(j)) ==> i < ml.len() && j < pl.len()
        && pair_accepted(dist_of_tokens(tokens_spec(ml[i as int]@, regex), tokens_spec(pl[j as int]@, regex)), max, naive, ml.len() == pl.len()))
}
/// C01: the annotated lines spell the lines
pub open spec fn lossless<E>(r: Seq<Vec<(E, &str)>>, lines: Seq<&str>) -> bool {
    r.len() <= lines.len() && forall|i: int| 0 <= i < r.len() ==> cat((#[trigger] r[i])@) == lines[i]@
}
/// C06: a line without partner carries only its own no-op tag
pub open spec fn all_tagged<E>(s: Seq<(E, &str)>, t: E) -> bool { forall|k: int| 0 <= k < s.len() ==> (#[trigger] s[k]).0 == t }
pub open spec fn unpaired_plain<E>(a: Al, r0: Seq<Vec<(E, &str)>>, r1: Seq<Vec<(E, &str)>>, nd: Seq<E>, ni: Seq<E>) -> bool {
    forall|k: int| 0 <= k < a.len() ==> (match #[trigger] a[k] {
        (Some(i), None) => i < r0.len() && i < nd.len() && all_tagged(r0[i as int]@, nd[i as int]),
        (None, Some(j)) => j < r1.len() && j < ni.len() && all_tagged(r1[j as int]@, ni[j as int]),
        _ => true,
    })
}
pub proof fn lemma_cat1<E>(e: (E, &str))
    ensures cat(seq![e]) == e.1@,
{
    assert(seq![e].drop_last() =~= Seq::<(E, &str)>::empty());
    assert(cat(Seq::<(E, &str)>::empty()) =~= Seq::<char>::empty());
    assert(seq![e].last() == e);
    assert(cat(seq![e]) =~= e.1@);
}
pub proof fn lemma_cat2<E>(e1: (E, &str), e2: (E, &str))
    ensures cat(seq![e1, e2]) == e1.1@ + e2.1@,
{
    assert(seq![e1, e2].drop_last() =~= seq![e1]);
    lemma_cat1(e1);
}

/// a slice iterator hands out references to the elements
pub open spec fn refs_of(s: Seq<&&str>, v: Seq<&str>) -> bool { s.len() == v.len() && forall|j: int| 0 <= j < s.len() ==> *(#[trigger] s[j]) == v[j] }
/// the loop invariant of infer_edits: `mi` removed and `pi` added lines have been emitted (packed: see U31)
pub open spec fn ie_inv<E>(am: Seq<Vec<(E, &str)>>, ap: Seq<Vec<(E, &str)>>, a: Al, mi: int, pi: int, ml: Seq<&str>, pl: Seq<&str>, nd: Seq<E>, ni: Seq<E>, regex: &Regex, lim: (f64, f64)) -> bool {
    &&& 0 <= mi <= ml.len() && 0 <= pi <= pl.len() && nd.len() == ml.len() && ni.len() == pl.len()
    &&& am.len() == mi && ap.len() == pi
    &&& al_wf(a) && al_m(a) == mi && al_p(a) == pi
    &&& pairs_ok(a, ml, pl, regex, lim.0, lim.1)
    &&& lossless(am, ml) && lossless(ap, pl)
    &&& unpaired_plain(a, am, ap, nd, ni)
}
pub proof fn lemma_push_unpaired_plus<E>(am: Seq<Vec<(E, &str)>>, ap: Seq<Vec<(E, &str)>>, a: Al, mi: int, pi: int, ml: Seq<&str>, pl: Seq<&str>, nd: Seq<E>, ni: Seq<E>, regex: &Regex, lim: (f64, f64), v: Vec<(E, &str)>)
    requires ie_inv(am, ap, a, mi, pi, ml, pl, nd, ni, regex, lim), pi <= usize::MAX, pi < pl.len(), cat(v@) == pl[pi]@, all_tagged(v@, ni[pi]),
    ensures ie_inv(am, ap.push(v), a.push((None, Some(pi as usize))), mi, pi + 1, ml, pl, nd, ni, regex, lim),
{
    let a2 = a.push((None::<usize>, Some(pi as usize)));
    let ap2 = ap.push(v);
    lemma_al_push(a, (None::<usize>, Some(pi as usize)));
    assert forall|k: int| 0 <= k < a2.len() implies (match #[trigger] a2[k] {
        (Some(i), None) => i < am.len() && i < nd.len() && all_tagged(am[i as int]@, nd[i as int]),
        (None, Some(j)) => j < ap2.len() && j < ni.len() && all_tagged(ap2[j as int]@, ni[j as int]),
        _ => true,
    }) by { if k < a.len() { assert(a2[k] == a[k]); } }
    assert forall|k: int| 0 <= k < a2.len() implies ((#[trigger] a2[k]) matches (Some(i), Some(j)) ==> i < ml.len() && j < pl.len()
        && pair_accepted(dist_of_tokens(tokens_spec(ml[i as int]@, regex), tokens_spec(pl[j as int]@, regex)), lim.0, lim.1, ml.len() == pl.len())) by { if k < a.len() { assert(a2[k] == a[k]); } }
    assert forall|i: int| 0 <= i < ap2.len() implies cat((#[trigger] ap2[i])@) == pl[i]@ by { if i < ap.len() { assert(ap2[i] == ap[i]); } }
}
pub proof fn lemma_push_unpaired_minus<E>(am: Seq<Vec<(E, &str)>>, ap: Seq<Vec<(E, &str)>>, a: Al, mi: int, pi: int, ml: Seq<&str>, pl: Seq<&str>, nd: Seq<E>, ni: Seq<E>, regex: &Regex, lim: (f64, f64), v: Vec<(E, &str)>)
    requires ie_inv(am, ap, a, mi, pi, ml, pl, nd, ni, regex, lim), mi <= usize::MAX, mi < ml.len(), cat(v@) == ml[mi]@, all_tagged(v@, nd[mi]),
    ensures ie_inv(am.push(v), ap, a.push((Some(mi as usize), None)), mi + 1, pi, ml, pl, nd, ni, regex, lim),
{
    let a2 = a.push((Some(mi as usize), None::<usize>));
    let am2 = am.push(v);
    lemma_al_push(a, (Some(mi as usize), None::<usize>));
    assert forall|k: int| 0 <= k < a2.len() implies (match #[trigger] a2[k] {
        (Some(i), None) => i < am2.len() && i < nd.len() && all_tagged(am2[i as int]@, nd[i as int]),
        (None, Some(j)) => j < ap.len() && j < ni.len() && all_tagged(ap[j as int]@, ni[j as int]),
        _ => true,
    }) by { if k < a.len() { assert(a2[k] == a[k]); } }
    assert forall|k: int| 0 <= k < a2.len() implies ((#[trigger] a2[k]) matches (Some(i), Some(j)) ==> i < ml.len() && j < pl.len()
        && pair_accepted(dist_of_tokens(tokens_spec(ml[i as int]@, regex), tokens_spec(pl[j as int]@, regex)), lim.0, lim.1, ml.len() == pl.len())) by { if k < a.len() { assert(a2[k] == a[k]); } }
    assert forall|i: int| 0 <= i < am2.len() implies cat((#[trigger] am2[i])@) == ml[i]@ by { if i < am.len() { assert(am2[i] == am[i]); } }
}
pub proof fn lemma_push_pair<E>(am: Seq<Vec<(E, &str)>>, ap: Seq<Vec<(E, &str)>>, a: Al, mi: int, pi: int, ml: Seq<&str>, pl: Seq<&str>, nd: Seq<E>, ni: Seq<E>, regex: &Regex, lim: (f64, f64), vm: Vec<(E, &str)>, vp: Vec<(E, &str)>)
    requires ie_inv(am, ap, a, mi, pi, ml, pl, nd, ni, regex, lim), mi <= usize::MAX, pi <= usize::MAX, mi < ml.len(), pi < pl.len(), cat(vm@) == ml[mi]@, cat(vp@) == pl[pi]@,
        pair_accepted(dist_of_tokens(tokens_spec(ml[mi]@, regex), tokens_spec(pl[pi]@, regex)), lim.0, lim.1, ml.len() == pl.len()),
    ensures ie_inv(am.push(vm), ap.push(vp), a.push((Some(mi as usize), Some(pi as usize))), mi + 1, pi + 1, ml, pl, nd, ni, regex, lim),
{
    let a2 = a.push((Some(mi as usize), Some(pi as usize)));
    let am2 = am.push(vm);
    let ap2 = ap.push(vp);
    lemma_al_push(a, (Some(mi as usize), Some(pi as usize)));
    assert forall|k: int| 0 <= k < a2.len() implies (match #[trigger] a2[k] {
        (Some(i), None) => i < am2.len() && i < nd.len() && all_tagged(am2[i as int]@, nd[i as int]),
        (None, Some(j)) => j < ap2.len() && j < ni.len() && all_tagged(ap2[j as int]@, ni[j as int]),
        _ => true,
    }) by { if k < a.len() { assert(a2[k] == a[k]); } }
    assert forall|k: int| 0 <= k < a2.len() implies ((#[trigger] a2[k]) matches (Some(i), Some(j)) ==> i < ml.len() && j < pl.len()
        && pair_accepted(dist_of_tokens(tokens_spec(ml[i as int]@, regex), tokens_spec(pl[j as int]@, regex)), lim.0, lim.1, ml.len() == pl.len())) by { if k < a.len() { assert(a2[k] == a[k]); } }
    assert forall|i: int| 0 <= i < am2.len() implies cat((#[trigger] am2[i])@) == ml[i]@ by { if i < am.len() { assert(am2[i] == am[i]); } }
    assert forall|i: int| 0 <= i < ap2.len() implies cat((#[trigger] ap2[i])@) == pl[i]@ by { if i < ap.len() { assert(ap2[i] == ap[i]); } }
}

//@ define INV ie_inv(annotated_minus_lines@, annotated_plus_lines@, line_alignment@,
//@ define ENVI minus_lines@, plus_lines@, noop_deletions@, noop_insertions@, tokenization_regex, (max_line_distance, max_line_distance_for_naively_paired_lines)
//@ define SNAP let ghost am0 = annotated_minus_lines@; let ghost ap0 = annotated_plus_lines@; let ghost a0 = line_alignment@;
//@ fn src/edits.rs infer_edits
//@| requires noop_deletions@.len() == minus_lines@.len(), noop_insertions@.len() == plus_lines@.len(),  // ("guaranteed to be the same length": the function's doc comment; a call-site condition)
//@| ensures r.0@.len() == minus_lines@.len() && r.1@.len() == plus_lines@.len(),  // @C01,C06:every.removed.and.every.added.line.is.emitted
//@|     al_wf(r.2@) && al_m(r.2@) == minus_lines@.len() && al_p(r.2@) == plus_lines@.len(),  // @C01,C06:each.line.appears.exactly.once.and.in.order.so.pairs.never.cross
//@|     pairs_ok(r.2@, minus_lines@, plus_lines@, tokenization_regex, max_line_distance, max_line_distance_for_naively_paired_lines),  // @C06:lines.are.paired.only.within.the.configured.distance
//@|     lossless(r.0@, minus_lines@) && lossless(r.1@, plus_lines@),  // @C01,C06:the.annotated.sections.of.a.line.spell.the.line
//@|     unpaired_plain(r.2@, r.0@, r.1@, noop_deletions@, noop_insertions@),  // @C06:a.line.without.partner.carries.no.emphasis
//@rewrite <<<distance <= max_line_distance_for_naively_paired_lines>>> => <<<verif_le(distance, max_line_distance_for_naively_paired_lines)>>>
//@rewrite <<<distance <= max_line_distance>>> => <<<verif_le(distance, max_line_distance)>>>
//@rewrite <<<&plus_line[content.len()..]>>> => <<<verif_str_after_prefix(plus_line, content)>>>
//@before <<<let mut plus_index = 0;>>>| proof { assert(line_alignment@ =~= Seq::empty()); }
//@loop 1| invariant plus_index <= plus_lines@.len(), ${INV} minus_index as int, plus_index as int, ${ENVI}),
//@before <<<for plus_line in vit1: verif_slice_from(&plus_lines, plus_index) { let alignment>>>| let ghost p0 = plus_index;
//@loop 2| invariant_except_break plus_index == p0, considered == vit1.index@, !verif_continue_minus_lines_loop, ${INV} minus_index as int, plus_index as int, ${ENVI}),
//@loop 2| invariant minus_index < minus_lines@.len(), *minus_line == minus_lines@[minus_index as int], p0 <= plus_lines@.len(), refs_of(vit1.seq(), plus_lines@.subrange(p0 as int, plus_lines@.len() as int)),
//@loop 2|     noop_deletions@.len() == minus_lines@.len(), noop_insertions@.len() == plus_lines@.len(),
//@loop 2| ensures plus_index <= plus_lines@.len(), verif_continue_minus_lines_loop ==> ${INV} minus_index + 1, plus_index as int, ${ENVI}), !verif_continue_minus_lines_loop ==> ${INV} minus_index as int, plus_index as int, ${ENVI}),
//@before <<<let (annotated_minus_line, annotated_plus_line, distance) = annotate(>>>| let ghost tk = alignment.toks(); proof { assert(*plus_line == plus_lines@[p0 + considered]); }
//@loop 3| invariant minus_index < minus_lines@.len(), p0 + considered < plus_lines@.len(), refs_of(vit2.seq(), plus_lines@.subrange(p0 as int, p0 + considered)), plus_index == p0 + vit2.index@,
//@loop 3|     ${INV} minus_index as int, plus_index as int, ${ENVI}),
//@after <<<for plus_line in vit2: verif_slice(&plus_lines, plus_index, (plus_index + considered)) {>>>| ${SNAP} proof { assert(*plus_line == plus_lines@[plus_index as int]); }
//@before#1/3 <<<plus_index += 1;>>>| proof { let v = annotated_plus_lines@.last(); assert(v@ =~= seq![(noop_insertions@[plus_index as int], *plus_line)]); lemma_cat1((noop_insertions@[plus_index as int], *plus_line)); lemma_push_unpaired_plus(am0, ap0, a0, minus_index as int, plus_index as int, ${ENVI}, v); assert(annotated_plus_lines@ =~= ap0.push(v)); assert(line_alignment@ =~= a0.push((None, Some(plus_index)))); }
//@before <<<annotated_minus_lines.push(annotated_minus_line);>>>| ${SNAP} proof { assert(plus_index == p0 + considered); }
//@before#2/3 <<<plus_index += 1;>>>| proof { let vm = annotated_minus_lines@.last(); let vp = annotated_plus_lines@.last(); lemma_push_pair(am0, ap0, a0, minus_index as int, plus_index as int, ${ENVI}, vm, vp); assert(annotated_minus_lines@ =~= am0.push(vm)); assert(annotated_plus_lines@ =~= ap0.push(vp)); assert(line_alignment@ =~= a0.push((Some(minus_index), Some(plus_index)))); }
//@before <<<if !verif_continue_minus_lines_loop {>>>| ${SNAP}
//@after <<<line_alignment.push((Some(minus_index), None));>>>| proof { let v = annotated_minus_lines@.last(); assert(v@ =~= seq![(noop_deletions@[minus_index as int], *minus_line)]); lemma_cat1((noop_deletions@[minus_index as int], *minus_line)); lemma_push_unpaired_minus(am0, ap0, a0, minus_index as int, plus_index as int, ${ENVI}, v); assert(annotated_minus_lines@ =~= am0.push(v)); assert(line_alignment@ =~= a0.push((Some(minus_index), None))); }
//@before <<<for plus_line in vit3: verif_slice_from(&plus_lines, plus_index) { if let Some(content)>>>| let ghost p1 = plus_index;
//@loop 4| invariant p1 <= plus_lines@.len(), refs_of(vit3.seq(), plus_lines@.subrange(p1 as int, plus_lines@.len() as int)), plus_index == p1 + vit3.index@,
//@loop 4|     ${INV} minus_lines@.len() as int, plus_index as int, ${ENVI}),
//@before <<<if let Some(content) = get_contents_before_trailing_whitespace(plus_line) {>>>| ${SNAP} proof { assert(*plus_line == plus_lines@[plus_index as int]); }
//@before <<<} else { annotated_plus_lines.push(vec![(noop_insertions[plus_index], plus_line)]);>>>| proof { let v = annotated_plus_lines@.last(); lemma_cat2(v@[0], v@[1]); assert(v@ =~= seq![v@[0], v@[1]]); assert(cat(v@) == (*plus_line)@ && all_tagged(v@, noop_insertions@[plus_index as int])); }
//@after <<<} else { annotated_plus_lines.push(vec![(noop_insertions[plus_index], plus_line)]);>>>| proof { let v = annotated_plus_lines@.last(); lemma_cat1(v@[0]); assert(v@ =~= seq![v@[0]]); assert(cat(v@) == (*plus_line)@ && all_tagged(v@, noop_insertions@[plus_index as int])); }
//@before#3/3 <<<plus_index += 1;>>>| proof { let v = annotated_plus_lines@.last(); lemma_push_unpaired_plus(am0, ap0, a0, minus_lines@.len() as int, plus_index as int, ${ENVI}, v); assert(annotated_plus_lines@ =~= ap0.push(v)); assert(line_alignment@ =~= a0.push((None, Some(plus_index)))); }

} // verus!
fn main() {}
