//@ include prelude/header.rs
//@ unit U08 style.rs: style equality relation used to recognise git's own colouring (C08), canonical printing (C12)
verus! {
//@ include prelude/base.rs
//@ include prelude/std_assumed.rs
//@ include prelude/ansi_term.rs
//@ include prelude/style.rs
//@ shims ansi color
//@ broadcast vax::vax_group

// Option::zip: "If self is Some(s) and other is Some(o), this method returns Some((s, o)). Otherwise, None is returned."
pub assume_specification<T, U>[ Option::<T>::zip::<U> ](a: Option<T>, b: Option<U>) -> (r: Option<(T, U)>)
    ensures r == (match (a, b) { (Some(x), Some(y)) => Some((x, y)), _ => None::<(T, U)> });

/// Named colours are the same colours as palette entries 0-7.
pub open spec fn canon_color(c: ansi_term::Color) -> ansi_term::Color {
    match c {
        ansi_term::Color::Black => ansi_term::Color::Fixed(0),
        ansi_term::Color::Red => ansi_term::Color::Fixed(1),
        ansi_term::Color::Green => ansi_term::Color::Fixed(2),
        ansi_term::Color::Yellow => ansi_term::Color::Fixed(3),
        ansi_term::Color::Blue => ansi_term::Color::Fixed(4),
        ansi_term::Color::Purple => ansi_term::Color::Fixed(5),
        ansi_term::Color::Cyan => ansi_term::Color::Fixed(6),
        ansi_term::Color::White => ansi_term::Color::Fixed(7),
        other => other,
    }
}
pub open spec fn color_eq_spec(a: Option<ansi_term::Color>, b: Option<ansi_term::Color>) -> bool {
    match (a, b) {
        (Some(x), Some(y)) => canon_color(x) == canon_color(y),
        (None, None) => true,
        _ => false,
    }
}
/// Two terminal styles are "the same" iff every attribute agrees and both colours agree up to
/// the named/0-7 identification.
pub open spec fn style_eq_spec(a: ansi_term::Style, b: ansi_term::Style) -> bool {
    &&& a.is_bold == b.is_bold && a.is_dimmed == b.is_dimmed && a.is_italic == b.is_italic && a.is_underline == b.is_underline
    &&& a.is_blink == b.is_blink && a.is_reverse == b.is_reverse && a.is_hidden == b.is_hidden && a.is_strikethrough == b.is_strikethrough
    &&& color_eq_spec(a.foreground, b.foreground)
    &&& color_eq_spec(a.background, b.background)
}
pub open spec fn color_key_spec(c: ansi_term::Color) -> (u8, u8, u8, u8) {
    match canon_color(c) {
        ansi_term::Color::Fixed(n) => (n, 0xFFu8, 0xFFu8, 0xFFu8),
        ansi_term::Color::RGB(r, g, b) => (r, g, b, 0u8),
        _ => (0u8, 0u8, 0u8, 1u8),
    }
}
/// First SGR style of a line, as parsed by `ansi::parse_first_style` (iterator over escape sequences; uninterpreted).
pub uninterp spec fn first_style_spec(s: Seq<char>) -> Option<ansi_term::Style>;
pub uninterp spec fn starts_with_style_spec(s: Seq<char>) -> bool;
pub open spec fn is_applied_spec(st: Style, s: Seq<char>) -> bool {
    match first_style_spec(s) { Some(p) => style_eq_spec(p, st.ansi_term_style), None => false }
}

#[verifier::external_body]
pub fn parse_first_style(s: &str) -> (r: Option<ansi_term::Style>) ensures r == first_style_spec(s@) { unimplemented!() }
#[verifier::external_body]
pub fn string_starts_with_ansi_style_sequence(s: &str) -> (r: bool) ensures r == starts_with_style_spec(s@) { unimplemented!() }

//@ fn src/style.rs ansi_term_16_color_equality
//@| ensures r == (a is Fixed && !(b is Fixed) && !(b is RGB) && canon_color(b) == a),  // @C08:eq16.named.is.palette.0.to.7
//@ fn src/style.rs ansi_term_color_equality
//@| ensures r == color_eq_spec(a, b),  // @C08:color.eq
//@ fn src/style.rs ansi_term_style_equality
//@| ensures r == style_eq_spec(a, b),  // @C08:style.eq.attributes.and.colours
//@rewrite <<<& ansi_term_color_equality(a.background, b.background)>>> => <<<&& ansi_term_color_equality(a.background, b.background)>>>
//@ fn src/style.rs ansi_term_color_equality_key
//@| ensures r == color_key_spec(color),  // @C08:color.key

pub proof fn lemma_key_consistent(a: ansi_term::Color, b: ansi_term::Color)
    ensures (color_key_spec(a) == color_key_spec(b)) == (canon_color(a) == canon_color(b)),  // @C08:key.equal.iff.colour.equal
{
}
pub proof fn lemma_style_eq_reflexive_symmetric(a: ansi_term::Style, b: ansi_term::Style)
    ensures style_eq_spec(a, a), style_eq_spec(a, b) == style_eq_spec(b, a),  // @C08:style.eq.equivalence
{
}

impl Style {
    //@ fn src/style.rs Style::is_applied_to
    //@| ensures r == is_applied_spec(*self, s@),  // @C08:is_applied
}

//@ fn src/style.rs line_has_style_other_than
//@| ensures r == (starts_with_style_spec(line@) && forall|j: int| 0 <= j < styles@.len() ==> !is_applied_spec(#[trigger] styles@[j], line@)),  // @C08:other.than
//@loop 1| invariant forall|j: int| 0 <= j < it.index@ ==> !is_applied_spec(#[trigger] styles@[j], line@), starts_with_style_spec(line@),
//@rewrite <<<for style in styles {>>> => <<<for style in it: styles {>>>

} // verus!
fn main() {}
