//@ include prelude/header.rs
//@ unit U18 features/side_by_side.rs: panel widths and padding geometry (C07), no underflow (C03)
verus! {
//@ include prelude/base.rs
//@ include prelude/std_assumed.rs
//@ include prelude/state.rs
//@ include prelude/ansi_term.rs
//@ include prelude/style.rs
//@ shims merge_conflict grep config cli ansi side_by_side line_numbers
//@ broadcast vax::vax_group axiom_width_of_appended_spaces
//@ include prelude/minusplus.rs
//@ type src/cli.rs Width
//@ type src/paint.rs BgFillMethod derives=Clone,Copy,PartialEq,Eq,Structural
//@ type src/paint.rs BgShouldFill derives=Clone,Copy,PartialEq,Eq,Structural
//@ type src/features/side_by_side.rs Panel noderive
pub type SideBySideData = LeftRight<Panel>;
pub type LineSections<'a, S> = Vec<(S, &'a str)>;
//@ type src/config.rs Config keep=side_by_side_data,available_terminal_width,line_numbers,truncation_symbol,null_style,minus_empty_line_marker_style,plus_empty_line_marker_style,keep_plus_minus_markers

/// Display width of a string with escape sequences ignored (`ansi::measure_text_width`). Uninterpreted.
pub uninterp spec fn vis_width(s: Seq<char>) -> nat;
#[verifier::external_body]
pub fn measure_text_width(s: &str) -> (r: usize) ensures r == vis_width(s@) { unimplemented!() }
/// ASSUMED (ansi::truncate_str, `fill2w = Some(' ')`): a string wider than `display_width` is cut to exactly `display_width` columns.
#[verifier::external_body]
pub fn verif_truncate_str_to_string(s: &str, display_width: usize, tail: &str) -> (r: String)
    ensures vis_width(s@) > display_width ==> vis_width(r@) == display_width,
            vis_width(s@) <= display_width ==> r@ == s@,
{ unimplemented!() }
/// ansi_term: what `style.paint(text).to_string()` writes (the style's escape sequences around the text); uninterpreted
pub uninterp spec fn painted(style: Style, text: Seq<char>) -> Seq<char>;
/// stands for `ansi_term::ANSIGenericString`, the value `Style::paint` returns
#[verifier::external_body]
pub struct Painted { _p: u8 }
impl Painted {
    pub uninterp spec fn text(&self) -> Seq<char>;
    #[verifier::external_body]
    pub fn to_string(&self) -> (r: String) ensures r@ == self.text() { unimplemented!() }
}
impl Style {
    /// delta's `Style::paint` (generic over the text type; here for an owned String)
    #[verifier::external_body]
    pub fn paint(self, input: String) -> (r: Painted) ensures r.text() == painted(self, input@) { unimplemented!() }
}
// str::repeat: "Creates a new String by repeating a string n times."; uninterpreted
pub uninterp spec fn repeated(s: Seq<char>, n: usize) -> Seq<char>;
pub assume_specification[ str::repeat ](s: &str, n: usize) -> (r: String)
    ensures r@ == repeated(s@, n);
/// `fill_style.paint(" ".repeat(n)).to_string()`: n columns of styled spaces. ASSUMED: appending it adds exactly n columns.
pub open spec fn painted_spaces(style: Style, n: usize) -> Seq<char> { painted(style, repeated(" "@, n)) }
pub broadcast axiom fn axiom_width_of_appended_spaces(a: Seq<char>, style: Style, n: usize)
    ensures #[trigger] vis_width(a + painted(style, repeated(" "@, n))) == vis_width(a) + n;

//@ type src/ansi/mod.rs ANSI_CSI_CLEAR_TO_EOL
//@ type src/ansi/mod.rs ANSI_SGR_RESET
/// what `Painter::mark_empty_line` makes of a painted line (ansi_term string assembly; uninterpreted)
pub uninterp spec fn marked_empty(line: Seq<char>, style: Style, marker: Option<&str>) -> Seq<char>;
pub struct Painter { _p: u8 }
impl Painter {
    #[verifier::external_body]
    pub fn mark_empty_line(empty_line_style: &Style, line: &mut String, marker: Option<&str>)
        ensures final(line)@ == marked_empty(old(line)@, *empty_line_style, marker),
    { unimplemented!() }
    // verified against this contract in U42
    //@ stub src/paint.rs Painter::right_fill_background_color spec=paint.right_fill
    #[verifier::external_body]
    pub fn get_should_right_fill_background_color_and_fill_style(diff_sections: &[(Style, &str)], line_has_homolog: Option<bool>, state: &State, background_color_extends_to_terminal_width: BgShouldFill, config: &Config) -> (r: (Option<BgFillMethod>, Style))
    { unimplemented!() }
}

impl MinusPlus<Panel> {
    //@ fn src/features/side_by_side.rs SideBySideData::new_sbs
    //@| ensures r.minus.width == r.plus.width,  // @C07:sbs.panels.have.equal.width
    //@|         (match *decorations_width { Width::Fixed(w) => r.minus.width == w / 2, _ => r.minus.width == *available_terminal_width / 2 }),  // @C07:sbs.panel.is.half.the.width
    //@|         (match *decorations_width { Width::Fixed(w) => r.minus.width + r.plus.width <= w, _ => r.minus.width + r.plus.width <= *available_terminal_width }),  // @C07:sbs.row.not.wider.than.configured
}

//@ fn src/features/side_by_side.rs get_right_fill_style_for_panel
//@| requires line_index matches Some(i) ==> i < diff_style_sections@.len() && (lines_have_homolog matches Some(h) ==> i < h@.len()),  // @C03:fill.index.in.range
//@| ensures panel_side == Left ==> r.0 == Some(BgFillMethod::Spaces),  // @C07:left.panel.is.always.padded.with.spaces.never.by.an.ansi.sequence
//@rewrite <<<lines_have_homolog.map(|h| h[index])>>> => <<<(match lines_have_homolog { Some(h) => Some(h[index]), None => None })>>>

//@ fn src/features/side_by_side.rs pad_panel_line_to_width
//@| requires line_index matches Some(i) ==> i < diff_style_sections@.len() && (lines_have_homolog matches Some(h) ==> i < h@.len()),
//@|          panel_line_is_empty && line_index is Some ==> (*state is HunkMinus || *state is HunkPlus || *state is HunkZero),  // @C03:pad.empty.rows.are.never.wrapped.rows.assumed
//@| ensures panel_side == Left ==> vis_width(final(panel_line)@) == config.side_by_side_data.minus.width,  // @C07:left.panel.has.exactly.the.panel.width.so.the.right.panel.starts.at.the.same.column
//@rewrite <<<ansi::truncate_str(panel_line, panel_width, &config.truncation_symbol).to_string()>>> => <<<verif_truncate_str_to_string(panel_line, panel_width, &config.truncation_symbol)>>>

// ---- Painter::paint_lines: what follows the painted text of a line (unified layout) ----
/// the line as it is written (`piece`): what `right_fill_background_color` made of the painted text - it ends with
/// clear-to-end-of-line and a reset -, or the painted text and styled spaces up to EXACTLY the terminal width (none when the
/// text is already that wide), or the painted text with the empty-line mark, or the painted text alone
pub open spec fn filled_line_ok(piece: Seq<char>, line: Seq<char>, line_is_empty: bool, bg_fill_mode: Option<BgFillMethod>, fill_style: Style, empty_line_style: Option<Style>, config: &Config) -> bool {
    match bg_fill_mode {
        Some(BgFillMethod::TryAnsiSequence) => is_suffix(ANSI_CSI_CLEAR_TO_EOL@ + ANSI_SGR_RESET@, piece),
        Some(BgFillMethod::Spaces) => piece == line + painted_spaces(fill_style, sat_sub(config.available_terminal_width, vis_width(line) as usize)),
        None => piece == (if line_is_empty && empty_line_style is Some {
            marked_empty(line, empty_line_style->0, if config.line_numbers { Some(" ") } else { None })
        } else { line }),
    }
}
//@ region src/paint.rs Painter::paint_lines
//@sig pub fn paint_lines_fill_region(mut line: String, line_is_empty: bool, bg_fill_mode: Option<BgFillMethod>, fill_style: Style, empty_line_style: Option<Style>, config: &Config, output_buffer: &mut String)
//@from <<<if let Some(BgFillMethod::TryAnsiSequence) = bg_fill_mode {>>>
//@to <<<output_buffer.push('\n');>>>
//@| ensures final(output_buffer)@.len() > old(output_buffer)@.len(), final(output_buffer)@.last() == '\n', is_prefix(old(output_buffer)@, final(output_buffer)@),
//@|     filled_line_ok(final(output_buffer)@.subrange(old(output_buffer)@.len() as int, final(output_buffer)@.len() - 1), line@, line_is_empty, bg_fill_mode, fill_style, empty_line_style, config),  // @C07,C09:a.line.is.written.as.its.painted.text.followed.only.by.the.fill.styled.spaces.up.to.exactly.the.terminal.width.or.the.empty.line.mark.and.a.newline
//@rewrite <<<ansi::measure_text_width(&line)>>> => <<<measure_text_width(&line)>>>
//@before <<<output_buffer.push_str(&line);>>>| let ghost written = line@;
//@after <<<output_buffer.push('\n');>>>| proof { assert(/* @C07,C09:paint_lines.what.is.appended.is.the.finished.line.and.a.newline */ output_buffer@.subrange(old(output_buffer)@.len() as int, output_buffer@.len() - 1) =~= written); assert(/* @C01,C09:paint_lines.what.was.written.before.stays */ output_buffer@.subrange(0, old(output_buffer)@.len() as int) =~= old(output_buffer)@); }

// ---- the width left for text in a panel ----
pub type SideBySideLineWidth = MinusPlus<usize>;
#[verifier::external_body]
pub struct LineNumbersData { _p: u8 }
impl LineNumbersData {
    /// the width of the number columns of each panel (format strings; uninterpreted)
    pub uninterp spec fn fw(&self) -> SideBySideLineWidth;
    #[verifier::external_body]
    pub fn formatted_width(&self) -> (r: SideBySideLineWidth) ensures r == self.fw() { unimplemented!() }
}
pub open spec fn sat_sub(a: usize, b: usize) -> usize { if a >= b { (a - b) as usize } else { 0 } }
/// C07: what is left of a panel for text: its width less the number columns less the marker column - never negative, however
/// narrow the panel (a panel of 4 columns with a 6-column number field leaves 0, it does not wrap around)
pub open spec fn text_width_spec(config: &Config, data: &LineNumbersData, side: PanelSide) -> usize {
    sat_sub(sat_sub(mp_get(config.side_by_side_data, side).width, mp_get(data.fw(), side)), if config.keep_plus_minus_markers { 1usize } else { 0usize })
}
//@ fn src/features/side_by_side.rs available_line_width
//@| ensures r.minus == text_width_spec(config, data, Left) && r.plus == text_width_spec(config, data, Right),  // @C07,C03:the.text.width.of.a.panel.is.its.width.less.number.and.marker.columns.and.never.negative
//@rewrite <<<let line_width = |side: PanelSide| {>>> => <<<let line_width = |side: PanelSide| -> (r: usize) ensures r == text_width_spec(config, data, side) {>>>
//@rewrite <<<config.keep_plus_minus_markers as usize>>> => <<<(if config.keep_plus_minus_markers { 1usize } else { 0usize })>>>

// ---- wrapping.rs wrap_zero_block: an unchanged line is wrapped ONCE for both panels - to the narrower of the two text widths
pub open spec fn min_us(a: usize, b: usize) -> usize { if a <= b { a } else { b } }
//@ region src/wrapping.rs wrap_zero_block
//@sig pub fn wrap_zero_block_width_region(config: &Config, line_numbers_data: &Option<&mut LineNumbersData>) -> (r: usize)
//@from <<<let line_width = if let Some(line_numbers_data) = line_numbers_data {>>>
//@until <<<debug_assert_eq!(diff_style_sections.len(), 1);>>>
//@tail line_width
//@| ensures r == (match *line_numbers_data {
//@|     Some(d) => min_us(text_width_spec(config, &*d, Left), text_width_spec(config, &*d, Right)),
//@|     None => min_us(config.side_by_side_data.minus.width, config.side_by_side_data.plus.width) }),  // @C07:an.unchanged.line.is.wrapped.to.the.narrower.of.the.two.panels.text.widths.so.its.rows.fit.both

// ---- side_by_side.rs ansifill: with the ANSI fill and an odd width the right panel takes the left-over column
//@ type src/features/side_by_side.rs ansifill::UseFullPanelWidth noderive
impl UseFullPanelWidth {
    //@ fn src/features/side_by_side.rs ansifill::UseFullPanelWidth::is_odd_with_ansi
    //@| ensures r == (*method == BgFillMethod::TryAnsiSequence && (*width matches Width::Fixed(w) && w % 2 == 1)),  // @C07:the.extra.column.is.used.only.with.the.ansi.fill.and.an.odd.fixed.width
    //@ fn src/features/side_by_side.rs ansifill::UseFullPanelWidth::adapt_sbs_data
    //@| requires sbs_data.plus.width < usize::MAX,
    //@| ensures r.plus.width == sbs_data.plus.width + 1 && r.minus == sbs_data.minus,  // @C07:the.left.over.column.of.an.odd.width.goes.to.the.right.panel
    //@rewriteall <<<super::>>> => <<<>>>
    //@ fn src/features/side_by_side.rs ansifill::UseFullPanelWidth::sbs_odd_fix
    //@| requires sbs_data.plus.width < usize::MAX,
    //@| ensures (*method == BgFillMethod::TryAnsiSequence && (*width matches Width::Fixed(w) && w % 2 == 1)) ==> r.minus == sbs_data.minus && r.plus.width == sbs_data.plus.width + 1,  // @C07:with.the.ansi.fill.and.an.odd.width.the.two.panels.use.the.full.width
    //@|         !(*method == BgFillMethod::TryAnsiSequence && (*width matches Width::Fixed(w) && w % 2 == 1)) ==> r == sbs_data,
}

} // verus!
fn main() {}
