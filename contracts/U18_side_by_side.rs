//@ include prelude/header.rs
//@ unit U18 features/side_by_side.rs: panel widths and padding geometry (C07), no underflow (C03)
verus! {
//@ include prelude/base.rs
//@ include prelude/std_assumed.rs
//@ include prelude/state.rs
//@ include prelude/ansi_term.rs
//@ include prelude/style.rs
//@ shims merge_conflict grep config cli ansi side_by_side line_numbers
//@ broadcast vax::vax_group axiom_width_of_appended_spaces
//@ include prelude/minusplus.rs
//@ type src/cli.rs Width
//@ type src/paint.rs BgFillMethod derives=Clone,Copy,PartialEq,Eq,Structural
//@ type src/paint.rs BgShouldFill derives=Clone,Copy,PartialEq,Eq,Structural
//@ type src/features/side_by_side.rs Panel noderive
pub type SideBySideData = LeftRight<Panel>;
pub type LineSections<'a, S> = Vec<(S, &'a str)>;
//@ type src/config.rs Config keep=side_by_side_data,truncation_symbol,null_style,minus_empty_line_marker_style,plus_empty_line_marker_style,keep_plus_minus_markers

/// Display width of a string with escape sequences ignored (`ansi::measure_text_width`). Uninterpreted.
pub uninterp spec fn vis_width(s: Seq<char>) -> nat;
#[verifier::external_body]
pub fn measure_text_width(s: &str) -> (r: usize) ensures r == vis_width(s@) { unimplemented!() }
/// ASSUMED (ansi::truncate_str, `fill2w = Some(' ')`): a string wider than `display_width` is cut to exactly `display_width` columns.
#[verifier::external_body]
pub fn verif_truncate_str_to_string(s: &str, display_width: usize, tail: &str) -> (r: String)
    ensures vis_width(s@) > display_width ==> vis_width(r@) == display_width,
            vis_width(s@) <= display_width ==> r@ == s@,
{ unimplemented!() }
/// (R3) `fill_style.paint(" ".repeat(n)).to_string()`: n columns of styled spaces. ASSUMED: appending it adds exactly n columns.
pub uninterp spec fn painted_spaces(style: Style, n: usize) -> Seq<char>;
#[verifier::external_body]
pub fn verif_paint_spaces(style: Style, n: usize) -> (r: String) ensures r@ == painted_spaces(style, n) { unimplemented!() }
pub broadcast axiom fn axiom_width_of_appended_spaces(a: Seq<char>, style: Style, n: usize)
    ensures #[trigger] vis_width(a + painted_spaces(style, n)) == vis_width(a) + n;

pub struct Painter { _p: u8 }
impl Painter {
    #[verifier::external_body]
    pub fn mark_empty_line(empty_line_style: &Style, line: &mut String, marker: Option<&str>) { unimplemented!() }
    #[verifier::external_body]
    pub fn right_fill_background_color(line: &mut String, fill_style: Style) { unimplemented!() }
    #[verifier::external_body]
    pub fn get_should_right_fill_background_color_and_fill_style(diff_sections: &[(Style, &str)], line_has_homolog: Option<bool>, state: &State, background_color_extends_to_terminal_width: BgShouldFill, config: &Config) -> (r: (Option<BgFillMethod>, Style))
    { unimplemented!() }
}

impl MinusPlus<Panel> {
    //@ fn src/features/side_by_side.rs SideBySideData::new_sbs
    //@| ensures r.minus.width == r.plus.width,  // @C07:sbs.panels.have.equal.width
    //@|         (match *decorations_width { Width::Fixed(w) => r.minus.width == w / 2, _ => r.minus.width == *available_terminal_width / 2 }),  // @C07:sbs.panel.is.half.the.width
    //@|         (match *decorations_width { Width::Fixed(w) => r.minus.width + r.plus.width <= w, _ => r.minus.width + r.plus.width <= *available_terminal_width }),  // @C07:sbs.row.not.wider.than.configured
}

//@ fn src/features/side_by_side.rs get_right_fill_style_for_panel
//@| requires line_index matches Some(i) ==> i < diff_style_sections@.len() && (lines_have_homolog matches Some(h) ==> i < h@.len()),  // @C03:fill.index.in.range
//@| ensures panel_side == Left ==> r.0 == Some(BgFillMethod::Spaces),  // @C07:left.panel.is.always.padded.with.spaces.never.by.an.ansi.sequence
//@rewrite <<<lines_have_homolog.map(|h| h[index])>>> => <<<(match lines_have_homolog { Some(h) => Some(h[index]), None => None })>>>

//@ fn src/features/side_by_side.rs pad_panel_line_to_width
//@| requires line_index matches Some(i) ==> i < diff_style_sections@.len() && (lines_have_homolog matches Some(h) ==> i < h@.len()),
//@|          panel_line_is_empty && line_index is Some ==> (*state is HunkMinus || *state is HunkPlus || *state is HunkZero),  // @C03:pad.empty.rows.are.never.wrapped.rows.assumed
//@| ensures panel_side == Left ==> vis_width(final(panel_line)@) == config.side_by_side_data.minus.width,  // @C07:left.panel.has.exactly.the.panel.width.so.the.right.panel.starts.at.the.same.column
//@rewrite <<<ansi::truncate_str(panel_line, panel_width, &config.truncation_symbol).to_string()>>> => <<<verif_truncate_str_to_string(panel_line, panel_width, &config.truncation_symbol)>>>
//@rewrite <<<&fill_style .paint(" ".repeat(panel_width - text_width)) .to_string()>>> => <<<&verif_paint_spaces(fill_style, panel_width - text_width)>>>

// ---- the width left for text in a panel ----
pub type SideBySideLineWidth = MinusPlus<usize>;
#[verifier::external_body]
pub struct LineNumbersData { _p: u8 }
impl LineNumbersData {
    /// the width of the number columns of each panel (format strings; uninterpreted)
    pub uninterp spec fn fw(&self) -> SideBySideLineWidth;
    #[verifier::external_body]
    pub fn formatted_width(&self) -> (r: SideBySideLineWidth) ensures r == self.fw() { unimplemented!() }
}
pub open spec fn sat_sub(a: usize, b: usize) -> usize { if a >= b { (a - b) as usize } else { 0 } }
/// C07: what is left of a panel for text: its width less the number columns less the marker column - never negative, however
/// narrow the panel (a panel of 4 columns with a 6-column number field leaves 0, it does not wrap around)
pub open spec fn text_width_spec(config: &Config, data: &LineNumbersData, side: PanelSide) -> usize {
    sat_sub(sat_sub(mp_get(config.side_by_side_data, side).width, mp_get(data.fw(), side)), if config.keep_plus_minus_markers { 1usize } else { 0usize })
}
//@ fn src/features/side_by_side.rs available_line_width
//@| ensures r.minus == text_width_spec(config, data, Left) && r.plus == text_width_spec(config, data, Right),  // @C07,C03:the.text.width.of.a.panel.is.its.width.less.number.and.marker.columns.and.never.negative
//@rewrite <<<let line_width = |side: PanelSide| {>>> => <<<let line_width = |side: PanelSide| -> (r: usize) ensures r == text_width_spec(config, data, side) {>>>
//@rewrite <<<config.keep_plus_minus_markers as usize>>> => <<<(if config.keep_plus_minus_markers { 1usize } else { 0usize })>>>

} // verus!
fn main() {}
