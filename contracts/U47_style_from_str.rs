//@ include prelude/header.rs
//@ unit U47 parse_style.rs Style::from_str / from_git_str / from_str_with_handling_of_special_decoration_attributes: every part of a style is read with the SAME colour depth and gitconfig (C12)
verus! {
//@ include prelude/base.rs
//@ include prelude/std_assumed.rs
//@ include prelude/ansi_term.rs
//@ include prelude/style.rs
#[verifier::external_body]
pub struct GitConfig { _p: u8 }
#[verifier::external_body]
pub struct DecorationAttributes { _p: u8 }
/// `parse_ansi_term_style` (U31 has its parts under contract) and `DecorationStyle::from_str`: what a style string / a decoration
/// style string means for a colour depth and a gitconfig; uninterpreted here
pub uninterp spec fn ansi_style_of(s: Seq<char>, default: Option<Style>, true_color: bool, git_config: Option<&GitConfig>) -> (ansi_term::Style, bool, bool, bool);
pub uninterp spec fn decoration_of(s: Seq<char>, true_color: bool, git_config: Option<&GitConfig>) -> DecorationStyle;
#[verifier::external_body]
pub fn parse_ansi_term_style(s: &str, default: Option<Style>, true_color: bool, git_config: Option<&GitConfig>) -> (r: (ansi_term::Style, bool, bool, bool))
    ensures r == ansi_style_of(s@, default, true_color, git_config),
{ unimplemented!() }
/// which decoration words (`box`, `ul`, `ol`, `underline`, `overline`) a text style contains, and the style string without them
pub uninterp spec fn special_words_of(s: Seq<char>) -> (DecorationAttributes, Seq<char>);
#[verifier::external_body]
pub fn extract_special_decoration_attributes_from_non_decoration_style_string(style_string: &str) -> (r: (DecorationAttributes, String))
    ensures r.0 == special_words_of(style_string@).0, r.1@ == special_words_of(style_string@).1,
{ unimplemented!() }
pub uninterp spec fn with_special_words(style: Style, a: DecorationAttributes) -> DecorationStyle;
impl DecorationStyle {
    #[verifier::external_body]
    pub fn from_str(style_string: &str, true_color: bool, git_config: Option<&GitConfig>) -> (r: DecorationStyle)
        ensures r == decoration_of(style_string@, true_color, git_config),
    { unimplemented!() }
    #[verifier::external_body]
    pub fn apply_special_decoration_attributes(style: &mut Style, special_attributes: DecorationAttributes) -> (r: DecorationStyle)
        ensures r == with_special_words(*old(style), special_attributes), *final(style) == *old(style),
    { unimplemented!() }
}
pub open spec fn opt_str_or_empty(o: Option<&str>) -> Seq<char> { match o { Some(s) => s@, None => ""@ } }
/// what a pair of style strings means
pub open spec fn style_of(style_string: Seq<char>, default: Option<Style>, deco: Option<&str>, true_color: bool, git_config: Option<&GitConfig>) -> Style {
    let p = ansi_style_of(style_string, default, true_color, git_config);
    Style { ansi_term_style: p.0, is_emph: false, is_omitted: p.1, is_raw: p.2, is_syntax_highlighted: p.3,
            decoration_style: decoration_of(opt_str_or_empty(deco), true_color, git_config) }
}
impl Style {
    //@ fn src/parse_style.rs Style::from_str
    //@| ensures r == style_of(style_string@, default, decoration_style_string, true_color, git_config),  // @C12:the.text.style.and.the.decoration.style.are.both.read.with.the.colour.depth.and.the.gitconfig.of.this.run
    //@ fn src/parse_style.rs Style::from_git_str
    //@| ensures r == style_of(git_style_string@, None, None, true, None),  // @C12,C08:a.style.git.wrote.is.read.with.its.24.bit.colours.kept.and.no.defaults
    //@ fn src/parse_style.rs Style::from_str_with_handling_of_special_decoration_attributes
    //@| ensures ({ let w = special_words_of(style_string@); let s0 = style_of(w.1, default, decoration_style_string, true_color, git_config);
    //@|            r == Style { decoration_style: with_special_words(s0, w.0), ..s0 } }),  // @C12:decoration.words.in.a.text.style.are.taken.out.first.and.applied.to.the.decoration.of.the.style.read.from.the.rest
}

} // verus!
fn main() {}
