// K01 edits.rs compute_distance (C06): the normalised distance of two paired lines is a number from 0 to 1.
// Engine: Kani function contract, proved by `proof_for_contract` over ALL f64 pairs admitted by `pre` - the function is
// loop-free, so this is a complete proof, not a bounded one.  The same file compiles with plain rustc into the replay
// driver (`main`), which runs the extracted function on the inputs of Kani's counterexample.
// kani: harness=check_compute_distance fn=compute_distance inputs=d_numer:f64,d_denom:f64

/// What `annotate` passes: two column counts converted with `as f64` - whole numbers with 0 <= numer <= denom
/// (every changed column is counted in both, every unchanged column twice in the denominator only); below 2^53 the
/// conversion is exact.
pub fn pre(d_numer: f64, d_denom: f64) -> bool {
    0.0 <= d_numer && d_numer <= d_denom && d_denom <= 9007199254740992.0 && d_numer == d_numer.trunc() && d_denom == d_denom.trunc()
}
pub fn post_is_a_fraction(_d_numer: f64, _d_denom: f64, r: f64) -> bool { !r.is_nan() && 0.0 <= r && r <= 1.0 }
pub fn post_zero_iff_nothing_changed(d_numer: f64, _d_denom: f64, r: f64) -> bool { (r == 0.0) == (d_numer == 0.0) }

#[cfg_attr(kani, kani::requires(pre(d_numer, d_denom)))]
#[cfg_attr(kani, kani::ensures(|r: &f64| post_is_a_fraction(d_numer, d_denom, *r)))]  // @C06:the.distance.of.two.lines.is.a.number.from.0.to.1.never.NaN
#[cfg_attr(kani, kani::ensures(|r: &f64| post_zero_iff_nothing_changed(d_numer, d_denom, *r)))]  // @C06:the.distance.is.0.exactly.when.no.column.changed.so.a.maximum.of.0.pairs.only.such.lines
//@ fn src/edits.rs compute_distance plain=1

#[cfg(kani)]
#[kani::proof_for_contract(compute_distance)]
fn check_compute_distance() {
    let d_numer: f64 = kani::any();
    let d_denom: f64 = kani::any();
    compute_distance(d_numer, d_denom);
}

#[cfg(not(kani))]
fn main() {
    // replay: the arguments are the IEEE-754 bit patterns (binary) of Kani's counterexample
    let a: Vec<u64> = std::env::args().skip(1).map(|s| u64::from_str_radix(&s, 2).expect("bit pattern")).collect();
    let (d_numer, d_denom) = (f64::from_bits(a[0]), f64::from_bits(a[1]));
    if !pre(d_numer, d_denom) {
        println!("compute_distance({:?}, {:?}): the precondition does not hold for these inputs", d_numer, d_denom);
        std::process::exit(3);
    }
    let r = compute_distance(d_numer, d_denom);
    println!("compute_distance({:?}, {:?}) = {:?}", d_numer, d_denom, r);
    let ok = post_is_a_fraction(d_numer, d_denom, r) && post_zero_iff_nothing_changed(d_numer, d_denom, r);
    println!("{}", if ok { "postcondition holds" } else { "postcondition VIOLATED on the real function" });
    std::process::exit(if ok { 0 } else { 1 });
}
#[cfg(kani)]
fn main() {}
