//@ include prelude/header.rs
//@ unit U19 align.rs: the edit-distance table and the operations read back from it (C06), index safety (C03)
verus! {
//@ include prelude/base.rs
//@ include prelude/std_assumed.rs

//@ type src/align.rs DELETION_COST
//@ type src/align.rs INSERTION_COST
//@ type src/align.rs INITIAL_MISMATCH_PENALTY
//@ type src/align.rs Operation derives=Clone,Copy,PartialEq,Eq,Structural
use Operation::*;
use vstd::std_specs::cmp::PartialEqSpec;
//@ type src/align.rs Cell
//@ type src/align.rs Alignment noderive

/// (R3) `candidates.iter().min_by_key(|cell| cell.cost).unwrap().clone()`.
/// ASSUMED contract of Iterator::min_by_key: "If several elements are equally minimum, the first element is returned."
pub open spec fn first_min3(c: Seq<Cell>) -> Cell {
    if c[0].cost <= c[1].cost && c[0].cost <= c[2].cost { c[0] }
    else if c[1].cost <= c[2].cost { c[1] }
    else { c[2] }
}
#[verifier::external_body]
pub fn verif_first_min_by_cost(c: &[Cell; 3]) -> (r: Cell)
    ensures r == first_min3(c@),
{ unimplemented!() }
/// (R3) `vec![cell; n]`
#[verifier::external_body]
pub fn verif_vec_repeat(c: Cell, n: usize) -> (r: Vec<Cell>)
    ensures r@.len() == n, forall|k: int| 0 <= k < n ==> #[trigger] r@[k] == c,
{ unimplemented!() }

// ---------------------------------------------------------------- index arithmetic (row-major table)
pub proof fn lemma_idx_bound(i: int, j: int, d: int, rows: int)
    requires 0 <= i < d, 0 <= j < rows,
    ensures 0 <= j * d + i < rows * d, j * d >= 0, (j + 1) * d == j * d + d,
{
    assert(j * d + d == (j + 1) * d) by(nonlinear_arith);
    assert((j + 1) * d <= rows * d) by(nonlinear_arith) requires j + 1 <= rows, d > 0;
    assert(j * d >= 0) by(nonlinear_arith) requires j >= 0, d > 0;
}
pub proof fn lemma_idx_inj(i: int, j: int, i2: int, j2: int, d: int)
    requires 0 <= i < d, 0 <= i2 < d, 0 <= j, 0 <= j2, j * d + i == j2 * d + i2,
    ensures i == i2, j == j2,
{
    if j < j2 {
        assert(j2 * d >= (j + 1) * d) by(nonlinear_arith) requires j2 >= j + 1, d > 0;
        assert((j + 1) * d == j * d + d) by(nonlinear_arith);
    } else if j2 < j {
        assert(j * d >= (j2 + 1) * d) by(nonlinear_arith) requires j >= j2 + 1, d > 0;
        assert((j2 + 1) * d == j2 * d + d) by(nonlinear_arith);
    }
}

// ---------------------------------------------------------------- what the filled table means
/// the cost constants of align.rs as mathematical integers (the specs below follow their current values)
//@ litconst src/align.rs DELETION_COST as=DC
//@ litconst src/align.rs INSERTION_COST as=IC
//@ litconst src/align.rs INITIAL_MISMATCH_PENALTY as=PC
/// the penalty the next mismatch pays when it follows this cell
pub open spec fn pen(c: Cell) -> int { if c.operation == NoOp { ${PC} } else { 0int } }
impl<'a> Alignment<'a> {
    pub open spec fn xl(&self) -> int { self.x@.len() as int }
    pub open spec fn yl(&self) -> int { self.y@.len() as int }
    /// the table has (yl+1) rows of (xl+1) cells; ASSUMED small enough that costs and the size fit a usize
    /// (a `Vec<&str>` of 16-byte elements cannot hold more than isize::MAX/16 tokens)
    pub open spec fn shape_ok(&self) -> bool {
        &&& self.dim@[1] == self.xl() + 1
        &&& self.dim@[0] == self.yl() + 1
        &&& self.table@.len() == (self.yl() + 1) * (self.xl() + 1)
        &&& self.table@.len() <= usize::MAX
        &&& ${DC} * (self.xl() + 1) + ${IC} * (self.yl() + 1) + 2 * ${PC} + 2 <= usize::MAX
    }
    pub open spec fn idx(&self, i: int, j: int) -> int { j * (self.xl() + 1) + i }
    pub open spec fn cell(&self, i: int, j: int) -> Cell { self.table@[self.idx(i, j)] }
    /// token i of the removed line equals token j of the added line
    pub open spec fn tok_eq(&self, i: int, j: int) -> bool { self.x@[i]@ == self.y@[j]@ }
    pub open spec fn origin_ok(&self) -> bool {
        self.table@[0].parent == 0 && self.table@[0].operation == NoOp && self.table@[0].cost == 0
    }
    #[verifier::opaque]
    pub open spec fn top_ok(&self, i: int) -> bool {
        let c = self.cell(i, 0);
        c.parent == 0 && c.operation == Deletion && c.cost == ${DC} * i + ${PC}
    }
    #[verifier::opaque]
    pub open spec fn side_ok(&self, j: int) -> bool {
        let c = self.cell(0, j);
        c.parent == 0 && c.operation == Insertion && c.cost == ${IC} * j + ${PC}
    }
    /// an interior cell (i, j >= 1): its operation says which neighbour it came from, a NoOp only between
    /// equal tokens, the neighbour is again interior - except for cell (1,1) whose parent is the origin -
    /// and its cost (plus the penalty a following mismatch would pay) stays below (i-1)*D + (j-1)*I + P
    #[verifier::opaque]
    pub open spec fn inner_ok(&self, i: int, j: int) -> bool {
        let c = self.cell(i, j);
        &&& match c.operation {
            NoOp => c.parent == self.idx(i - 1, j - 1) && self.tok_eq(i - 1, j - 1) && ((i == 1) == (j == 1)),
            Deletion => c.parent == self.idx(i - 1, j) && i >= 2,
            Insertion => c.parent == self.idx(i, j - 1) && j >= 2,
        }
        &&& c.cost + pen(c) <= ${DC} * (i - 1) + ${IC} * (j - 1) + ${PC}
    }
    pub open spec fn boundary_ok(&self) -> bool {
        &&& self.origin_ok()
        &&& forall|i: int| 1 <= i <= self.xl() ==> #[trigger] self.top_ok(i)
        &&& forall|j: int| 1 <= j <= self.yl() ==> #[trigger] self.side_ok(j)
    }
    pub open spec fn filled(&self) -> bool {
        &&& self.shape_ok()
        &&& self.boundary_ok()
        &&& forall|i: int, j: int| 1 <= i <= self.xl() && 1 <= j <= self.yl() ==> #[trigger] self.inner_ok(i, j)
    }
}
pub open spec fn the_top_cell(i: int) -> Cell { Cell { parent: 0, operation: Deletion, cost: (${DC} * i + ${PC}) as usize } }
pub open spec fn the_side_cell(j: int) -> Cell { Cell { parent: 0, operation: Insertion, cost: (${IC} * j + ${PC}) as usize } }

// ---------------------------------------------------------------- proof of the fill step
impl<'a> Alignment<'a> {
    pub open spec fn cols_done(&self, i: int) -> bool {
        forall|i2: int, j2: int| 1 <= i2 <= i && 1 <= j2 <= self.yl() ==> #[trigger] self.inner_ok(i2, j2)
    }
    pub open spec fn col_part(&self, i: int, j: int) -> bool {
        forall|j2: int| 1 <= j2 <= j ==> #[trigger] self.inner_ok(i, j2)
    }
    /// every cell filled so far has a small cost
    pub open spec fn cost_small(&self, i: int, j: int) -> bool { self.cell(i, j).cost <= ${DC} * i + ${IC} * j + ${PC} }
}
pub proof fn lemma_cost_small(a: &Alignment, i: int, j: int)
    requires a.shape_ok(), a.boundary_ok(), 0 <= i <= a.xl(), 0 <= j <= a.yl(), i >= 1 && j >= 1 ==> a.inner_ok(i, j),
    ensures a.cost_small(i, j), 0 <= a.idx(i, j) < a.table@.len(),
{
    reveal(Alignment::top_ok); reveal(Alignment::side_ok); reveal(Alignment::inner_ok);
    lemma_idx_bound(i, j, a.xl() + 1, a.yl() + 1);
    if i == 0 && j == 0 { } else if j == 0 { assert(a.top_ok(i)); } else if i == 0 { assert(a.side_ok(j)); } else { }
}

/// writing the top cell (i, 0) leaves the origin and the earlier top cells alone
pub proof fn lemma_top_step(pre: &Alignment, post: &Alignment, i: int)
    requires
        pre.shape_ok(), pre.origin_ok(), 1 <= i <= pre.xl(),
        forall|i2: int| 1 <= i2 < i ==> #[trigger] pre.top_ok(i2),
        post.x == pre.x, post.y == pre.y, post.dim == pre.dim,
        post.table@ == pre.table@.update(i, the_top_cell(i)),
        ${DC} * i + ${PC} <= usize::MAX,
    ensures
        post.shape_ok(), post.origin_ok(),
        forall|i2: int| 1 <= i2 < i + 1 ==> #[trigger] post.top_ok(i2),
{
    reveal(Alignment::top_ok);
    lemma_idx_bound(i, 0, pre.xl() + 1, pre.yl() + 1);
    assert forall|i2: int| 1 <= i2 < i + 1 implies #[trigger] post.top_ok(i2) by {
        if i2 < i { assert(pre.top_ok(i2)); }
    }
}

/// writing the side cell (0, j) leaves the top row and the earlier side cells alone
pub proof fn lemma_side_step(pre: &Alignment, post: &Alignment, j: int)
    requires
        pre.shape_ok(), pre.origin_ok(), 1 <= j <= pre.yl(),
        forall|i2: int| 1 <= i2 <= pre.xl() ==> #[trigger] pre.top_ok(i2),
        forall|j2: int| 1 <= j2 < j ==> #[trigger] pre.side_ok(j2),
        post.x == pre.x, post.y == pre.y, post.dim == pre.dim,
        post.table@ == pre.table@.update(pre.idx(0, j), the_side_cell(j)),
        ${IC} * j + ${PC} <= usize::MAX,
    ensures
        post.shape_ok(), post.origin_ok(),
        forall|i2: int| 1 <= i2 <= post.xl() ==> #[trigger] post.top_ok(i2),
        forall|j2: int| 1 <= j2 < j + 1 ==> #[trigger] post.side_ok(j2),
{
    reveal(Alignment::top_ok); reveal(Alignment::side_ok);
    let d = pre.xl() + 1;
    lemma_idx_bound(0, j, d, pre.yl() + 1);
    assert forall|i2: int, j2: int| 0 <= i2 <= pre.xl() && 0 <= j2 <= pre.yl() && !(i2 == 0 && j2 == j)
        implies post.cell(i2, j2) == pre.cell(i2, j2) by {
        lemma_idx_bound(i2, j2, d, pre.yl() + 1);
        if pre.idx(i2, j2) == pre.idx(0, j) { lemma_idx_inj(i2, j2, 0, j, d); }
    }
    assert(post.table@[0] == pre.table@[0]) by { assert(post.cell(0, 0) == pre.cell(0, 0)); }
    assert forall|i2: int| 1 <= i2 <= post.xl() implies #[trigger] post.top_ok(i2) by {
        assert(pre.top_ok(i2)); assert(post.cell(i2, 0) == pre.cell(i2, 0));
    }
    assert forall|j2: int| 1 <= j2 < j + 1 implies #[trigger] post.side_ok(j2) by {
        if j2 < j { assert(pre.side_ok(j2)); assert(post.cell(0, j2) == pre.cell(0, j2)); }
    }
}
/// the three neighbours of cell (i+1, j+1) are inside the table and cheap enough to add a mismatch to
pub proof fn lemma_neighbours(a: &Alignment, i: int, j: int)
    requires a.shape_ok(), a.boundary_ok(), 0 <= i < a.xl(), 0 <= j < a.yl(), a.cols_done(i), a.col_part(i + 1, j),
    ensures
        a.cost_small(i + 1, j), a.cost_small(i, j + 1), a.cost_small(i, j),
        0 <= a.idx(i + 1, j) < a.table@.len(), 0 <= a.idx(i, j + 1) < a.table@.len(), 0 <= a.idx(i, j) < a.table@.len(),
        0 <= a.idx(i + 1, j + 1) < a.table@.len(),
{
    if j >= 1 { assert(a.inner_ok(i + 1, j)); }
    if i >= 1 { assert(a.inner_ok(i, j + 1)); }
    if i >= 1 && j >= 1 { assert(a.inner_ok(i, j)); }
    lemma_cost_small(a, i + 1, j);
    lemma_cost_small(a, i, j + 1);
    lemma_cost_small(a, i, j);
    lemma_idx_bound(i + 1, j + 1, a.xl() + 1, a.yl() + 1);
}
/// the table after writing the first-minimum candidate into cell (i+1, j+1)
pub proof fn lemma_fill_step(pre: &Alignment, post: &Alignment, i: int, j: int, cands: Seq<Cell>, r: Cell)
    requires
        pre.shape_ok(), pre.boundary_ok(), pre.xl() >= 1, pre.yl() >= 1, pre.tok_eq(0, 0),
        0 <= i < pre.xl(), 0 <= j < pre.yl(),
        pre.cols_done(i), pre.col_part(i + 1, j),
        cands.len() == 3,
        cands[0].parent == pre.idx(i + 1, j), cands[0].operation == Insertion,
        cands[0].cost == pre.cell(i + 1, j).cost + ${IC} + pen(pre.cell(i + 1, j)),
        cands[1].parent == pre.idx(i, j + 1), cands[1].operation == Deletion,
        cands[1].cost == pre.cell(i, j + 1).cost + ${DC} + pen(pre.cell(i, j + 1)),
        cands[2].parent == pre.idx(i, j), cands[2].operation == NoOp,
        cands[2].cost == (if pre.tok_eq(i, j) { pre.cell(i, j).cost as int } else { usize::MAX as int }),
        r == first_min3(cands),
        post.x == pre.x, post.y == pre.y, post.dim == pre.dim,
        post.table@ == pre.table@.update(pre.idx(i + 1, j + 1), r),
    ensures
        post.shape_ok(), post.boundary_ok(), post.cols_done(i), post.col_part(i + 1, j + 1),
{
    reveal(Alignment::top_ok); reveal(Alignment::side_ok); reveal(Alignment::inner_ok);
    let d = pre.xl() + 1;
    let t = pre.idx(i + 1, j + 1);
    lemma_idx_bound(i + 1, j + 1, d, pre.yl() + 1);
    // all other cells are untouched
    assert forall|i2: int, j2: int| 0 <= i2 <= pre.xl() && 0 <= j2 <= pre.yl() && !(i2 == i + 1 && j2 == j + 1)
        implies post.cell(i2, j2) == pre.cell(i2, j2) by {
        lemma_idx_bound(i2, j2, d, pre.yl() + 1);
        if pre.idx(i2, j2) == t { lemma_idx_inj(i2, j2, i + 1, j + 1, d); }
    }
    assert(post.cell(i + 1, j + 1) == r);
    assert(post.table@[0] == pre.table@[0]) by { assert(post.cell(0, 0) == pre.cell(0, 0)); }
    assert forall|i2: int| 1 <= i2 <= post.xl() implies #[trigger] post.top_ok(i2) by {
        assert(pre.top_ok(i2)); assert(post.cell(i2, 0) == pre.cell(i2, 0));
    }
    assert forall|j2: int| 1 <= j2 <= post.yl() implies #[trigger] post.side_ok(j2) by {
        assert(pre.side_ok(j2)); assert(post.cell(0, j2) == pre.cell(0, j2));
    }
    assert forall|i2: int, j2: int| 1 <= i2 <= i && 1 <= j2 <= post.yl() implies #[trigger] post.inner_ok(i2, j2) by {
        assert(pre.inner_ok(i2, j2)); assert(post.cell(i2, j2) == pre.cell(i2, j2));
    }
    assert forall|j2: int| 1 <= j2 <= j implies #[trigger] post.inner_ok(i + 1, j2) by {
        assert(pre.inner_ok(i + 1, j2)); assert(post.cell(i + 1, j2) == pre.cell(i + 1, j2));
    }
    // the three neighbours
    lemma_idx_bound(i + 1, j, d, pre.yl() + 1);
    lemma_idx_bound(i, j + 1, d, pre.yl() + 1);
    lemma_idx_bound(i, j, d, pre.yl() + 1);
    let up = pre.cell(i + 1, j);
    let left = pre.cell(i, j + 1);
    let diag = pre.cell(i, j);
    if j == 0 { assert(pre.top_ok(i + 1)); } else { assert(pre.inner_ok(i + 1, j)); }
    if i == 0 { assert(pre.side_ok(j + 1)); } else { assert(pre.inner_ok(i, j + 1)); }
    if i == 0 && j == 0 { } else if j == 0 { assert(pre.top_ok(i)); } else if i == 0 { assert(pre.side_ok(j)); } else { assert(pre.inner_ok(i, j)); }
    assert(cands[0].cost < usize::MAX);
    assert(post.inner_ok(i + 1, j + 1));
}


// ---------------------------------------------------------------- reading the operations back
/// `ops` applied from token positions (a, b) consumes both token sequences exactly, and every NoOp
/// stands between two equal tokens: removing the Deletion tokens from x and the Insertion tokens
/// from y leaves the same token sequence.
pub open spec fn script_ok(ops: Seq<Operation>, x: Seq<&str>, y: Seq<&str>, a: int, b: int) -> bool
    decreases ops.len()
{
    if ops.len() == 0 { a == x.len() && b == y.len() }
    else {
        match ops[0] {
            NoOp => 0 <= a < x.len() && 0 <= b < y.len() && x[a]@ == y[b]@ && script_ok(ops.drop_first(), x, y, a + 1, b + 1),
            Deletion => 0 <= a < x.len() && script_ok(ops.drop_first(), x, y, a + 1, b),
            Insertion => 0 <= b < y.len() && script_ok(ops.drop_first(), x, y, a, b + 1),
        }
    }
}
/// the table position an operation came from
pub open spec fn pred_pos(op: Operation, i: int, j: int) -> (int, int) {
    match op { NoOp => (i - 1, j - 1), Deletion => (i - 1, j), Insertion => (i, j - 1) }
}
pub proof fn lemma_script_push(ops: Seq<Operation>, nops: Seq<Operation>, op: Operation, x: Seq<&str>, y: Seq<&str>, i: int, j: int)
    requires
        script_ok(ops, x, y, i, j), nops =~= seq![op] + ops,
        ({ let p = pred_pos(op, i, j); 0 <= p.0 && 0 <= p.1 && i <= x.len() && j <= y.len() && (op == NoOp ==> x[p.0]@ == y[p.1]@) }),
    ensures script_ok(nops, x, y, pred_pos(op, i, j).0, pred_pos(op, i, j).1),
{
    assert(nops.drop_first() =~= ops);
    assert(nops[0] == op);
}
/// one step back along the parent chain of an interior cell
pub proof fn lemma_step_back(a: &Alignment, i: int, j: int)
    requires a.filled(), 1 <= i <= a.xl(), 1 <= j <= a.yl(),
    ensures ({
        let c = a.cell(i, j);
        let p = pred_pos(c.operation, i, j);
        &&& c.parent == a.idx(p.0, p.1)
        &&& 0 <= p.0 && 0 <= p.1
        &&& (c.operation == NoOp ==> a.tok_eq(p.0, p.1))
        &&& (c.parent == 0 <==> (p.0 == 0 && p.1 == 0))
        &&& (c.parent != 0 ==> p.0 >= 1 && p.1 >= 1)
        &&& 0 <= c.parent < a.table@.len()
        &&& 0 <= a.idx(i, j) < a.table@.len()
    }),
{
    reveal(Alignment::inner_ok);
    assert(a.inner_ok(i, j));
    let c = a.cell(i, j);
    let p = pred_pos(c.operation, i, j);
    let d = a.xl() + 1;
    lemma_idx_bound(i, j, d, a.yl() + 1);
    lemma_idx_bound(p.0, p.1, d, a.yl() + 1);
    if p.1 >= 1 { assert(p.1 * d >= d) by(nonlinear_arith) requires p.1 >= 1, d > 0; }
}
/// ASSUMED contract of `Vec::from(VecDeque)`: same elements, same order.
pub assume_specification<T, A: std::alloc::Allocator>[ <Vec<T, A> as From<std::collections::VecDeque<T, A>>>::from ](v: std::collections::VecDeque<T, A>) -> (r: Vec<T, A>)
    ensures r@ == v@;
// str::eq_ignore_ascii_case: "Checks that two strings are an ASCII case-insensitive match." (not used by delta; named
// here so that a comparison of tokens that is looser than equality is decided by the obligations, not by the front end)
pub uninterp spec fn eq_ignoring_ascii_case(a: Seq<char>, b: Seq<char>) -> bool;
pub assume_specification[ str::eq_ignore_ascii_case ](a: &str, b: &str) -> (r: bool)
    ensures r == eq_ignoring_ascii_case(a@, b@), a@ == b@ ==> r;

impl<'a> Alignment<'a> {
    //@ fn src/align.rs Alignment::index
    //@| requires self.shape_ok(), i <= self.xl(), j <= self.yl(),
    //@| ensures r == self.idx(i as int, j as int), r < self.table@.len(),  // @C03:align.index.inside.the.table
    //@before <<<j * >>>| proof { lemma_idx_bound(i as int, j as int, self.xl() + 1, self.yl() + 1); }

    //@ fn src/align.rs Alignment::mismatch_cost
    //@| requires parent < self.table@.len(), self.table@[parent as int].cost + basic_cost + ${PC} <= usize::MAX,
    //@| ensures r == self.table@[parent as int].cost + basic_cost + pen(self.table@[parent as int]),  // @C06:mismatch.cost.adds.the.penalty.for.starting.a.new.run

    //@ fn src/align.rs Alignment::fill
    //@| requires old(self).shape_ok(), old(self).origin_ok(),
    //@|          old(self).xl() >= 1, old(self).yl() >= 1, old(self).tok_eq(0, 0),
    //@| ensures final(self).filled(), final(self).x == old(self).x, final(self).y == old(self).y,  // @C06:align.table.parents.are.neighbours.and.noop.joins.equal.tokens
    //@rewrite <<<candidates .iter() .min_by_key(|cell| cell.cost) .unwrap() .clone()>>> => <<<verif_first_min_by_cost(&candidates)>>>
    //@loop 1| invariant self.shape_ok(), self.origin_ok(), self.x == old(self).x, self.y == old(self).y,
    //@loop 1|     forall|i2: int| 1 <= i2 < i ==> #[trigger] self.top_ok(i2),
    //@loop 2| invariant self.shape_ok(), self.origin_ok(), self.x == old(self).x, self.y == old(self).y,
    //@loop 2|     forall|i2: int| 1 <= i2 <= self.xl() ==> #[trigger] self.top_ok(i2),
    //@loop 2|     forall|j2: int| 1 <= j2 < j ==> #[trigger] self.side_ok(j2),
    //@loop 3| invariant self.shape_ok(), self.boundary_ok(), self.x == old(self).x, self.y == old(self).y,
    //@loop 3|     self.xl() >= 1, self.yl() >= 1, self.tok_eq(0, 0), self.cols_done(i as int),
    //@loop 4| invariant self.shape_ok(), self.boundary_ok(), self.x == old(self).x, self.y == old(self).y,
    //@loop 4|     self.xl() >= 1, self.yl() >= 1, self.tok_eq(0, 0), self.cols_done(i as int), self.col_part(i + 1, j as int),
    //@loop 4|     0 <= i < self.xl(), *x_i == self.x@[i as int],
    //@before <<<self.table[i] = >>>| let ghost pre1 = *self; proof { lemma_idx_bound(i as int, 0, self.xl() + 1, self.yl() + 1); }
    //@afterstmt <<<self.table[i] = >>>| proof { lemma_top_step(&pre1, &*self, i as int); }
    //@before <<<self.table[j * self.dim[1]] = >>>| let ghost pre2 = *self; proof { lemma_idx_bound(0, j as int, self.xl() + 1, self.yl() + 1); }
    //@afterstmt <<<self.table[j * self.dim[1]] = >>>| proof { lemma_side_step(&pre2, &*self, j as int); }
    //@before <<<let (left, diag, up) =>>>| proof { lemma_neighbours(&*self, i as int, j as int); }
    //@before <<<self.table[index] = >>>| let ghost pre4 = *self;
    //@afterstmt <<<self.table[index] = >>>| proof { lemma_fill_step(&pre4, &*self, i as int, j as int, candidates@, self.table@[index as int]); }

    //@ fn src/align.rs Alignment::new
    //@| requires x@.len() >= 1, y@.len() >= 1, x@[0]@ == y@[0]@,
    //@|          (y@.len() + 1) * (x@.len() + 1) <= usize::MAX, ${DC} * (x@.len() + 1) + ${IC} * (y@.len() + 1) + 2 * ${PC} + 2 <= usize::MAX,
    //@| ensures r.filled(), r.x == x, r.y == y,  // @C06:a.new.alignment.is.a.filled.table.over.the.two.token.sequences
    //@before <<<let dim = >>>| proof { assert((y@.len() + 1) * (x@.len() + 1) >= 1) by(nonlinear_arith); }
    //@rewrite <<<vec![ Cell { parent: 0, operation: NoOp, cost: 0 }; dim[0] * dim[1] ]>>> => <<<verif_vec_repeat(Cell { parent: 0, operation: NoOp, cost: 0 }, dim[0] * dim[1])>>>

    //@ fn src/align.rs Alignment::operations
    //@| requires self.filled(), self.xl() >= 1, self.yl() >= 1,
    //@| ensures script_ok(r@, self.x@, self.y@, 0, 0),  // @C06:align.operations.are.an.edit.script.whose.noops.join.equal.tokens
    //@before <<<loop {>>>| let ghost mut gi: int = self.xl(); let ghost mut gj: int = self.yl();
    //@loop 1| invariant_except_break 1 <= gi <= self.xl(), 1 <= gj <= self.yl(), *cell == self.cell(gi, gj), script_ok(ops@, self.x@, self.y@, gi, gj),
    //@loop 1| invariant self.filled(),
    //@loop 1| ensures script_ok(ops@, self.x@, self.y@, 0, 0),
    //@loop 1| decreases gi + gj,
    //@before <<<ops.push_front(cell.operation);>>>| let ghost ops0 = ops@;
    //@afterstmt <<<ops.push_front(cell.operation);>>>| proof { lemma_step_back(self, gi, gj); lemma_script_push(ops0, ops@, cell.operation, self.x@, self.y@, gi, gj); let p = pred_pos(cell.operation, gi, gj); gi = p.0; gj = p.1; }

    //@ fn src/align.rs Alignment::coalesced_operations
    //@| requires self.filled(), self.xl() >= 1, self.yl() >= 1,
    //@| ensures script_ok(rle_expand(r@), self.x@, self.y@, 0, 0),  // @C06:coalesced.operations.still.are.the.edit.script
    //@|         rle_runs_ok(r@),
    //@before <<<run_length_encode(self.operations())>>>| proof { axiom_operation_eq(); }
}
/// `==` / `!=` on T decide spec equality (true of the derived PartialEq of a field-less enum)
pub open spec fn eq_is_structural<T: PartialEq>() -> bool {
    T::obeys_eq_spec() && forall|a: T, b: T| #[trigger] a.eq_spec(&b) <==> a == b
}
/// ASSUMED: `#[derive(PartialEq)]` on the field-less enum `Operation` compares the variants.
pub axiom fn axiom_operation_eq()
    ensures eq_is_structural::<Operation>();
/// what a run-length encoding stands for
pub open spec fn rle_expand<T>(e: Seq<(T, usize)>) -> Seq<T>
    decreases e.len()
{
    if e.len() == 0 { Seq::empty() } else { rle_expand(e.drop_last()) + Seq::new(e.last().1 as nat, |k: int| e.last().0) }
}
/// runs are non-empty and maximal (neighbouring runs carry different values)
pub open spec fn rle_runs_ok<T>(e: Seq<(T, usize)>) -> bool {
    &&& forall|k: int| 0 <= k < e.len() ==> (#[trigger] e[k]).1 >= 1
    &&& forall|k: int| 0 <= k < e.len() - 1 ==> (#[trigger] e[k]).0 != e[k + 1].0
}
pub proof fn lemma_rle_push<T>(e: Seq<(T, usize)>, v: T, n: usize, s: Seq<T>, i: int, j: int)
    requires
        rle_expand(e) =~= s.subrange(0, i), rle_runs_ok(e), 0 <= i < j <= s.len(), n == j - i,
        forall|k: int| i <= k < j ==> #[trigger] s[k] == v,
        e.len() > 0 ==> e.last().0 != v,
    ensures
        rle_expand(e.push((v, n))) =~= s.subrange(0, j), rle_runs_ok(e.push((v, n))),
{
    let e2 = e.push((v, n));
    assert(e2.drop_last() =~= e);
    assert(e2.last() == (v, n));
}
//@ fn src/align.rs run_length_encode
//@| requires eq_is_structural::<T>(),
//@| ensures rle_expand(r@) =~= sequence@,  // @C06:coalescing.operations.loses.nothing
//@|         rle_runs_ok(r@),  // @C06:coalesced.runs.are.maximal
//@loop 1| invariant eq_is_structural::<T>(), 0 <= i < j <= end, end == sequence@.len(), *curr == sequence@[i as int],
//@loop 1|     forall|k: int| i <= k < j ==> #[trigger] sequence@[k] == sequence@[i as int],
//@loop 1|     rle_expand(encoded@) =~= sequence@.subrange(0, i as int), rle_runs_ok(encoded@),
//@loop 1|     encoded@.len() > 0 ==> encoded@.last().0 != sequence@[i as int],
//@loop 1| decreases end - j,
//@before <<<encoded.push(>>>| proof { lemma_rle_push(encoded@, *curr, (j - i) as usize, sequence@, i as int, j as int); }

// ---------------------------------------------------------------- edits.rs annotate: the tags given to a common (NoOp) section
/// `str::trim` ("Returns a string slice with leading and trailing whitespace removed"); uninterpreted
pub uninterp spec fn trim_spec(s: Seq<char>) -> Seq<char>;
pub assume_specification[ str::trim ](s: &str) -> (r: &str)
    ensures r@ == trim_spec(s@);
/// C06 "deleting the emphasised parts from both leaves the same text": a section that is common to both lines is
/// tagged as changed on the removed line exactly when it is tagged as changed on the added line (only a run of
/// whitespace between two changes may be), and common text that is not whitespace is never tagged as changed
//@ region src/edits.rs annotate
//@sig pub fn annotate_noop_section_tags<'a, Annotation: Copy + PartialEq>(minus_section: &'a str, minus_op_prev: Annotation, plus_op_prev: Annotation, noop_deletion: Annotation, deletion: Annotation, noop_insertion: Annotation, insertion: Annotation, x_offset: usize, y_offset: usize, alignment: &Alignment<'a>, annotated_minus_line: &mut Vec<(Annotation, &'a str)>) -> (op: Annotation)
//@from <<<let is_space = minus_section.trim().is_empty();>>>
//@until <<<let plus_section = plus_section(n, &mut y_offset); if let Some(non_whitespace)>>>
//@tail op
//@| requires eq_is_structural::<Annotation>(),
//@|     alignment.x@.len() >= 1, alignment.y@.len() >= 1,  // (every token sequence starts with the empty token: tokenize)
//@|     deletion != noop_deletion, insertion != noop_insertion,
//@|     minus_op_prev == deletion || minus_op_prev == noop_deletion, plus_op_prev == insertion || plus_op_prev == noop_insertion,
//@| ensures final(annotated_minus_line)@.len() == old(annotated_minus_line)@.len() + 1,
//@|     final(annotated_minus_line)@.drop_last() == old(annotated_minus_line)@,
//@|     final(annotated_minus_line)@.last().1 == minus_section,  // @C06:the.common.section.is.kept.on.the.removed.line
//@|     (final(annotated_minus_line)@.last().0 == deletion) == (op == insertion),  // @C06:a.common.section.is.emphasised.on.both.lines.or.on.neither
//@|     final(annotated_minus_line)@.last().0 == deletion || final(annotated_minus_line)@.last().0 == noop_deletion,
//@|     op == insertion || op == noop_insertion,
//@|     trim_spec(minus_section@).len() > 0 ==> final(annotated_minus_line)@.last().0 == noop_deletion && op == noop_insertion,  // @C06:common.text.that.is.not.whitespace.is.never.emphasised

} // verus!
fn main() {}
