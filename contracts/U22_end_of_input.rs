//@ include prelude/header.rs
//@ unit U22 delta.rs consume: what happens when the input ends (C01, C11): nothing stays in any buffer, an open conflict region is painted
verus! {
//@ set PAINTER_EXTRA ,highlighter
//@ include prelude/sm_env.rs

pub open spec fn mp_known(mp: MergeParents) -> bool { !(mp is Unknown) }
pub open spec fn mc_empty(m: &MergeConflictLines) -> bool { m.ours@.len() == 0 && m.ancestral@.len() == 0 && m.theirs@.len() == 0 }
pub open spec fn mc_state_parents_known(s: State) -> bool {
    match s { State::MergeConflict(mp, _) => mp_known(mp), _ => true }
}
impl<'p> Painter<'p> {
    //@ stub src/paint.rs Painter::emit spec=paint.emit
    //@ stub src/paint.rs Painter::paint_buffered_minus_and_plus_lines spec=paint.paint_buffered_minus_and_plus_lines
}
impl<'a> StateMachine<'a> {
    //@ stub src/handlers/diff_header.rs StateMachine::handle_pending_line_with_diff_name spec=diff_header.handle_pending
    // verified against (a stronger form of) this contract in U21
    //@ stub src/handlers/merge_conflict.rs StateMachine::paint_buffered_merge_conflict_lines spec=merge.paint_buffered_merge_conflict_lines
    // verified against this contract in U06
    //@ stub src/handlers/submodule.rs StateMachine::handle_pending_submodule_short_commit spec=misc.pending_submodule optional=1
    // verified against this contract in U05
    //@ stub src/handlers/hunk_header.rs StateMachine::handle_pending_hunk_header_line spec=hunk_header.pending optional=1
    // verified against a stronger contract in U14
    //@ stub src/delta.rs StateMachine::ingest_line
    //@| ensures final(self).state == old(self).state && final(self).painter == old(self).painter && final(self).config == old(self).config,
    //@|         final(self).source == old(self).source && final(self).minus_line_counter == old(self).minus_line_counter,
    //@ fn src/handlers/merge_conflict.rs StateMachine::handle_unterminated_merge_conflict optional=1 spec=merge.handle_unterminated

    // the statements of `consume` after its loop: what happens when the input ends
    //@ region src/delta.rs StateMachine::consume
    //@sig pub fn consume_end_of_input(&mut self) -> (r: std::io::Result<()>)
    //@fromafter <<<|| self.emit_line_unchanged()?; }>>>
    //@to <<<Ok(())>>>
    //@| requires mc_state_parents_known(old(self).state), srcinv(old(self)), sm_wf(old(self)),
    //@| ensures r.is_ok() ==> final(self).painter.minus_lines@.len() == 0 && final(self).painter.plus_lines@.len() == 0 && final(self).painter.output_buffer@.len() == 0,  // @C01,C11:at.the.end.of.the.input.nothing.is.left.in.the.buffers
    //@|         r.is_ok() && old(self).state is MergeConflict ==> mc_empty(&final(self).painter.merge_conflict_lines),  // @C01:at.the.end.of.the.input.an.open.conflict.region.has.been.painted
    //@|         r.is_ok() ==> !(final(self).state is SubmoduleShort),  // @C01:at.the.end.of.the.input.no.submodule.commit.is.held.back
    //@|         r.is_ok() ==> !(final(self).state is HunkHeader),  // @C02,C14:at.the.end.of.the.input.no.hunk.header.is.held.back

    // the statements of the loop body of `consume` before the handler chain: what happens before a line is offered to the handlers
    //@ region src/delta.rs StateMachine::consume
    //@sig pub fn consume_line_prologue(&mut self, raw_line_bytes: &[u8]) -> (r: std::io::Result<()>)
    //@from <<<self.ingest_line(raw_line_bytes);>>>
    //@until <<<let _ = self.handle_commit_meta_header_line()?>>>
    //@tail Ok(())
    //@| requires sm_wf(old(self)),
    //@| ensures old(self).source == Source::Unknown && final(self).source == Source::DiffUnified ==> counter_armed(&final(self).minus_line_counter),  // @C01,C10:in.a.plain.unified.diff.the.disambiguation.of.three.dash.lines.is.switched.on.whatever.its.first.line.is
    //@|         old(self).source != Source::Unknown ==> final(self).source == old(self).source,  // @C10,C14:once.the.kind.of.input.is.known.it.is.not.looked.for.again.a.later.line.cannot.turn.a.git.diff.into.a.plain.one
    //@|         old(self).source == Source::Unknown && is_prefix("diff --git "@, final(self).line@) ==> final(self).source == Source::GitDiff,  // @C10,C14:the.kind.of.input.is.looked.for.at.every.line.until.it.is.known
    //@|         r.is_ok() ==> (final(self).state is HunkHeader ==> is_prefix("-Subproject commit "@, final(self).line@)),  // @C02,C14:a.hunk.header.is.held.back.only.while.the.next.line.may.be.a.submodule.commit
    //@|         r.is_ok() ==> (final(self).state is SubmoduleShort ==> is_prefix("+Subproject commit "@, final(self).line@)),  // @C01:a.submodule.commit.is.held.back.only.while.the.next.line.is.its.partner
    //@|         old(self).state is HunkHeader && is_prefix("-Subproject commit "@, final(self).line@) ==> r.is_ok() && final(self).state == old(self).state && final(self).painter == old(self).painter,  // @C14:while.lines.are.still.coming.a.hunk.header.stays.held.back.when.a.submodule.commit.line.follows.the.commit.range.is.shown.in.its.place
    //@|         old(self).state is SubmoduleShort && is_prefix("+Subproject commit "@, final(self).line@) ==> r.is_ok() && final(self).state == old(self).state && final(self).painter == old(self).painter,  // @C01:while.lines.are.still.coming.a.submodule.commit.stays.held.back.when.its.partner.line.follows.the.pair.is.written.once.as.a.range
}
//@ stub src/delta.rs detect_source spec=delta.detect_source
/// the counter that tells a removed line `-- x` from a `--- file` header is switched on (U30 proves of the real
/// prepare_to_count: `needed() && !counting()`, and that counting lines never switches it off)
pub uninterp spec fn counter_armed(c: &AmbiguousDiffMinusCounter) -> bool;
impl AmbiguousDiffMinusCounter {
    //@ stub src/handlers/hunk_header.rs AmbiguousDiffMinusCounter::prepare_to_count
    //@| ensures counter_armed(&r),
}

// ---------------------------------------------------------------- config.rs: the buffer limit is the number the user gave
//@ type src/cli.rs Opt keep=line_buffer_size,max_line_length noderive
//@ region src/config.rs Config@From::from
//@sig pub fn config_line_buffer_size(opt: &cli::Opt) -> (r: usize)
//@fromafter <<<line_buffer_size:>>>
//@until <<<max_line_distance:>>>
//@| ensures r == opt.line_buffer_size,  // @C11:the.configured.buffer.limit.is.the.option.value

} // verus!
fn main() {}
