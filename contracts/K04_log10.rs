// K04 format.rs log10_plus_1 (C03): the number of decimal digits of a line number - the width the number column is centred
// with - is exact for EVERY usize, the loop terminates and nothing overflows.
// Engine: Kani function contract over ALL usize values. The function has a loop: it takes four digits off per round, a 64-bit
// number has at most 20, so 7 unwindings (with Kani's unwinding assertion on: exceeding them would FAIL) make this complete.
// kani: harness=check_log10_plus_1 fn=log10_plus_1 inputs=n0:usize loops=unwind(7)

pub const POW10: [u128; 21] = [1, 10, 100, 1_000, 10_000, 100_000, 1_000_000, 10_000_000, 100_000_000, 1_000_000_000, 10_000_000_000,
    100_000_000_000, 1_000_000_000_000, 10_000_000_000_000, 100_000_000_000_000, 1_000_000_000_000_000, 10_000_000_000_000_000,
    100_000_000_000_000_000, 1_000_000_000_000_000_000, 10_000_000_000_000_000_000, 100_000_000_000_000_000_000];
/// r is the number of decimal digits of n (0 has one digit)
pub fn digits_ok(n: u128, r: usize) -> bool { r >= 1 && r <= 20 && (r == 1 || n >= POW10[r - 1]) && n < POW10[r] }

#[cfg_attr(kani, kani::ensures(|r: &usize| digits_ok(n as u128, *r)))]  // @C03:log10_plus_1.comes.back.for.every.number.with.its.number.of.decimal.digits.and.never.overflows
//@ fn src/format.rs log10_plus_1 plain=1

#[cfg(kani)]
#[kani::proof_for_contract(log10_plus_1)]
#[kani::unwind(7)]
fn check_log10_plus_1() {
    let n0: usize = kani::any();
    log10_plus_1(n0);
}

#[cfg(not(kani))]
fn main() {
    // replay: the argument is the bit pattern (binary) of Kani's counterexample
    let a: Vec<usize> = std::env::args().skip(1).map(|s| u64::from_str_radix(&s, 2).expect("bit pattern") as usize).collect();
    let n0 = a[0];
    let r = std::panic::catch_unwind(|| log10_plus_1(n0));
    match r {
        Err(_) => { println!("log10_plus_1({}) PANICKED on the real function", n0); std::process::exit(1); }
        Ok(w) => {
            println!("log10_plus_1({}) = {}", n0, w);
            let ok = digits_ok(n0 as u128, w);
            println!("{}", if ok { "postcondition holds" } else { "postcondition VIOLATED on the real function" });
            std::process::exit(if ok { 0 } else { 1 });
        }
    }
}
#[cfg(kani)]
fn main() {}
