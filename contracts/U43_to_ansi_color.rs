//@ include prelude/header.rs
//@ unit U43 utils/bat/terminal.rs to_ansi_color: a colour is shown as given - 24 bits when the terminal has them, the nearest of the 256 otherwise; palette numbers and "terminal default" pass through (C12, C15)
verus! {
//@ include prelude/base.rs
//@ include prelude/ansi_term.rs
pub use crate::AtColour as Color;
pub use crate::AtColour::{Fixed, RGB};
/// mirror of `syntect::highlighting::Color` (plain data: four bytes)
#[derive(Clone, Copy, PartialEq, Eq, Structural)]
pub struct SyntectColor { pub r: u8, pub g: u8, pub b: u8, pub a: u8 }
pub mod highlighting { pub use crate::SyntectColor as Color; }
/// crate `ansi_colours`: the palette entry nearest to a 24-bit colour; uninterpreted
pub uninterp spec fn nearest_of_256(r: u8, g: u8, b: u8) -> u8;
pub mod ansi_colours {
    use vstd::prelude::*;
    use crate::*;
    #[verifier::external_body]
    pub fn ansi256_from_rgb(rgb: (u8, u8, u8)) -> (n: u8) ensures n == nearest_of_256(rgb.0, rgb.1, rgb.2) { unimplemented!() }
}
/// what the colour language of delta and of the themes says a colour value means on this terminal
pub open spec fn shown_colour(c: SyntectColor, true_color: bool) -> Option<Color> {
    if c.a == 0 {
        // "#RRGGBB00": the palette colour number RR; the first eight have names
        Some(if c.r == 0 { Color::Black } else if c.r == 1 { Color::Red } else if c.r == 2 { Color::Green } else if c.r == 3 { Color::Yellow }
             else if c.r == 4 { Color::Blue } else if c.r == 5 { Color::Purple } else if c.r == 6 { Color::Cyan } else if c.r == 7 { Color::White }
             else { Color::Fixed(c.r) })
    } else if c.a == 1 {
        None  // "#RRGGBB01": the terminal's own default colour, no escape sequence
    } else if true_color {
        Some(Color::RGB(c.r, c.g, c.b))
    } else {
        Some(Color::Fixed(nearest_of_256(c.r, c.g, c.b)))
    }
}
//@ fn src/utils/bat/terminal.rs to_ansi_color
//@| ensures r == shown_colour(color, true_color),  // @C12,C15:a.24.bit.colour.is.shown.exactly.when.the.terminal.can.else.as.the.nearest.of.the.256.palette.numbers.and.terminal.default.pass.through
//@|         color.a >= 2 && true_color ==> r == Some(Color::RGB(color.r, color.g, color.b)),  // @C12:with.true.colour.no.channel.of.a.24.bit.colour.is.changed

// ---------------------------------------------------------------- utils/syntect.rs: the way back (a delta colour as a syntect colour)
/// (R3) `Color::from_str(&format!("#{n:02x}000000")).ok()` - syntect's parser of "#RRGGBBAA". ASSUMED: it reads two hex digits per channel.
#[verifier::external_body]
pub fn syntect_color_from_ansi_number(n: u8) -> (r: Option<SyntectColor>)
    ensures r == Some(SyntectColor { r: n, g: 0, b: 0, a: 0 }),
{ unimplemented!() }
/// palette numbers 0-7 and the eight colour names are the same colours (U08 `ansi_term_style_equality` treats them as equal)
pub open spec fn named(c: Color) -> Color {
    match c {
        Color::Fixed(0) => Color::Black, Color::Fixed(1) => Color::Red, Color::Fixed(2) => Color::Green, Color::Fixed(3) => Color::Yellow,
        Color::Fixed(4) => Color::Blue, Color::Fixed(5) => Color::Purple, Color::Fixed(6) => Color::Cyan, Color::Fixed(7) => Color::White,
        _ => c,
    }
}
pub trait FromAnsiTermColor { fn from_ansi_term_color(ansi_term_color: ansi_term::Color) -> Self where Self: Sized; }
impl FromAnsiTermColor for SyntectColor {
    // the round trip: to_ansi_color(from_ansi_term_color(c), true) == Some(c), stated over the two contracts
    //@ fn src/utils/syntect.rs Color@FromAnsiTermColor::from_ansi_term_color vis=keep
    //@| ensures shown_colour(r, true) == Some(named(ansi_term_color)),  // @C12,C15:a.configured.colour.handed.to.the.highlighter.as.a.syntect.colour.comes.back.as.the.same.colour.palette.numbers.0.to.7.as.their.names
}

} // verus!
fn main() {}
