//@ include prelude/header.rs
//@ unit U03 delta.rs: detect_source, should_skip_line, should_handle, emit_line_unchanged, format_raw_line (C04, C02, C01)
verus! {
//@ include prelude/sm_env.rs



impl Config {
    //@ fn src/config.rs Config::get_style spec=config.get_style
}

//@ stub src/features/hyperlinks.rs format_commit_line_with_osc8_commit_hyperlink spec=hyperlinks.format_commit_line

impl<'p> Painter<'p> {
    //@ stub src/paint.rs Painter::emit spec=paint.emit
}

//@ fn src/delta.rs detect_source spec=delta.detect_source

//@ fn src/delta.rs format_raw_line spec=delta.format_raw_line
//@rewrite <<<io::stdout().is_terminal()>>> => <<<verif_stdout_is_terminal()>>>

impl<'a> StateMachine<'a> {
    //@ fn src/delta.rs StateMachine::should_handle spec=delta.should_handle
    //@ fn src/delta.rs StateMachine::should_skip_line spec=delta.should_skip_line
    //@ fn src/delta.rs StateMachine::emit_line_unchanged spec=delta.emit_line_unchanged
    //@before <<<let handled_line =>>>| proof { lemma_hist_lines_push(old(self).painter.writer.hist().push(Ev::Flush(old(self).painter.output_buffer@)), Ev::Text(frl_spec(self.raw_line@, self.config), true)); }
}

} // verus!
fn main() {}
