//@ include prelude/header.rs
//@ unit U38 handlers/grep.rs parse_grep_line / parse_raw_grep_line: a line of plain text is taken for grep output only when delta was called by a grep (C04, C16)
verus! {
//@ include prelude/base.rs
//@ include prelude/std_assumed.rs
//@ shims process ripgrep_json
//@ broadcast vax::vax_group axiom_ascii_suffix_boundary axiom_ascii_suffix_one_byte
#[verifier::external_body]
pub struct CommandLine { _p: u8 }
//@ type src/utils/process.rs CallingProcess noderive
#[verifier::external_body]
pub struct GrepLine<'b> { _p: std::marker::PhantomData<&'b ()> }
#[verifier::external_body]
pub struct Regex { _p: u8 }

/// the process that called delta, as determined by utils::process (U16 has that mechanism under contract); a fixed fact of the run
pub uninterp spec fn the_calling_process() -> CallingProcess;
/// (R3) `&*process::calling_process()` (a MutexGuard)
#[verifier::external_body]
pub fn verif_calling_process() -> (r: CallingProcess) ensures r == the_calling_process() { unimplemented!() }
pub open spec fn grep_caller(cp: CallingProcess) -> bool { cp is GitGrep || cp is OtherGrep }
/// (R3) the lazy_static regexes of the plain-text formats (1..4) and of coloured output (5)
#[verifier::external_body]
pub fn verif_rx(k: u8) -> (r: &'static Regex) { unimplemented!() }
#[verifier::external_body]
pub fn _parse_grep_line<'b>(regex: &Regex, line: &'b str) -> (r: Option<GrepLine<'b>>) { unimplemented!() }
/// ripgrep_json::parse_line: the serde decoding of an rg --json record
#[verifier::external_body]
pub fn parse_line<'b>(line: &'b str) -> (r: Option<GrepLine<'b>>) ensures r == json_spec(line@) { unimplemented!() }
pub uninterp spec fn json_spec<'b>(line: Seq<char>) -> Option<GrepLine<'b>>;
pub uninterp spec fn plain_spec<'b>(line: Seq<char>) -> Option<GrepLine<'b>>;
pub uninterp spec fn coloured_spec<'b>(raw_line: Seq<char>) -> Option<GrepLine<'b>>;
/// what parse_grep_line / parse_raw_grep_line answer
pub open spec fn plain_result<'b>(line: Seq<char>) -> Option<GrepLine<'b>> {
    if is_prefix(seq!['{'], line) && json_spec(line) is Some { json_spec(line) } else if grep_caller(the_calling_process()) { plain_spec(line) } else { None }
}
pub open spec fn raw_result<'b>(raw_line: Seq<char>) -> Option<GrepLine<'b>> {
    if !is_prefix(seq!['\x1b'], raw_line) || !grep_caller(the_calling_process()) { None } else { coloured_spec(raw_line) }
}
/// (R3) `[rx1, rx2, rx3, rx4].iter().find_map(|regex| _parse_grep_line(regex, line))`
#[verifier::external_body]
pub fn verif_try_plain_regexes<'b>(line: &'b str) -> (r: Option<GrepLine<'b>>) ensures r == plain_spec(line@) { unimplemented!() }
/// (R3) `_parse_grep_line(&GREP_LINE_REGEX_ASSUMING_COLOR, raw_line).map(|mut g| { g.code = strip(g.code); g })`
#[verifier::external_body]
pub fn verif_parse_coloured<'b>(raw_line: &'b str) -> (r: Option<GrepLine<'b>>) ensures r == coloured_spec(raw_line@) { unimplemented!() }

//@ fn src/handlers/grep.rs parse_grep_line
//@| ensures !is_prefix(seq!['{'], line@) && !grep_caller(the_calling_process()) ==> r is None,  // @C04,C16:text.that.merely.looks.like.a.grep.hit.is.left.alone.unless.delta.was.called.by.a.grep
//@|         r == plain_result(line@),
//@|         grep_caller(the_calling_process()) && json_spec(line@) is None ==> r == plain_spec(line@),  // @C16:a.plain.grep.line.is.read.as.one.whatever.its.first.character.also.when.its.path.starts.with.a.brace
//@rewriteall <<<&*process::calling_process()>>> => <<<&verif_calling_process()>>>
//@rewrite <<<[ &*GREP_LINE_REGEX_ASSUMING_FILE_EXTENSION_AND_LINE_NUMBER, &*GREP_LINE_REGEX_ASSUMING_FILE_EXTENSION_NO_SPACES, &*GREP_LINE_REGEX_ASSUMING_FILE_EXTENSION, &*GREP_LINE_REGEX_ASSUMING_NO_INTERNAL_SEPARATOR_CHARS, ] .iter() .find_map(|regex| _parse_grep_line(regex, line))>>> => <<<verif_try_plain_regexes(line)>>>
//@rewriteall <<<&GREP_LINE_REGEX_ASSUMING_FILE_EXTENSION_AND_LINE_NUMBER>>> => <<<verif_rx(1)>>>
//@rewriteall <<<&GREP_LINE_REGEX_ASSUMING_FILE_EXTENSION_NO_SPACES>>> => <<<verif_rx(2)>>>
//@rewriteall <<<&GREP_LINE_REGEX_ASSUMING_FILE_EXTENSION>>> => <<<verif_rx(3)>>>
//@rewriteall <<<&GREP_LINE_REGEX_ASSUMING_NO_INTERNAL_SEPARATOR_CHARS>>> => <<<verif_rx(4)>>>

//@ fn src/handlers/grep.rs parse_raw_grep_line
//@| ensures !grep_caller(the_calling_process()) ==> r is None,  // @C04,C16:coloured.text.is.taken.for.grep.output.only.when.delta.was.called.by.a.grep
//@|         !is_prefix(seq!['\x1b'], raw_line@) ==> r is None,
//@|         r == raw_result(raw_line@),
//@rewriteall <<<&*process::calling_process()>>> => <<<&verif_calling_process()>>>
//@rewrite <<<_parse_grep_line(&GREP_LINE_REGEX_ASSUMING_COLOR, raw_line).map(|mut grep_line| { grep_line.code = ansi::strip_ansi_codes(&grep_line.code).into(); grep_line })>>> => <<<verif_parse_coloured(raw_line)>>>

// ripgrep_json::parse_line: the code of a record is its text without the line terminator - nothing else is taken off
/// `s` without one trailing "\n" or "\r\n"
pub open spec fn without_line_terminator(s: Seq<char>) -> Seq<char> {
    if is_suffix(seq!['\n'], s) {
        if is_suffix(seq!['\r'], s.drop_last()) { s.drop_last().drop_last() } else { s.drop_last() }
    } else { s }
}
/// a proper prefix of `s` that is at least as long as `s` without its last character IS `s` without its last character
pub proof fn lemma_truncated_by_one(s: Seq<char>, t: Seq<char>)
    requires s.len() >= 1, is_prefix(t, s), is_prefix(s.drop_last(), s) ==> s.drop_last().len() <= t.len(), t != s,
    ensures t == s.drop_last(),
{
    assert(is_prefix(s.drop_last(), s)) by { assert(s.subrange(0, s.len() - 1) == s.drop_last()); }
    if t.len() == s.len() { assert(s.subrange(0, s.len() as int) == s); }
}
//@ region src/handlers/ripgrep_json.rs parse_line
//@sig pub fn rg_json_code_region(text_in: String) -> (code_out: String)
//@fromafter <<<Some(ripgrep_line) => {>>>
//@until <<<Some(grep::GrepLine { grep_type: crate::config::GrepType::Ripgrep, line_type: ripgrep_line._type,>>>
//@tail code
//@| ensures code_out@ == without_line_terminator(text_in@),  // @C16:the.code.of.an.rg.json.record.is.its.text.without.the.line.terminator.and.nothing.else.is.taken.off
//@rewrite <<<ripgrep_line.data.lines.text>>> => <<<text_in>>>
//@before? <<<if code.ends_with('\r') {>>>| proof { lemma_truncated_by_one(text_in@, code@); }
//@after? <<<if code.ends_with('\r') { code.truncate(code.len() - 1);>>>| proof { lemma_truncated_by_one(text_in@.drop_last(), code@); }

// handle_grep_line: which reading of the line is used
//@ region src/handlers/grep.rs StateMachine::handle_grep_line
//@sig pub fn grep_line_reading_region<'b>(raw_line_in: &'b String, line_in: &'b String) -> (r: Option<GrepLine<'b>>)
//@fromafter <<<if !try_parse { return Ok(false); }>>>
//@until <<<if matches!(grep_line.line_type, LineType::Ignore)>>>
//@tail Some(grep_line)
//@| ensures r == (match raw_result(raw_line_in@) { Some(g) => Some(g), None => plain_result(line_in@) }),  // @C16:coloured.grep.output.is.read.by.its.colour.marks.the.plain.text.heuristics.are.only.the.fallback
//@rewriteall <<<self.raw_line.clone()>>> => <<<raw_line_in>>>
//@rewriteall <<<self.line.clone()>>> => <<<line_in>>>
//@rewriteall <<<return Ok(false);>>> => <<<return None;>>>

// handle_grep_line: the language of a hit is the one of ITS file: it is looked up before the highlighter is made
#[verifier::external_body]
pub struct Painter { _p: u8 }
impl Painter {
    /// ghost: the language has been looked up for the path of the line being handled
    pub uninterp spec fn language_is_of_this_path(&self) -> bool;
    /// ghost: the highlighter has been made since the language was last looked up (no parse state of another file or section in it)
    pub uninterp spec fn highlighter_is_fresh(&self) -> bool;
    #[verifier::external_body]
    pub fn set_syntax(&mut self, filename: Option<&str>) ensures final(self).language_is_of_this_path(), !final(self).highlighter_is_fresh() { unimplemented!() }
    #[verifier::external_body]
    pub fn set_highlighter(&mut self) ensures final(self).language_is_of_this_path() == old(self).language_is_of_this_path(), final(self).highlighter_is_fresh() { unimplemented!() }
}
pub struct StateMachine { pub painter: Painter }
/// (R3) `Some(grep_line.path.as_ref())`
#[verifier::external_body]
pub fn verif_path_of<'a>(grep_line: &'a GrepLine<'a>) -> (r: Option<&'a str>) ensures r is Some { unimplemented!() }
impl StateMachine {
    //@ region src/handlers/grep.rs StateMachine::handle_grep_line
    //@sig pub fn grep_language_region<'b>(&mut self, new_path: bool, new_section: bool, grep_line: &'b GrepLine<'b>)
    //@fromafter <<<&& line_number_jump;>>>
    //@until <<<self.state = State::Grep(>>>
    //@| requires new_path ==> !old(self).painter.language_is_of_this_path(),
    //@| ensures new_path || new_section ==> final(self).painter.highlighter_is_fresh(),  // @C15,C16:the.highlighter.is.made.anew.for.every.new.file.and.every.new.section.of.grep.output.no.parse.state.is.carried.over
    //@|         new_path ==> final(self).painter.language_is_of_this_path(),  // @C15,C16:the.hits.of.a.file.are.highlighted.in.the.language.of.that.file
    //@rewrite <<<Some(grep_line.path.as_ref())>>> => <<<verif_path_of(grep_line)>>>
    //@before <<<self.painter.set_highlighter()>>>| assert(/* @C15,C16:the.hits.of.a.file.are.highlighted.in.the.language.of.that.file.it.is.looked.up.before.the.highlighter.is.made */ new_path ==> self.painter.language_is_of_this_path());
}

} // verus!
fn main() {}
