//@ include prelude/header.rs
//@ unit U48 format.rs parse_line_number_format: the fixed text of a number format counts with its DISPLAY width (C07: the text width of a panel is what is left of it)
verus! {
//@ include prelude/base.rs
/// crate unicode-width: the number of terminal columns a string takes; uninterpreted
pub uninterp spec fn display_width(s: Seq<char>) -> nat;
/// crate unicode-segmentation: the number of grapheme clusters - NOT the same thing (a double-width character is one cluster, two columns)
pub uninterp spec fn grapheme_count(s: Seq<char>) -> nat;
pub trait UnicodeWidthStr { fn width(&self) -> usize; }
impl UnicodeWidthStr for str {
    #[verifier::external_body]
    fn width(&self) -> (r: usize) ensures r == display_width(self@) { unimplemented!() }
}
#[verifier::external_body]
pub struct Graphemes { _p: u8 }
impl Graphemes {
    pub uninterp spec fn of(&self) -> Seq<char>;
    #[verifier::external_body]
    pub fn count(self) -> (r: usize) ensures r == grapheme_count(self.of()) { unimplemented!() }
}
pub trait UnicodeSegmentation { fn graphemes(&self, extended: bool) -> Graphemes; }
impl UnicodeSegmentation for str {
    #[verifier::external_body]
    fn graphemes(&self, extended: bool) -> (r: Graphemes) ensures r.of() == self@ { unimplemented!() }
}

//@ region src/format.rs parse_line_number_format
//@sig pub fn number_format_fixed_widths(prefix: &str, suffix_in: &str) -> (r: (usize, usize))
//@fromafter <<<let prefix = SmolStr::new(&format_string[offset..match_.start()]); let prefix = expand_first_prefix(prefix);>>>
//@until <<<format_data.push(FormatStringPlaceholderData { prefix, prefix_len, placeholder:>>>
//@tail (prefix_len, suffix_len)
//@rewrite <<<SmolStr::new(&format_string[match_.end()..])>>> => <<<suffix_in>>>
//@| ensures r.0 == display_width(prefix@) && r.1 == display_width(suffix_in@),  // @C07:the.fixed.text.of.a.number.format.counts.with.its.display.width.a.double.width.character.is.two.columns

} // verus!
fn main() {}
