// K02 wrapping.rs WrapConfig::config_max_line_length (C03, C07): the line length below which input lines are never cut, computed
// from --wrap-max-lines, which accepts ANY number: no arithmetic overflow, and the three cases of the property.
// Engine: Kani function contract, proved by `proof_for_contract` over all usize triples - the function is loop-free, so this is a
// complete proof.  The same file compiles with plain rustc into the replay driver (`main`), which runs the extracted function
// on the inputs of Kani's counterexample (F52: `--wrap-max-lines 9223372036854775807 --side-by-side` panicked).
// kani: harness=check_config_max_line_length fn=config_max_line_length inputs=max_lines:usize,max_line_length:usize,available_terminal_width:usize

//@ type src/wrapping.rs WrapConfig keep=max_lines noderive

pub fn post(max_lines: usize, max_line_length: usize, r: usize) -> bool {
    (max_lines != 1 || r == max_line_length) && (max_lines != 0 || r == 0) && (max_lines <= 1 || r >= max_line_length)
}

impl WrapConfig {
    #[cfg_attr(kani, kani::ensures(|r: &usize| post(self.max_lines, max_line_length, *r)))]  // @C07:without.wrapping.the.configured.length.with.unlimited.rows.no.cut.and.wrapping.never.lowers.the.length
    //@ fn src/wrapping.rs WrapConfig::config_max_line_length plain=1
}

#[cfg(kani)]
#[kani::proof_for_contract(WrapConfig::config_max_line_length)]
fn check_config_max_line_length() {
    let max_lines: usize = kani::any();
    let max_line_length: usize = kani::any();
    let available_terminal_width: usize = kani::any();
    let c = WrapConfig { max_lines };
    c.config_max_line_length(max_line_length, available_terminal_width);
}

#[cfg(not(kani))]
fn main() {
    // replay: the arguments are the bit patterns (binary) of Kani's counterexample
    let a: Vec<usize> = std::env::args().skip(1).map(|s| usize::from_str_radix(&s, 2).expect("bit pattern")).collect();
    let (max_lines, max_line_length, available_terminal_width) = (a[0], a[1], a[2]);
    let c = WrapConfig { max_lines };
    let r = std::panic::catch_unwind(|| c.config_max_line_length(max_line_length, available_terminal_width));
    match r {
        Err(_) => {
            println!("WrapConfig {{ max_lines: {} }}.config_max_line_length({}, {}) PANICKED on the real function", max_lines, max_line_length, available_terminal_width);
            std::process::exit(1);
        }
        Ok(r) => {
            println!("WrapConfig {{ max_lines: {} }}.config_max_line_length({}, {}) = {}", max_lines, max_line_length, available_terminal_width, r);
            let ok = post(max_lines, max_line_length, r);
            println!("{}", if ok { "postcondition holds" } else { "postcondition VIOLATED on the real function" });
            std::process::exit(if ok { 0 } else { 1 });
        }
    }
}
#[cfg(kani)]
fn main() {}
