//@ include prelude/header.rs
//@ unit U51 git_config/remote.rs GitRemoteRepo::format_commit_url: the link of a commit points at that commit's page of the hosting service of the remote (C19)
verus! {
//@ include prelude/base.rs
//@ include prelude/std_assumed.rs
//@ broadcast vax::vax_group
//@ type src/git_config/remote.rs GitRemoteRepo noderive

/// the page of a commit at each of the four hosting services delta knows
pub open spec fn commit_page(repo: GitRemoteRepo, commit: Seq<char>) -> Seq<char> {
    match repo {
        GitRemoteRepo::GitHub { slug } => "https://github.com/"@ + slug@ + "/commit/"@ + commit,
        GitRemoteRepo::GitLab { slug } => "https://gitlab.com/"@ + slug@ + "/-/commit/"@ + commit,
        GitRemoteRepo::SourceHut { slug } => "https://git.sr.ht/"@ + slug@ + "/commit/"@ + commit,
        GitRemoteRepo::Codeberg { slug } => "https://codeberg.org/"@ + slug@ + "/commit/"@ + commit,
    }
}
impl GitRemoteRepo {
    //@ fn src/git_config/remote.rs GitRemoteRepo::format_commit_url
    //@| ensures r@ =~= commit_page(*self, commit@),  // @C19:the.link.of.a.commit.is.that.commits.page.at.the.hosting.service.of.the.remote.with.the.hash.as.it.stands
    //@before <<<match self {>>>| proof { reveal_strlit(""); }
}

} // verus!
fn main() {}
