//@ include prelude/header.rs
//@ unit U44 utils/path.rs absolute_path / cwd_of_user_shell_process: the directory a path of the input is resolved against (C19: a file link points at the file the path names)
verus! {
//@ include prelude/base.rs
/// `std::path::PathBuf` is opaque; joining and normalising are uninterpreted
pub uninterp spec fn joined(base: &PathBuf, rel: Seq<char>) -> PathBuf;
pub uninterp spec fn normalized(p: PathBuf) -> PathBuf;
/// (R3) `base.join(rel)` / `PathBuf::from(base)` (generic over `AsRef<Path>`)
#[verifier::external_body]
pub fn verif_join(base: &PathBuf, path: &str) -> (r: PathBuf) ensures r == joined(base, path@) { unimplemented!() }
#[verifier::external_body]
pub fn verif_path_copy(p: &PathBuf) -> (r: PathBuf) ensures r == *p { unimplemented!() }
#[verifier::external_body]
pub fn normalize_path(path: PathBuf) -> (r: PathBuf) ensures r == normalized(path) { unimplemented!() }
/// (R3) `<Option<PathBuf>>.map(normalize_path)` (a function passed by name)
#[verifier::external_body]
pub fn verif_map_normalize(o: Option<PathBuf>) -> (r: Option<PathBuf>)
    ensures r == (match o { Some(p) => Some(normalized(p)), None => None }),
{ unimplemented!() }
//@ type src/config.rs Config keep=cwd_of_delta_process,cwd_of_user_shell_process,relative_paths,cwd_relative_to_repo_root
/// whether the process that called delta writes paths relative to the user's directory (git with --relative, rg, ...):
/// `calling_process().paths_in_input_are_relative_to_cwd()`; a fixed fact of the run
pub uninterp spec fn input_paths_relative_to_cwd() -> bool;
#[verifier::external_body]
pub fn verif_paths_in_input_are_relative_to_cwd() -> (r: bool) ensures r == input_paths_relative_to_cwd() { unimplemented!() }

/// the directory a path of the input is relative to: the directory delta was started in (the repository root under git), unless
/// the paths are relative to the user's own directory (`--relative-paths`, or the caller says so) - then that directory, or,
/// when it is unknown, the start directory again; nothing when not even that is known
pub open spec fn base_dir(config: &Config) -> Option<PathBuf> {
    let rel = input_paths_relative_to_cwd() || config.relative_paths;
    if !rel { config.cwd_of_delta_process }
    else if config.cwd_of_user_shell_process is Some { config.cwd_of_user_shell_process }
    else { config.cwd_of_delta_process }
}
//@ fn src/utils/path.rs absolute_path
//@| ensures r == (match base_dir(config) { Some(d) => Some(normalized(joined(&d, relative_path@))), None => None }),  // @C19:a.path.of.the.input.is.resolved.against.the.directory.it.is.relative.to.and.normalised
//@rewrite <<<calling_process().paths_in_input_are_relative_to_cwd()>>> => <<<verif_paths_in_input_are_relative_to_cwd()>>>
//@rewriteall <<<cwd_of_delta_process.join(relative_path)>>> => <<<verif_join(cwd_of_delta_process, relative_path)>>>
//@rewrite <<<cwd_of_user_shell_process.join(relative_path)>>> => <<<verif_join(cwd_of_user_shell_process, relative_path)>>>

//@ fn src/utils/path.rs cwd_of_user_shell_process
//@rewrite <<<PathBuf::from(repo_root).join(cwd_relative_to_repo_root)>>> => <<<verif_join(repo_root, cwd_relative_to_repo_root)>>>
//@rewrite <<<PathBuf::from(cwd)>>> => <<<verif_path_copy(cwd)>>>
//@| ensures r == (match (cwd_of_delta_process, cwd_relative_to_repo_root) { (Some(d), None) => Some(*d), (Some(d), Some(p)) => Some(joined(d, p@)), (None, _) => None }),  // @C19:the.users.directory.is.the.start.directory.or.under.git.the.repository.root.joined.with.the.prefix.git.hands.down

} // verus!
fn main() {}
