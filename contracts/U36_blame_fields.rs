//@ include prelude/header.rs
//@ unit U36 handlers/blame.rs format_blame_metadata: every field is padded and cut as plain text; the commit is linked afterwards, so a link neither counts as width nor is cut (C19)
verus! {
//@ include prelude/base.rs
//@ include prelude/std_assumed.rs
//@ shims delta format
//@ broadcast vax::vax_group axiom_cow_ref_str
#[verifier::external_body]
pub struct Config { _p: u8 }
//@ type src/format.rs Align
//@ type src/format.rs Placeholder noderive
//@ type src/format.rs FormatStringPlaceholderDataAnyPlaceholder keep=placeholder,precision noderive
pub type FormatStringPlaceholderData<'a> = FormatStringPlaceholderDataAnyPlaceholder<Placeholder<'a>>;

/// `format::pad` (Display with width, alignment and precision): the padded / cut text; uninterpreted
pub uninterp spec fn pad_spec(s: Seq<char>, width: usize, alignment: Align, precision: Option<usize>) -> Seq<char>;
#[verifier::external_body]
pub fn pad(s: &Cow<str>, width: usize, alignment: Align, precision: Option<usize>) -> (r: String)
    ensures r@ == pad_spec(cow_view(s), width, alignment, precision),
{ unimplemented!() }
/// `delta::format_raw_line` (U03 has it under contract: the line itself unless hyperlinks are on and stdout is a terminal, then the
/// line with its commit hashes linked); uninterpreted here
pub uninterp spec fn frl_spec(line: Seq<char>, config: &Config) -> Seq<char>;
#[verifier::external_body]
pub fn format_raw_line<'a>(line: &'a str, config: &Config) -> (r: Cow<'a, str>)
    ensures cow_view(&r) == frl_spec(line@, config),
{ unimplemented!() }
/// (R3) `field.as_ref().chars().count().saturating_sub(UnicodeWidthStr::width(field.as_ref()))`: the zero-width characters of the text
pub uninterp spec fn modifier_width(s: Seq<char>) -> usize;
#[verifier::external_body]
pub fn verif_modifier_width(field: &Cow<str>) -> (r: usize) ensures r == modifier_width(cow_view(field)) { unimplemented!() }
/// (R3) `placeholder.placeholder == Some(Placeholder::Str("commit"))`
pub open spec fn is_commit_placeholder(p: Option<Placeholder>) -> bool { p matches Some(Placeholder::Str(s)) && s@ == "commit"@ }
#[verifier::external_body]
pub fn verif_is_commit(p: &Option<Placeholder>) -> (r: bool) ensures r == is_commit_placeholder(*p) { unimplemented!() }

//@ region src/handlers/blame.rs format_blame_metadata
//@sig pub fn blame_field_region(field: Cow<str>, width: usize, alignment_spec: Align, placeholder: &FormatStringPlaceholderData, s: &mut String, config: &Config)
//@from <<<let unicode_modifier_width =>>>
//@until <<<} suffix = placeholder.suffix.as_str();>>>
//@| requires width + modifier_width(cow_view(&field)) <= usize::MAX,
//@| ensures final(s)@ == old(s)@ + (if is_commit_placeholder(placeholder.placeholder) { frl_spec(pad_spec(cow_view(&field), (width + modifier_width(cow_view(&field))) as usize, alignment_spec, placeholder.precision), config) }
//@|                                  else { pad_spec(cow_view(&field), (width + modifier_width(cow_view(&field))) as usize, alignment_spec, placeholder.precision) }),  // @C19:a.blame.field.is.padded.and.cut.as.plain.text.and.the.commit.is.linked.afterwards
//@rewrite <<<(field.as_ref().chars().count()) .saturating_sub(UnicodeWidthStr::width(field.as_ref()))>>> => <<<verif_modifier_width(&field)>>>
//@rewrite <<<placeholder.placeholder == Some(Placeholder::Str("commit"))>>> => <<<verif_is_commit(&placeholder.placeholder)>>>

} // verus!
fn main() {}
