//@ include prelude/header.rs
//@ unit U36 handlers/blame.rs format_blame_metadata: every field is padded and cut as plain text; the commit is linked afterwards, so a link neither counts as width nor is cut (C19)
verus! {
//@ include prelude/base.rs
//@ include prelude/std_assumed.rs
//@ include prelude/state.rs
//@ shims delta format merge_conflict grep config
//@ broadcast vax::vax_group axiom_cow_ref_str
#[verifier::external_body]
pub struct Config { _p: u8 }
//@ type src/format.rs Align
//@ type src/format.rs Placeholder noderive
//@ type src/format.rs FormatStringPlaceholderDataAnyPlaceholder keep=placeholder,precision noderive
pub type FormatStringPlaceholderData<'a> = FormatStringPlaceholderDataAnyPlaceholder<Placeholder<'a>>;
pub type FormatStringSimple = FormatStringPlaceholderDataAnyPlaceholder<()>;
//@ type src/handlers/blame.rs BlameLineNumbers noderive

/// `format::pad` (Display with width, alignment and precision): the padded / cut text; uninterpreted
pub uninterp spec fn pad_spec(s: Seq<char>, width: usize, alignment: Align, precision: Option<usize>) -> Seq<char>;
#[verifier::external_body]
pub fn pad(s: &Cow<str>, width: usize, alignment: Align, precision: Option<usize>) -> (r: String)
    ensures r@ == pad_spec(cow_view(s), width, alignment, precision),
{ unimplemented!() }
/// `delta::format_raw_line` (U03 has it under contract: the line itself unless hyperlinks are on and stdout is a terminal, then the
/// line with its commit hashes linked); uninterpreted here
pub uninterp spec fn frl_spec(line: Seq<char>, config: &Config) -> Seq<char>;
#[verifier::external_body]
pub fn format_raw_line<'a>(line: &'a str, config: &Config) -> (r: Cow<'a, str>)
    ensures cow_view(&r) == frl_spec(line@, config),
{ unimplemented!() }
/// (R3) `field.as_ref().chars().count().saturating_sub(UnicodeWidthStr::width(field.as_ref()))`: the zero-width characters of the text
pub uninterp spec fn modifier_width(s: Seq<char>) -> usize;
#[verifier::external_body]
pub fn verif_modifier_width(field: &Cow<str>) -> (r: usize) ensures r == modifier_width(cow_view(field)) { unimplemented!() }
/// (R3) `placeholder.placeholder == Some(Placeholder::Str("commit"))`
pub open spec fn is_commit_placeholder(p: Option<Placeholder>) -> bool { p matches Some(Placeholder::Str(s)) && s@ == "commit"@ }
#[verifier::external_body]
pub fn verif_is_commit(p: &Option<Placeholder>) -> (r: bool) ensures r == is_commit_placeholder(*p) { unimplemented!() }

//@ region src/handlers/blame.rs format_blame_metadata
//@sig pub fn blame_field_region(field: Cow<str>, width: usize, alignment_spec: Align, placeholder: &FormatStringPlaceholderData, s: &mut String, config: &Config)
//@from <<<let unicode_modifier_width =>>>
//@until <<<} suffix = placeholder.suffix.as_str();>>>
//@| requires width + modifier_width(cow_view(&field)) <= usize::MAX,
//@| ensures final(s)@ == old(s)@ + (if is_commit_placeholder(placeholder.placeholder) { frl_spec(pad_spec(cow_view(&field), (width + modifier_width(cow_view(&field))) as usize, alignment_spec, placeholder.precision), config) }
//@|                                  else { pad_spec(cow_view(&field), (width + modifier_width(cow_view(&field))) as usize, alignment_spec, placeholder.precision) }),  // @C19:a.blame.field.is.padded.and.cut.as.plain.text.and.the.commit.is.linked.afterwards
//@rewrite <<<(field.as_ref().chars().count()) .saturating_sub(UnicodeWidthStr::width(field.as_ref()))>>> => <<<verif_modifier_width(&field)>>>
//@rewrite <<<placeholder.placeholder == Some(Placeholder::Str("commit"))>>> => <<<verif_is_commit(&placeholder.placeholder)>>>

// ---- handle_blame_line: the metadata block of a line whose commit repeats the one above ----
/// `ansi::measure_text_width`: the display width; escape sequences (also those of a hyperlink) count nothing. Uninterpreted.
pub uninterp spec fn mtw(s: Seq<char>) -> usize;
#[verifier::external_body]
pub fn measure_text_width(s: &str) -> (r: usize) ensures r == mtw(s@) { unimplemented!() }
/// `UnicodeWidthStr::width`: the width of the string as it is, escape sequences included (NOT what a terminal shows)
pub uninterp spec fn raw_width(s: Seq<char>) -> usize;
pub trait UnicodeWidthStr { fn width(&self) -> (r: usize); }
impl UnicodeWidthStr for String {
    #[verifier::external_body]
    fn width(&self) -> (r: usize) ensures r == raw_width(self@) { unimplemented!() }
}
/// (R3) `" ".repeat(n)`
pub uninterp spec fn blanks(n: usize) -> Seq<char>;
#[verifier::external_body]
pub fn verif_blanks(n: usize) -> (r: String) ensures r@ == blanks(n) { unimplemented!() }
/// (R3) `previous_key.as_deref() == Some(&key)`
#[verifier::external_body]
pub fn verif_is_previous_key(previous_key: &Option<String>, key: &String) -> (r: bool)
    ensures r == (*previous_key matches Some(k) && k@ == key@),
{ unimplemented!() }

//@ region src/handlers/blame.rs StateMachine::handle_blame_line
//@sig pub fn blame_repeat_region(metadata: String, previous_key: Option<String>) -> (r: (String, String, bool))
//@from <<<let key = formatted_blame_metadata.clone();>>>
//@until <<<let metadata_style =>>>
//@tail (formatted_blame_metadata, key, is_repeat)
//@| ensures r.1@ == metadata@, r.2 == (previous_key matches Some(k) && k@ == metadata@),
//@|     r.2 ==> r.0@ == blanks(mtw(metadata@)),  // @C17,C19:the.block.of.a.line.whose.commit.repeats.the.one.above.is.blank.and.as.wide.as.the.VISIBLE.metadata.so.a.link.in.it.does.not.shift.the.code
//@|     !r.2 ==> r.0@ == metadata@,
//@before <<<let key = formatted_blame_metadata.clone();>>>| let mut formatted_blame_metadata = metadata;
//@rewrite <<<previous_key.as_deref() == Some(&key)>>> => <<<verif_is_previous_key(&previous_key, &key)>>>
//@rewrite <<<" ".repeat(>>> => <<<verif_blanks(>>>

// handle_blame_line: what is remembered of a line for the next one
//@ region src/handlers/blame.rs StateMachine::handle_blame_line
//@sig pub fn blame_state_after_a_line_region(key: String, formatted_blame_metadata: String) -> (r: State)
//@from <<<self.state = State::Blame(>>>
//@until <<<self.painter.syntax_highlight_and_paint_line(>>>
//@tail verif_state
//@| ensures r == State::Blame(key),  // @C17:the.state.remembers.the.attribution.of.the.line.not.what.was.displayed.for.it.a.blank.block.on.a.repeat
//@rewrite <<<self.state = State::Blame(>>> => <<<let verif_state = State::Blame(>>>

// format_blame_line_number: when the number of a line is left blank
pub open spec fn number_blank(format: &BlameLineNumbers, line_number: usize, is_repeat: bool) -> bool {
    match *format {
        BlameLineNumbers::On(_) => false,
        BlameLineNumbers::PerBlock(_) => is_repeat,
        BlameLineNumbers::Every(n, _) => is_repeat && line_number % n != 0,
    }
}
//@ region src/handlers/blame.rs format_blame_line_number
//@sig pub fn blame_number_blank_region(format: &BlameLineNumbers, line_number: usize, is_repeat: bool) -> (r: bool)
//@from <<<let (format, empty) = match &format {>>>
//@until <<<let mut result = String::new();>>>
//@tail empty
//@| requires *format matches BlameLineNumbers::Every(n, _) ==> n > 0,  // (parse_blame_line_numbers builds `Every(n, _)` only for n > 1)
//@| ensures r == number_blank(format, line_number, is_repeat),  // @C17:the.number.of.a.line.is.left.blank.only.on.a.line.that.repeats.the.commit.above.and.in.every.N.mode.not.on.multiples.of.N
//@|         !is_repeat ==> !r,  // @C17:the.first.line.of.a.block.always.shows.its.number

} // verus!
fn main() {}
