//@ include prelude/header.rs
//@ unit U34 handlers/diff_header.rs parse_diff_header_line / _parse_file_path / remove_surrounding_quotes: the path a file header line names is the path in the line, without git's quoting, the appended tab and the a/ b/ prefix (C14), slices in range (C03)
verus! {
//@ include prelude/base.rs
//@ include prelude/std_assumed.rs
//@ broadcast vax::vax_group axiom_str_is_its_text
//@ type src/handlers/diff_header.rs FileEvent derives=Clone,Copy,PartialEq,Eq,Structural

// str::strip_suffix: "If the string ends with the pattern suffix, returns the substring before the suffix, wrapped in Some ... otherwise None."
#[verifier::allow(undeclared_external_trait)]
pub assume_specification<P: Pattern>[ str::strip_suffix::<P> ](s: &str, pat: P) -> (r: Option<&str>)
    where for<'a> P::Searcher<'a>: std::str::pattern::ReverseSearcher<'a>
    ensures is_suffix(pat_view(pat), s@) ==> r.is_some() && r.unwrap()@ == s@.subrange(0, s@.len() - pat_view(pat).len()),
            !is_suffix(pat_view(pat), s@) ==> r.is_none();
/// ASSUMED: a `str` is its text (see U10); here for all pairs of texts in sight, so that no proof step has to name the
/// scrutinee of `match path { "/dev/null" => .. }`
pub broadcast axiom fn axiom_str_is_its_text(a: &str, b: &str)
    ensures #![trigger a@, b@] a@ == b@ ==> a == b;

/// git writes a name it quotes between two double quotes
pub open spec fn quoted(p: Seq<char>) -> bool { encode_utf8(p).len() >= 2 && is_prefix(seq!['"'], p) && is_suffix(seq!['"'], p) }
/// the name without git's quotes (escapes inside are left as they are)
pub uninterp spec fn inner(p: Seq<char>) -> Seq<char>;
pub open spec fn unq(p: Seq<char>) -> Seq<char> { if quoted(p) { inner(p) } else { p } }
/// (R3) `&path[1..path.len() - 1]`: both ends must be character boundaries with 1 <= len - 1 (an obligation here)
#[verifier::external_body]
pub fn verif_str_inner(path: &str) -> (r: &str)
    requires quoted(path@),  // @C03:the.text.between.the.quotes.exists
    ensures r@ == inner(path@), seq!['"'] + r@ + seq!['"'] == path@,
{ unimplemented!() }
//@ fn src/handlers/diff_header.rs remove_surrounding_quotes
//@| ensures r@ == unq(path@),  // @C14:a.quoted.name.loses.exactly.its.two.quotes.any.other.name.nothing
//@rewrite <<<&path[1..path.len() - 1]>>> => <<<verif_str_inner(path)>>>

/// the tab git appends when a name contains a blank
pub open spec fn untab(p: Seq<char>) -> Seq<char> { if is_suffix(seq!['\t'], p) { p.subrange(0, p.len() - 1) } else { p } }
/// the prefixes git puts in front of the two names (a/ b/, and c/ i/ o/ w/ with diff.mnemonicPrefix); uninterpreted
pub uninterp spec fn has_diff_prefix(p: Seq<char>) -> bool;
/// (R3) `DIFF_PREFIXES.iter().any(|s| path.starts_with(s))`
#[verifier::external_body]
pub fn verif_has_diff_prefix(path: &str) -> (r: bool) ensures r == has_diff_prefix(path@) { unimplemented!() }
/// (R3) `&path[2..]` after one of the two-character ASCII prefixes
pub uninterp spec fn after_prefix(p: Seq<char>) -> Seq<char>;
#[verifier::external_body]
pub fn verif_str_after_diff_prefix(path: &str) -> (r: &str)
    requires has_diff_prefix(path@),  // @C03:two.bytes.are.cut.off.only.after.a.two.character.prefix
    ensures r@ == after_prefix(path@),
{ unimplemented!() }
/// (R3) `path.split('\t').next().unwrap_or("")`: what precedes the first tab (plain `diff -u` puts a time stamp after it)
pub uninterp spec fn before_tab(p: Seq<char>) -> Seq<char>;
#[verifier::external_body]
pub fn verif_before_first_tab(path: &str) -> (r: &str) ensures r@ == before_tab(path@) { unimplemented!() }

/// C14: the name in a `---` / `+++` line: the tab git appends is removed FIRST (it follows the closing quote), then the
/// quotes, then - for git diffs - the a/ b/ prefix; `/dev/null` is itself
pub open spec fn file_path_spec(path: Seq<char>, git_diff_name: bool) -> Seq<char> {
    let u = unq(untab(path));
    if u == "/dev/null"@ { u }
    else if git_diff_name { if has_diff_prefix(u) { after_prefix(u) } else { u } }
    else { before_tab(u) }
}
//@ fn src/handlers/diff_header.rs _parse_file_path
//@| ensures r@ == file_path_spec(path@, git_diff_name),  // @C14:the.name.in.a.file.header.line.is.shown.without.the.appended.tab.the.quotes.and.the.prefix.in.that.order
//@rewrite <<<DIFF_PREFIXES.iter().any(|s| path.starts_with(s))>>> => <<<verif_has_diff_prefix(path)>>>
//@rewrite <<<&path[2..]>>> => <<<verif_str_after_diff_prefix(path)>>>
//@rewrite <<<path.split('\t').next().unwrap_or("")>>> => <<<verif_before_first_tab(path)>>>

/// the first n characters exist and are ASCII (so byte n is a character boundary inside the line)
pub open spec fn ascii_upto(s: Seq<char>, n: int) -> bool { n <= s.len() && forall|i: int| 0 <= i < n ==> (#[trigger] s[i] as u32) < 128 }
pub proof fn lemma_kw(line: Seq<char>, kw: Seq<char>)
    requires forall|i: int| 0 <= i < kw.len() ==> (#[trigger] kw[i] as u32) < 128,
    ensures is_prefix(kw, line) ==> ascii_upto(line, kw.len() as int),
{
    if is_prefix(kw, line) {
        assert forall|i: int| 0 <= i < kw.len() implies (#[trigger] line[i] as u32) < 128 by { assert(line.subrange(0, kw.len() as int)[i] == kw[i]); }
    }
}
/// (R3) `&line[n..]` / `line[n..]` after an ASCII prefix of n characters
#[verifier::external_body]
pub fn verif_str_from(line: &str, n: usize) -> (r: &str)
    requires ascii_upto(line@, n as int),  // @C03:the.cut.is.at.the.end.of.the.ascii.keyword
    ensures r@ == line@.subrange(n as int, line@.len() as int),
{ unimplemented!() }
/// the rest of the line after this keyword
pub open spec fn after(kw: Seq<char>, line: Seq<char>) -> Seq<char> { line.subrange(kw.len() as int, line.len() as int) }

// the closure `unquoted` of parse_diff_header_line (its calls are directed to this region)
//@ region src/handlers/diff_header.rs parse_diff_header_line optional=1
//@sig pub fn unquoted_region(git_diff_name: bool, path: &str) -> (r: String)
//@fromafter <<<let unquoted = |path: &str|>>>
//@until <<<; match line {>>>
//@| ensures r@ == unq(path@),  // @C14:the.paths.of.rename.and.copy.lines.lose.their.quotes.and.nothing.else

//@ region src/handlers/diff_header.rs parse_diff_header_line
//@sig pub fn parse_diff_header_line_region(line: &str, git_diff_name: bool) -> (r: (String, FileEvent))
//@from <<<match line {>>>
//@toblock
//@| ensures is_prefix("--- "@, line@) || is_prefix("+++ "@, line@) ==> r.0@ == file_path_spec(after("--- "@, line@), git_diff_name) && r.1 == FileEvent::Change,  // @C14:the.minus.and.plus.lines.name.the.file
//@|     !(is_prefix("--- "@, line@) || is_prefix("+++ "@, line@)) && is_prefix("rename from "@, line@) ==> r.0@ == unq(after("rename from "@, line@)) && r.1 == FileEvent::Rename,  // @C14:rename.and.copy.lines.name.the.path.after.the.keyword.without.quotes.and.without.removing.a.prefix
//@|     !(is_prefix("--- "@, line@) || is_prefix("+++ "@, line@)) && !is_prefix("rename from "@, line@) && is_prefix("rename to "@, line@) ==> r.0@ == unq(after("rename to "@, line@)) && r.1 == FileEvent::Rename,
//@|     !(is_prefix("--- "@, line@) || is_prefix("+++ "@, line@)) && !is_prefix("rename from "@, line@) && !is_prefix("rename to "@, line@) && is_prefix("copy from "@, line@) ==> r.0@ == unq(after("copy from "@, line@)) && r.1 == FileEvent::Copy,
//@|     !(is_prefix("--- "@, line@) || is_prefix("+++ "@, line@)) && !is_prefix("rename from "@, line@) && !is_prefix("rename to "@, line@) && !is_prefix("copy from "@, line@) && is_prefix("copy to "@, line@) ==> r.0@ == unq(after("copy to "@, line@)) && r.1 == FileEvent::Copy,
//@rewriteall <<<unquoted(>>> => <<<unquoted_region(git_diff_name, >>>
//@rewrite <<<&line[offset..]>>> => <<<verif_str_from(line, offset)>>>
//@rewrite <<<&line[12..]>>> => <<<verif_str_from(line, 12)>>>
//@rewriteall <<<&line[10..]>>> => <<<verif_str_from(line, 10)>>>
//@rewrite <<<&line[8..]>>> => <<<verif_str_from(line, 8)>>>
//@rewrite <<<line[12..].to_string()>>> => <<<verif_str_from(line, 12).to_string()>>>
//@rewriteall <<<line[10..].to_string()>>> => <<<verif_str_from(line, 10).to_string()>>>
//@rewrite <<<line[8..].to_string()>>> => <<<verif_str_from(line, 8).to_string()>>>
//@rewrite <<<line[14..].to_string()>>> => <<<verif_str_from(line, 14).to_string()>>>
//@rewrite <<<line[18..].to_string()>>> => <<<verif_str_from(line, 18).to_string()>>>
//@before <<<match line {>>>| proof { reveal_strlit("--- "); reveal_strlit("+++ "); reveal_strlit("rename from "); reveal_strlit("rename to "); reveal_strlit("copy from "); reveal_strlit("copy to "); reveal_strlit("new file mode "); reveal_strlit("deleted file mode "); lemma_kw(line@, "--- "@); lemma_kw(line@, "+++ "@); lemma_kw(line@, "rename from "@); lemma_kw(line@, "rename to "@); lemma_kw(line@, "copy from "@); lemma_kw(line@, "copy to "@); lemma_kw(line@, "new file mode "@); lemma_kw(line@, "deleted file mode "@); }

} // verus!
fn main() {}
