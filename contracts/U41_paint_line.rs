//@ include prelude/header.rs
//@ unit U41 paint.rs Painter::paint_line: after the line-number field the marker is written once, then every section of the line is painted once and in order (C01, C02, C09)
verus! {
//@ include prelude/base.rs
//@ include prelude/std_assumed.rs
//@ include prelude/ansi_term.rs
//@ include prelude/style.rs
//@ broadcast vax::vax_group lemma_painted_push lemma_sections_painted_push

/// an `ansi_term` painted string: a text and the style it is painted in (the crate keeps exactly these two)
pub uninterp spec fn at_text<'a>(s: ansi_term::ANSIString<'a>) -> Seq<char>;
pub uninterp spec fn at_style<'a>(s: ansi_term::ANSIString<'a>) -> AtStyle;
impl Style {
    /// delta's `Style::paint` = `self.ansi_term_style.paint(input)` (generic over the text type; here for `&str`)
    #[verifier::external_body]
    pub fn paint<'a>(self, input: &'a str) -> (r: ansi_term::ANSIString<'a>)
        ensures at_text(r) == input@, at_style(r) == self.ansi_term_style,
    { unimplemented!() }
}
/// what a list of painted strings says: which text in which style, in order
pub open spec fn painted<'a>(v: Seq<ansi_term::ANSIString<'a>>) -> Seq<(AtStyle, Seq<char>)> decreases v.len() {
    if v.len() == 0 { Seq::empty() } else { painted(v.drop_last()).push((at_style(v.last()), at_text(v.last()))) }
}
pub broadcast proof fn lemma_painted_push<'a>(v: Seq<ansi_term::ANSIString<'a>>, x: ansi_term::ANSIString<'a>)
    ensures #[trigger] painted(v.push(x)) == painted(v).push((at_style(x), at_text(x))),
{ assert(v.push(x).drop_last() =~= v); }
/// the sections of a line as they are to be painted: each non-empty one, in order, in its own style
pub open spec fn sections_painted(secs: Seq<(Style, String)>) -> Seq<(AtStyle, Seq<char>)> decreases secs.len() {
    if secs.len() == 0 { Seq::empty() } else {
        let p = sections_painted(secs.drop_last());
        if secs.last().1@.len() > 0 { p.push((secs.last().0.ansi_term_style, secs.last().1@)) } else { p }
    }
}
pub broadcast proof fn lemma_sections_painted_push(secs: Seq<(Style, String)>, x: (Style, String))
    ensures #[trigger] sections_painted(secs.push(x)) == (if x.1@.len() > 0 { sections_painted(secs).push((x.0.ansi_term_style, x.1@)) } else { sections_painted(secs) }),
{ assert(secs.push(x).drop_last() =~= secs); }
pub open spec fn prefix_part<'a>(p: Option<ansi_term::ANSIString<'a>>, any_section: bool) -> Seq<(AtStyle, Seq<char>)> {
    match p { Some(x) => if any_section { seq![(at_style(x), at_text(x))] } else { Seq::empty() }, None => Seq::empty() }
}

//@ region src/paint.rs Painter::paint_line
//@sig pub fn paint_line_sections_region<'a>(superimposed: &'a Vec<(Style, String)>, mut painted_prefix: Option<ansi_term::ANSIString<'a>>, mut ansi_strings: Vec<ansi_term::ANSIString<'a>>) -> (r: Vec<ansi_term::ANSIString<'a>>)
//@from <<<let mut handled_prefix = false;>>>
//@until <<<let is_empty = syntax_sections.is_empty();>>>
//@tail ansi_strings
//@| ensures painted(r@) =~= painted(ansi_strings@) + prefix_part(painted_prefix, superimposed@.len() > 0) + sections_painted(superimposed@),  // @C01,C02,C09:after.the.number.field.the.marker.is.written.once.then.every.non.empty.section.of.the.line.is.painted.once.in.order.in.its.own.style
//@rewrite <<<in &superimposed>>> => <<<in it: superimposed>>>
//@loop 1| invariant handled_prefix == (it.index@ > 0), it.seq().len() == superimposed@.len(), forall|j: int| 0 <= j < it.seq().len() ==> *(#[trigger] it.seq()[j]) == superimposed@[j],
//@loop 1|     !handled_prefix ==> painted_prefix == old_prefix,
//@loop 1|     /* @C01,C02,C09:paint_line.the.strings.so.far.are.the.number.field.the.marker.and.the.sections.so.far */ painted(ansi_strings@) =~= painted(ansi0) + prefix_part(old_prefix, it.index@ > 0) + sections_painted(superimposed@.subrange(0, it.index@ as int)),
//@before <<<handled_prefix = true;>>>| proof { assert(superimposed@.subrange(0, it.index@ + 1) =~= superimposed@.subrange(0, it.index@ as int).push(superimposed@[it.index@ as int])); }
//@after <<<handled_prefix = true; }>>>| proof { assert(superimposed@.subrange(0, superimposed@.len() as int) =~= superimposed@); }
//@before <<<let mut handled_prefix = false;>>>| let ghost ansi0 = ansi_strings@; let ghost old_prefix = painted_prefix;

} // verus!
fn main() {}
