//@ include prelude/header.rs
//@ unit U06 handlers: mode line, submodule lines, commit meta (C02 one line per line under color_only, C01 BufInv/OD, C04 decline)
verus! {
//@ set CONFIG_EXTRA ,right_arrow,decorations_width,commit_regex
//@ include prelude/sm_env.rs

/// Opaque stand-in for regex::Regex (dependency); what a pattern accepts is not modelled.
#[verifier::external_body]
pub struct Regex { _p: u8 }
pub uninterp spec fn regex_is_match(r: &Regex, s: Seq<char>) -> bool;
impl Regex {
    #[verifier::external_body]
    pub fn is_match(&self, haystack: &str) -> (r: bool) ensures r == regex_is_match(self, haystack@) { unimplemented!() }
}

#[verifier::external_body]
pub struct DrawFn { _p: u8 }
pub uninterp spec fn draw_out(text: Seq<char>, raw_text: Seq<char>, addendum: Seq<char>, text_style: Style, deco: ansi_term::Style) -> Seq<char>;
#[verifier::external_body]
pub fn verif_draw(f: &mut DrawFn, writer: &mut Writer, text: &str, raw_text: &str, addendum: &str, line_width: &Width, text_style: Style, decoration_style: ansi_term::Style) -> (r: std::io::Result<()>)
    ensures r.is_ok() ==> final(writer).hist() == old(writer).hist().push(Ev::Text(draw_out(text@, raw_text@, addendum@, text_style, decoration_style), true)),
            r.is_err() ==> final(writer).hist() == old(writer).hist(),
{ unimplemented!() }
pub uninterp spec fn draw_pad(d: DecorationStyle) -> bool;
pub uninterp spec fn draw_deco(d: DecorationStyle) -> ansi_term::Style;
#[verifier::external_body]
pub fn get_draw_function(decoration_style: DecorationStyle) -> (r: (DrawFn, bool, ansi_term::Style))
    ensures r.1 == draw_pad(decoration_style), r.2 == draw_deco(decoration_style),
{ unimplemented!() }
/// the commit line as shown: with hyperlinks on, the same line with the hash wrapped in a link
pub open spec fn commit_shown(l: Seq<char>, config: &Config) -> Seq<char> { if config.hyperlinks { hyperlinked(l, config) } else { l } }
/// what the commit handler draws: the decorated line is built from `line`, its raw variant from `raw_line`
pub open spec fn commit_drawn(sm: &StateMachine) -> Seq<char> {
    let ds = sm.config.commit_style.decoration_style;
    let padv = if draw_pad(ds) { " "@ } else { ""@ };
    draw_out(""@ + commit_shown(sm.line@, sm.config) + ""@ + padv + ""@, ""@ + commit_shown(sm.raw_line@, sm.config) + ""@ + padv + ""@,
             ""@, sm.config.commit_style, draw_deco(ds))
}
// Cow::from(&String): "Converts a String reference into a Borrowed variant."
pub assume_specification<'a>[ <Cow<'a, str> as From<&'a String>>::from ](s: &'a String) -> (r: Cow<'a, str>)
    ensures cow_view(&r) == s@;

/// (R3) `x.chars().take(12).collect::<String>()`: the first 12 characters.
#[verifier::external_body]
pub fn verif_take12(s: &str) -> (r: String) { unimplemented!() }
#[verifier::external_body]
pub struct PaintedString { _p: u8 }
pub uninterp spec fn painted_view(p: &PaintedString) -> Seq<char>;
impl VDisp for PaintedString { open spec fn vdisp(&self) -> Seq<char> { painted_view(self) } }
#[verifier::external_body]
pub fn verif_paint(style: Style, s: String) -> (r: PaintedString) { unimplemented!() }

impl<'p> Painter<'p> {
    //@ stub src/paint.rs Painter::emit spec=paint.emit
    //@ stub src/paint.rs Painter::paint_buffered_minus_and_plus_lines spec=paint.paint_buffered_minus_and_plus_lines
}
//@ stub src/features/hyperlinks.rs format_commit_line_with_osc8_commit_hyperlink spec=hyperlinks.format_commit_line
//@ stub src/handlers/submodule.rs get_submodule_short_commit

pub open spec fn mode_line_test(sm: &StateMachine) -> bool {
    is_prefix("old mode "@, sm.line@) || is_prefix("new mode "@, sm.line@)
}
pub open spec fn submodule_short_test(sm: &StateMachine) -> bool {
    (sm.state is HunkHeader && is_prefix("-Subproject commit "@, sm.line@)) || (sm.state is SubmoduleShort && is_prefix("+Subproject commit "@, sm.line@))
}

/// utils::path::relativize_path_maybe: the path as shown under --relative-paths; uninterpreted
pub uninterp spec fn relativized(path: Seq<char>, config: &Config) -> Seq<char>;
#[verifier::external_body]
pub fn relativize_path_maybe(path: &mut String, config: &Config)
    ensures final(path)@ == relativized(old(path)@, config),
{ unimplemented!() }
/// what a "Binary files a and b differ" line turns a (non-/dev/null) file name into
pub open spec fn binary_name(name: Seq<char>, config: &Config) -> Seq<char> {
    if name == "/dev/null"@ { name } else { relativized(name, config) + " (binary file)"@ }
}
pub open spec fn misc_line_test(sm: &StateMachine) -> bool {
    (sm.source == Source::DiffUnified && is_prefix("Only in "@, sm.line@)) || is_prefix("Binary files "@, sm.line@)
}

pub open spec fn mp_known(mp: MergeParents) -> bool { !(mp is Unknown) }
pub open spec fn mc_empty(m: &MergeConflictLines) -> bool { m.ours@.len() == 0 && m.ancestral@.len() == 0 && m.theirs@.len() == 0 }
impl<'a> StateMachine<'a> {
    //@ stub src/handlers/merge_conflict.rs StateMachine::handle_unterminated_merge_conflict optional=1 spec=merge.handle_unterminated
    //@ stub src/delta.rs StateMachine::emit_line_unchanged spec=delta.emit_line_unchanged
    //@ fn src/handlers/diff_header_misc.rs StateMachine::test_diff_file_missing
    //@| ensures r == (self.source == Source::DiffUnified && is_prefix("Only in "@, self.line@)),  // @C04,C10:only.in.lines.are.claimed.in.plain.diff.output.only
    //@ fn src/handlers/diff_header_misc.rs StateMachine::test_diff_is_binary
    //@| ensures r == is_prefix("Binary files "@, self.line@),  // @C04,C10,C14:the.binary.files.line.is.claimed.by.its.prefix
    //@ fn src/handlers/diff_header_misc.rs StateMachine::handle_diff_header_misc_line
    //@| requires srcinv(old(self)),
    //@| ensures !misc_line_test(old(self)) ==> r == Ok::<bool, std::io::Error>(false) && final(self).state == old(self).state && final(self).painter == old(self).painter && final(self).minus_file == old(self).minus_file && final(self).plus_file == old(self).plus_file,  // @C04:misc.line.decline.changes.nothing
    //@|         r.is_ok() ==> all_lines(&final(self).painter) == all_lines(&old(self).painter),  // @C01:misc.line.keeps.lines
    //@|         final(self).config == old(self).config && final(self).line == old(self).line && final(self).raw_line == old(self).raw_line,
    //@|         r.is_ok() && !old(self).config.color_only && is_prefix("Binary files "@, old(self).line@) && !(old(self).minus_file@.len() == 0 && old(self).plus_file@.len() == 0) ==>
    //@|             final(self).minus_file@ == binary_name(old(self).minus_file@, old(self).config) && final(self).plus_file@ == binary_name(old(self).plus_file@, old(self).config)
    //@|             && final(self).state == old(self).state && final(self).painter == old(self).painter,  // @C14,C10:binary.files.line.names.both.files.relative.to.the.user.and.marks.them
    //@|         r.is_ok() && !old(self).config.color_only && is_prefix("Binary files "@, old(self).line@) ==> r == Ok::<bool, std::io::Error>(true),  // @C04,C14:a.binary.files.line.is.claimed.it.goes.into.the.file.header.or.is.printed.once.never.both
    //@ stub src/delta.rs StateMachine::should_handle spec=delta.should_handle
    //@ stub src/handlers/diff_header.rs StateMachine::handle_pending_line_with_diff_name spec=diff_header.handle_pending
    //@ stub src/handlers/mod.rs StateMachine::handle_additional_cases spec=diff_header.handle_additional_cases

    //@ fn src/handlers/diff_header.rs StateMachine::handle_diff_header_mode_line spec=misc.handle_mode_line

    //@ fn src/handlers/submodule.rs StateMachine::test_submodule_short_line
    //@| ensures r == submodule_short_test(self),  // @C01,C04:submodule.commit.lines.are.claimed.by.their.form
    //@ fn src/handlers/submodule.rs StateMachine::handle_submodule_short_line spec=misc.handle_submodule_short
    //@after <<<self.painter.emit()?;>>>| let ghost h1 = self.painter.writer.hist(); assert(only_text_after(h1, h1));
    //@afterstmt <<<verif_write_display(>>>| proof { lemma_hist_lines_only_text(h1, self.painter.writer.hist()); }
    //@rewrite <<<.paint(minus_commit.chars().take(12).collect::<String>())>>> => <<<.paint(verif_take12(minus_commit))>>>
    //@rewrite <<<.paint(commit.chars().take(12).collect::<String>())>>> => <<<.paint(verif_take12(commit))>>>
    //@rewrite <<<self.config .minus_style .paint(verif_take12(minus_commit))>>> => <<<verif_paint(self.config.minus_style, verif_take12(minus_commit))>>>
    //@rewrite <<<self.config .plus_style .paint(verif_take12(commit))>>> => <<<verif_paint(self.config.plus_style, verif_take12(commit))>>>

    //@ fn src/handlers/submodule.rs StateMachine::handle_pending_submodule_short_commit spec=misc.pending_submodule optional=1
    //@after <<<self.painter.emit()?;>>>| let ghost h1 = self.painter.writer.hist(); assert(only_text_after(h1, h1));
    //@afterstmt <<<verif_write_display(>>>| proof { lemma_hist_lines_only_text(h1, self.painter.writer.hist()); }
    //@rewrite <<<.paint(minus_commit.chars().take(12).collect::<String>())>>> => <<<.paint(verif_take12(minus_commit))>>>
    //@rewrite <<<self.config .minus_style .paint(verif_take12(minus_commit))>>> => <<<verif_paint(self.config.minus_style, verif_take12(minus_commit))>>>

    //@ fn src/handlers/commit_meta.rs StateMachine::test_commit_meta_header_line
    //@| ensures r == regex_is_match(&self.config.commit_regex, self.line@),  // @C04:a.commit.line.is.what.the.commit.regex.matches
    //@ fn src/handlers/commit_meta.rs StateMachine::_handle_commit_meta_header_line spec=misc._handle_commit_meta
    //@before <<<if self.config.commit_style.is_omitted>>>| assert(only_text_after(self.painter.writer.hist(), self.painter.writer.hist()));
    //@rewriteall <<<draw_fn(>>> => <<<verif_draw(&mut draw_fn,>>>
    //@ fn src/handlers/commit_meta.rs StateMachine::handle_commit_meta_header_line spec=misc.handle_commit_meta
    //@after <<<self.painter.paint_buffered_minus_and_plus_lines();>>>| assert(/* @C01:commit.keeps.lines.step */ !(old(self).state is MergeConflict) ==> all_lines(&self.painter) =~= all_lines(&old(self).painter));
    //@after <<<self.painter.emit()?;>>>| let ghost h1 = self.painter.writer.hist();
    //@afterstmt <<<self._handle_commit_meta_header_line()>>>| proof { lemma_hist_lines_only_text(h1, self.painter.writer.hist()); }
}

} // verus!
fn main() {}
