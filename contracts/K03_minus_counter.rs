// K03 hunk_header.rs AmbiguousDiffMinusCounter::count_line (C10, C03): counting the lines of a hunk never switches the counter on or
// off (so one file section cannot disable the `--- ` disambiguation of the next, F29), and never overflows.
// Engine: Kani function contract over ALL isize values (loop-free: a complete proof); the replay driver runs the extracted
// function on Kani's counterexample.  (U30 proves the same clause, and the other five methods, with Verus.)
// kani: harness=check_count_line fn=count_line inputs=start:isize

//@ type src/handlers/hunk_header.rs AmbiguousDiffMinusCounter noderive

pub fn needed(v: isize) -> bool { v > AmbiguousDiffMinusCounter::COUNTER_RELEVANT_IF_GREATER_THAN }
pub fn post(before: isize, after: isize) -> bool { needed(before) == needed(after) && (before < 1 || after == before - 1) && (before >= 1 || after < 1) }

impl AmbiguousDiffMinusCounter {
    //@ type src/handlers/hunk_header.rs AmbiguousDiffMinusCounter::COUNTER_RELEVANT_IF_GREATER_THAN
    //@ type src/handlers/hunk_header.rs AmbiguousDiffMinusCounter::EXPECT_DIFF_3DASH_HEADER

    #[cfg_attr(kani, kani::modifies(self))]
    #[cfg_attr(kani, kani::ensures(|_r| post(old(self.0), self.0)))]  // @C10:counting.lines.never.switches.the.counter.on.or.off.and.counts.each.counted.line.once
    //@ fn src/handlers/hunk_header.rs AmbiguousDiffMinusCounter::count_line plain=1
}

#[cfg(kani)]
#[kani::proof_for_contract(AmbiguousDiffMinusCounter::count_line)]
fn check_count_line() {
    let start: isize = kani::any();
    let mut c = AmbiguousDiffMinusCounter(start);
    c.count_line();
}

#[cfg(not(kani))]
fn main() {
    // replay: the argument is the bit pattern (binary, two's complement) of Kani's counterexample
    let a: Vec<isize> = std::env::args().skip(1).map(|s| u64::from_str_radix(&s, 2).expect("bit pattern") as isize).collect();
    let start = a[0];
    let r = std::panic::catch_unwind(|| { let mut c = AmbiguousDiffMinusCounter(start); c.count_line(); c.0 });
    match r {
        Err(_) => { println!("AmbiguousDiffMinusCounter({}).count_line() PANICKED on the real function", start); std::process::exit(1); }
        Ok(after) => {
            println!("AmbiguousDiffMinusCounter({}).count_line() leaves {}", start, after);
            let ok = post(start, after);
            println!("{}", if ok { "postcondition holds" } else { "postcondition VIOLATED on the real function" });
            std::process::exit(if ok { 0 } else { 1 });
        }
    }
}
#[cfg(kani)]
fn main() {}
