//@ include prelude/header.rs
//@ unit U28 utils/tabs.rs: the marker columns are cut off at a character boundary inside the line (C03), then tabs are expanded (C01)
verus! {
//@ include prelude/base.rs
//@ include prelude/std_assumed.rs
//@ broadcast vax::vax_group
//@ type src/utils/tabs.rs TabCfg noderive

/// `tabs::expand` (itertools::join over `split('\t')`): every tab replaced by the configured run of spaces; uninterpreted
pub uninterp spec fn expand_spec(line: Seq<char>, tab_cfg: &TabCfg) -> Seq<char>;
//@ stub src/utils/tabs.rs expand
//@| ensures r@ == expand_spec(line@, tab_cfg),

/// the first n bytes are all ASCII
pub open spec fn ascii_prefix(b: Seq<u8>, n: int) -> bool { n <= b.len() && forall|i: int| 0 <= i < n ==> #[trigger] b[i] < 128 }
/// (R3) `line_bytes[..prefix].is_ascii()`: slicing needs `prefix <= len`, which is an obligation here
#[verifier::external_body]
pub fn verif_prefix_is_ascii(b: &[u8], prefix: usize) -> (r: bool)
    requires prefix <= b@.len(),  // @C03:tabs.prefix.slice.is.inside.the.line
    ensures r == ascii_prefix(b@, prefix as int),
{ unimplemented!() }
/// (R3) `&line[prefix..]` after an all-ASCII prefix (so `prefix` is a character boundary)
pub uninterp spec fn bytes_tail(s: Seq<char>, n: int) -> Seq<char>;
#[verifier::external_body]
pub fn verif_str_after_ascii_prefix<'a>(s: &'a str, prefix: usize) -> (r: &'a str)
    requires ascii_prefix(s.spec_bytes(), prefix as int),  // @C03:tabs.cut.is.on.a.character.boundary.inside.the.line
    ensures r@ == bytes_tail(s@, prefix as int),
{ unimplemented!() }
/// (R3) `line.graphemes(true).skip(prefix).collect::<String>()`
pub uninterp spec fn graphemes_tail(s: Seq<char>, n: int) -> Seq<char>;
#[verifier::external_body]
pub fn verif_skip_graphemes(s: &str, prefix: usize) -> (r: String) ensures r@ == graphemes_tail(s@, prefix as int) { unimplemented!() }

//@ fn src/utils/tabs.rs remove_prefix_and_expand
//@| ensures r@ == (if ascii_prefix(line.spec_bytes(), prefix as int) { expand_spec(bytes_tail(line@, prefix as int), tab_cfg) } else { expand_spec(graphemes_tail(line@, prefix as int), tab_cfg) }),  // @C01:only.the.marker.columns.are.cut.off.then.tabs.are.expanded
//@rewrite <<<line_bytes[..prefix].is_ascii()>>> => <<<verif_prefix_is_ascii(line_bytes, prefix)>>>
//@rewrite <<<&line[prefix..]>>> => <<<verif_str_after_ascii_prefix(line, prefix)>>>
//@rewrite <<<line.graphemes(true).skip(prefix).collect::<String>()>>> => <<<verif_skip_graphemes(line, prefix)>>>

// hunk.rs new_line_state: the marker columns of a line of a combined diff; when they end inside a character the line is
// "not a hunk line" (it is passed on), never an out-of-range slice
/// (R3) `s.get(..n)`: "Returns None if the range is out of bounds or does not lie on character boundaries" (n <= len is an obligation here)
#[verifier::external_body]
pub fn verif_str_get_to<'a>(s: &'a str, n: usize) -> (r: Option<&'a str>)
    requires n <= s.spec_bytes().len(),
    ensures r is Some == is_char_boundary(s.spec_bytes(), n as int),
{ unimplemented!() }
//@ region src/handlers/hunk.rs new_line_state
//@sig pub fn combined_marker_columns_region<'a>(new_line: &'a str, n_parents: usize) -> (r: Option<&'a str>)
//@from <<<let prefix =>>>
//@until <<<let prefix_char = match prefix.chars().find(>>>
//@tail Some(prefix)
//@| ensures r is Some == is_char_boundary(new_line.spec_bytes(), (if n_parents <= new_line.spec_bytes().len() { n_parents as int } else { new_line.spec_bytes().len() as int })),  // @C03:the.marker.columns.of.a.combined.diff.line.are.taken.only.when.they.end.on.a.character.boundary
//@rewrite <<<new_line.get(..min(n_parents, new_line.len()))>>> => <<<verif_str_get_to(new_line, min(n_parents, new_line.len()))>>>

// paint.rs prepare_raw_line: a line kept with its colours is prepared like any other - tabs expanded, newline, marker columns cut off
pub mod utils { pub mod tabs { pub use crate::TabCfg; } }
//@ type src/config.rs Config keep=tab_cfg
pub mod config { pub use crate::Config; }
pub mod tabs { pub use crate::expand; }
/// `ansi::ansi_preserving_slice`: the string from the n-th text byte on, every escape sequence kept; uninterpreted
pub uninterp spec fn slice_keeping_escapes(s: Seq<char>, start: usize) -> Seq<char>;
pub mod ansi {
    use vstd::prelude::*;
    use crate::*;
    #[verifier::external_body]
    pub fn ansi_preserving_slice(s: &str, start: usize) -> (r: String) ensures r@ == slice_keeping_escapes(s@, start) { unimplemented!() }
}
//@ fn src/paint.rs prepare_raw_line
//@| ensures r@ == slice_keeping_escapes(expand_spec(raw_line@, &config.tab_cfg), prefix_length).push('\n'),  // @C01,C08:a.line.kept.with.its.colours.has.its.tabs.expanded.like.every.other.line.then.loses.the.marker.columns.and.nothing.else.it.always.ends.with.its.newline

} // verus!
fn main() {}
