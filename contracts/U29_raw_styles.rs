//@ include prelude/header.rs
//@ unit U29 paint.rs update_diff_style_sections: a line whose raw text was captured is shown in the styles read from that text (C08)
verus! {
//@ include prelude/sm_env.rs

/// `paint::parse_style_sections` (escape sequences of the raw line -> styles, through map-styles); uninterpreted
pub uninterp spec fn raw_style_sections_spec<'a>(raw_line: Seq<char>, config: &Config) -> Seq<(Style, &'a str)>;
#[verifier::external_body]
pub fn parse_style_sections<'a>(raw_line: &'a str, config: &config::Config) -> (r: Vec<(Style, &'a str)>)
    ensures r@ == raw_style_sections_spec::<'a>(raw_line@, config),
{ unimplemented!() }

/// the raw text captured with a hunk line (hunk.rs maybe_raw_line: the line carries colours other than git's plain ones, or its style is raw)
pub open spec fn captured_raw_line(state: &State) -> Option<Seq<char>> {
    match *state {
        State::HunkMinus(_, Some(raw_line)) => Some(raw_line@),
        State::HunkZero(_, Some(raw_line)) => Some(raw_line@),
        State::HunkPlus(_, Some(raw_line)) => Some(raw_line@),
        _ => None,
    }
}

// The first statement of the loop body of update_diff_style_sections (the body is extracted as a function: `continue`
// - "go on with the next line" - is `return true`; falling through to the rules for computed styles is `false`).
//@ region src/paint.rs Painter::update_diff_style_sections
//@sig pub fn update_diff_style_sections_captured_raw_line<'a>(state: &'a State, style_sections: &mut Vec<(Style, &'a str)>, config: &config::Config) -> (r: bool)
//@from <<<if let State::HunkMinus(_, Some(raw_line))>>>
//@until <<<let line_has_emph_and_non_emph_sections =>>>
//@tail false
//@rewrite <<<continue;>>> => <<<return true;>>>
//@| ensures captured_raw_line(state) matches Some(raw) ==> r && final(style_sections)@ == raw_style_sections_spec::<'a>(raw, config),  // @C08:a.line.with.captured.input.colours.is.shown.in.exactly.those.and.no.rule.for.computed.styles.touches.it
//@|         captured_raw_line(state) is None ==> !r && final(style_sections)@ == old(style_sections)@,  // @C08:other.lines.keep.their.computed.styles.at.this.point

} // verus!
fn main() {}
