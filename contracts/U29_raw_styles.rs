//@ include prelude/header.rs
//@ unit U29 paint.rs update_diff_style_sections: a line whose raw text was captured is shown in the styles read from that text (C08)
verus! {
//@ include prelude/sm_env.rs

/// `paint::parse_style_sections` (escape sequences of the raw line -> styles, through map-styles); uninterpreted
pub uninterp spec fn raw_style_sections_spec<'a>(raw_line: Seq<char>, config: &Config) -> Seq<(Style, &'a str)>;
#[verifier::external_body]
pub fn parse_style_sections<'a>(raw_line: &'a str, config: &config::Config) -> (r: Vec<(Style, &'a str)>)
    ensures r@ == raw_style_sections_spec::<'a>(raw_line@, config),
{ unimplemented!() }

/// the raw text captured with a hunk line (hunk.rs maybe_raw_line: the line carries colours other than git's plain ones, or its style is raw)
pub open spec fn captured_raw_line(state: &State) -> Option<Seq<char>> {
    match *state {
        State::HunkMinus(_, Some(raw_line)) => Some(raw_line@),
        State::HunkZero(_, Some(raw_line)) => Some(raw_line@),
        State::HunkPlus(_, Some(raw_line)) => Some(raw_line@),
        _ => None,
    }
}

// The first statement of the loop body of update_diff_style_sections (the body is extracted as a function: `continue`
// - "go on with the next line" - is `return true`; falling through to the rules for computed styles is `false`).
//@ region src/paint.rs Painter::update_diff_style_sections
//@sig pub fn update_diff_style_sections_captured_raw_line<'a>(state: &'a State, style_sections: &mut Vec<(Style, &'a str)>, config: &config::Config) -> (r: bool)
//@from <<<if let State::HunkMinus(_, Some(raw_line))>>>
//@until <<<let line_has_emph_and_non_emph_sections =>>>
//@tail false
//@rewrite <<<continue;>>> => <<<return true;>>>
//@| ensures captured_raw_line(state) matches Some(raw) ==> r && final(style_sections)@ == raw_style_sections_spec::<'a>(raw, config),  // @C08:a.line.with.captured.input.colours.is.shown.in.exactly.those.and.no.rule.for.computed.styles.touches.it
//@|         captured_raw_line(state) is None ==> !r && final(style_sections)@ == old(style_sections)@,  // @C08:other.lines.keep.their.computed.styles.at.this.point

// The body of the inner loop of update_diff_style_sections (sections of one line, visited from the LAST to the first): the two
// documented rules - a section that is not emphasised gets the non-emph style when the line has a partner and such a style is
// configured; the whitespace that ends an added line gets the whitespace-error style.
/// the section consists of white space only (`s.trim().is_empty()`)
pub open spec fn blank_section(s: Seq<char>) -> bool { trim_spec(s).len() == 0 }
/// `str::trim`: uninterpreted
pub uninterp spec fn trim_spec(s: Seq<char>) -> Seq<char>;
pub assume_specification[ str::trim ](s: &str) -> (r: &str)
    ensures r@ == trim_spec(s@);
//@ region src/paint.rs Painter::update_diff_style_sections
//@sig pub fn update_section_style(style: &mut Style, s: &str, mut is_whitespace_error: bool, whitespace_error_style: Option<Style>, non_emph_style: Option<Style>, line_has_emph_and_non_emph_sections: bool, should_update_non_emph_styles: bool) -> (r: bool)
//@fromafter <<<for (style, s) in style_sections.iter_mut().rev() {>>>
//@to <<<*style = whitespace_error_style.unwrap(); } }>>>
//@tail is_whitespace_error
//@| requires is_whitespace_error ==> whitespace_error_style is Some,  // @C03:the.whitespace.error.style.is.there.while.the.end.of.the.line.is.still.blank
//@|          should_update_non_emph_styles ==> non_emph_style is Some,  // @C03:the.non.emph.style.is.there.when.it.is.to.be.used
//@| ensures r == (is_whitespace_error && blank_section(s@)),  // @C06:only.the.blank.sections.that.END.the.line.count.as.a.whitespace.error
//@|         *final(style) == (if r && (old(style).is_emph || !line_has_emph_and_non_emph_sections) { whitespace_error_style->0 }
//@|                           else if should_update_non_emph_styles && !old(style).is_emph { if r { whitespace_error_style->0 } else { non_emph_style->0 } }
//@|                           else { *old(style) }),  // @C06:a.section.keeps.its.style.unless.it.is.trailing.whitespace.of.the.line.or.an.unemphasised.section.of.a.paired.line

} // verus!
fn main() {}
