//@ include prelude/header.rs
//@ unit U15 style.rs Display for Style, color.rs color_to_string: the canonical style string lists every attribute and both colours (C12)
verus! {
//@ include prelude/base.rs
//@ include prelude/std_assumed.rs
//@ include prelude/ansi_term.rs
//@ include prelude/style.rs
//@ shims color
//@ broadcast vax::vax_group

pub mod fmt {
    // `fmt::Formatter` is a sink like any other writer: type table E6 maps it to the ghost Writer,
    // `fmt::Result` to io::Result<()>.
    pub use crate::Writer as Formatter;
    pub type Result = std::io::Result<()>;
}

/// (R3) `words.join(" ")`
pub uninterp spec fn join_space(words: Seq<Seq<char>>) -> Seq<char>;
pub open spec fn views(words: Seq<String>) -> Seq<Seq<char>> { Seq::new(words.len(), |i: int| words[i]@) }
pub broadcast proof fn lemma_views_push(v: Seq<String>, x: String)
    ensures #[trigger] views(v.push(x)) == views(v).push(x@)
{ assert(/* @C12:display.words.step */ views(v.push(x)) =~= views(v).push(x@)); }
pub broadcast proof fn lemma_views_empty(v: Seq<String>)
    ensures v.len() == 0 ==> #[trigger] views(v) == Seq::<Seq<char>>::empty()
{ if v.len() == 0 { assert(/* @C12:display.words.step */ views(v) =~= Seq::<Seq<char>>::empty()); } }
pub broadcast group views_group { lemma_views_push, lemma_views_empty }
#[verifier::external_body]
pub fn verif_join_space(words: &Vec<String>) -> (r: String) ensures r@ == join_space(views(words@)) { unimplemented!() }

/// The word `color::color_to_string` prints for a colour (verified below for the named colours).
pub uninterp spec fn ansi16_name(n: u8) -> Seq<char>;
pub uninterp spec fn rgb_word(r: u8, g: u8, b: u8) -> Seq<char>;
pub open spec fn color_word(c: ansi_term::Color) -> Seq<char> {
    match c {
        ansi_term::Color::Fixed(n) => if n < 16 { ansi16_name(n) } else { usize_decimal(n as usize) },
        ansi_term::Color::RGB(r, g, b) => rgb_word(r, g, b),
        ansi_term::Color::Black => "black"@,
        ansi_term::Color::Red => "red"@,
        ansi_term::Color::Green => "green"@,
        ansi_term::Color::Yellow => "yellow"@,
        ansi_term::Color::Blue => "blue"@,
        ansi_term::Color::Purple => "purple"@,
        ansi_term::Color::Cyan => "cyan"@,
        ansi_term::Color::White => "white"@,
    }
}
#[verifier::external_body]
pub fn color_to_string(color: ansi_term::Color) -> (r: String) ensures r@ == color_word(color) { unimplemented!() }

/// C12: the canonical words of a style - one word for EVERY attribute that is set (with the spelling
/// the parser accepts as a text attribute: `ul`, not `underline`, which header styles read as a
/// decoration), then the foreground word, then the background colour if any.
pub open spec fn opt_word(b: bool, w: Seq<char>) -> Seq<Seq<char>> { if b { seq![w] } else { Seq::<Seq<char>>::empty() } }
/// k-th attribute (in printing order) and its word
pub open spec fn attr_set(s: Style, k: int) -> bool {
    if k == 1 { s.is_omitted } else if k == 2 { s.ansi_term_style.is_blink } else if k == 3 { s.ansi_term_style.is_bold }
    else if k == 4 { s.ansi_term_style.is_dimmed } else if k == 5 { s.ansi_term_style.is_hidden } else if k == 6 { s.ansi_term_style.is_italic }
    else if k == 7 { s.ansi_term_style.is_reverse } else if k == 8 { s.ansi_term_style.is_strikethrough } else { s.ansi_term_style.is_underline }
}
pub open spec fn attr_word(k: int) -> Seq<char> {
    if k == 1 { "omit"@ } else if k == 2 { "blink"@ } else if k == 3 { "bold"@ } else if k == 4 { "dim"@ } else if k == 5 { "hidden"@ }
    else if k == 6 { "italic"@ } else if k == 7 { "reverse"@ } else if k == 8 { "strike"@ } else { "ul"@ }
}
/// the words of the first k attributes: one word for every attribute that is set
pub open spec fn canon_prefix(s: Style, k: int) -> Seq<Seq<char>>
    decreases k
{
    if k <= 0 { Seq::<Seq<char>>::empty() } else if attr_set(s, k) { canon_prefix(s, k - 1).push(attr_word(k)) } else { canon_prefix(s, k - 1) }
}
pub open spec fn fg_word(s: Style) -> Seq<char> {
    if s.is_syntax_highlighted { "syntax"@ } else { match s.ansi_term_style.foreground { Some(c) => color_word(c), None => "normal"@ } }
}
/// C12: the canonical words of a style - one word for EVERY attribute that is set (with the spelling
/// the parser accepts as a text attribute: `ul`, not `underline`, which header styles read as a
/// decoration), then the foreground word, then the background colour if any.
pub open spec fn canon_words(s: Style) -> Seq<Seq<char>> {
    match s.ansi_term_style.background { Some(c) => canon_prefix(s, 9).push(fg_word(s)).push(color_word(c)), None => canon_prefix(s, 9).push(fg_word(s)) }
}
pub open spec fn display_text(s: Style) -> Seq<char> {
    if s.is_raw { "raw"@ } else { join_space(canon_words(s)) }
}

impl Style {
    //@ fn src/style.rs Style@Display::fmt vis=keep as=fmt_display attrs=verifier::rlimit(100)
    //@| ensures r.is_ok() ==> final(f).hist() == old(f).hist().push(Ev::Text(display_text(*self), false)),  // @C12:display.lists.every.attribute.and.both.colours
    //@rewrite <<<words.join(" ")>>> => <<<verif_join_space(&words)>>>
    //@before <<<if self.is_omitted {>>>| proof { lemma_views_empty(words@); } let ghost w1 = words@; assert(/* @C12:display.words.step */ views(w1) == canon_prefix(*self, 0));
    //@before <<<if self.ansi_term_style.is_blink {>>>| proof { if attr_set(*self, 1) { lemma_views_push(w1, words@.last()); } } let ghost w2 = words@; assert(/* @C12:display.words.step */ views(w2) == canon_prefix(*self, 1));
    //@before <<<if self.ansi_term_style.is_bold {>>>| proof { if attr_set(*self, 2) { lemma_views_push(w2, words@.last()); } } let ghost w3 = words@; assert(/* @C12:display.words.step */ views(w3) == canon_prefix(*self, 2));
    //@before <<<if self.ansi_term_style.is_dimmed {>>>| proof { if attr_set(*self, 3) { lemma_views_push(w3, words@.last()); } } let ghost w4 = words@; assert(/* @C12:display.words.step */ views(w4) == canon_prefix(*self, 3));
    //@before <<<if self.ansi_term_style.is_hidden {>>>| proof { if attr_set(*self, 4) { lemma_views_push(w4, words@.last()); } } let ghost w5 = words@; assert(/* @C12:display.words.step */ views(w5) == canon_prefix(*self, 4));
    //@before <<<if self.ansi_term_style.is_italic {>>>| proof { if attr_set(*self, 5) { lemma_views_push(w5, words@.last()); } } let ghost w6 = words@; assert(/* @C12:display.words.step */ views(w6) == canon_prefix(*self, 5));
    //@before <<<if self.ansi_term_style.is_reverse {>>>| proof { if attr_set(*self, 6) { lemma_views_push(w6, words@.last()); } } let ghost w7 = words@; assert(/* @C12:display.words.step */ views(w7) == canon_prefix(*self, 6));
    //@before <<<if self.ansi_term_style.is_strikethrough {>>>| proof { if attr_set(*self, 7) { lemma_views_push(w7, words@.last()); } } let ghost w8 = words@; assert(/* @C12:display.words.step */ views(w8) == canon_prefix(*self, 7));
    //@before <<<if self.ansi_term_style.is_underline {>>>| proof { if attr_set(*self, 8) { lemma_views_push(w8, words@.last()); } } let ghost w9 = words@; assert(/* @C12:display.words.step */ views(w9) == canon_prefix(*self, 8));
    //@before <<<match (self.is_syntax_highlighted, self.ansi_term_style.foreground) {>>>| proof { if attr_set(*self, 9) { lemma_views_push(w9, words@.last()); } } let ghost w10 = words@; assert(/* @C12:display.words.step */ views(w10) == canon_prefix(*self, 9));
    //@before <<<if let Some(color) = self.ansi_term_style.background {>>>| proof { lemma_views_push(w10, words@.last()); } let ghost w11 = words@; assert(/* @C12:display.words.step */ views(w11) == canon_prefix(*self, 9).push(fg_word(*self)));
    //@before <<<let style_str =>>>| proof { reveal_strlit(""); if self.ansi_term_style.background is Some { lemma_views_push(w11, words@.last()); } } assert(/* @C12:display.words.step */ views(words@) == canon_words(*self));
}

// ---- color.rs color_to_string: the word --show-config prints for a colour (the parser must read it back) ----
/// (R3) `ansi_16_color_number_to_name(n).unwrap().to_string()` (a table lookup; n < 16)
#[verifier::external_body]
pub fn verif_ansi16_name(n: u8) -> (r: String)
    requires n < 16,  // @C03:the.table.of.colour.names.has.sixteen.entries
    ensures r@ == ansi16_name(n),
{ unimplemented!() }
/// (R3) `format!("{n}")` for a u8
#[verifier::external_body]
pub fn verif_decimal_u8(n: u8) -> (r: String) ensures r@ == usize_decimal(n as usize) { unimplemented!() }
/// (R3) `format!("\"#{r:02x?}{g:02x?}{b:02x?}\"")`: `rgb_word` = the quoted colour `"#rrggbb"`, TWO lower-case hex digits per
/// channel (what the colour parser accepts). Any other spelling of this `format!` is an opaque string (rule E4) and fails the clause.
#[verifier::external_body]
pub fn verif_rgb_hex(r: u8, g: u8, b: u8) -> (s: String) ensures s@ == rgb_word(r, g, b) { unimplemented!() }
pub use crate::AtColour as Color;
//@ fn src/color.rs color_to_string as=color_to_string_body
//@| ensures r@ == color_word(color),  // @C12:a.colour.is.printed.as.its.name.its.number.or.its.six.hex.digits.the.forms.the.parser.reads.back
//@rewrite <<<ansi_16_color_number_to_name(n).unwrap().to_string()>>> => <<<verif_ansi16_name(n)>>>
//@rewrite <<<format!("{n}")>>> => <<<verif_decimal_u8(n)>>>
//@rewrite <<<format!("\"#{r:02x?}{g:02x?}{b:02x?}\"")>>> => <<<verif_rgb_hex(r, g, b)>>>

} // verus!
fn main() {}
