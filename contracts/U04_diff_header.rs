//@ include prelude/header.rs
//@ unit U04 handlers/diff_header*.rs, handlers/mod.rs: file-section headers (OD, C01 nothing moved past a header, C10 reset, C14 one header)
verus! {
//@ set CONFIG_EXTRA ,file_modified_label,right_arrow,decorations_width
//@ include prelude/sm_env.rs

/// Result of `get_repeated_file_path_from_diff_line` as a function of the line (grapheme split; uninterpreted).
pub uninterp spec fn repeated_path_spec(line: Seq<char>) -> Option<Seq<char>>;
pub open spec fn repeated_path_or_empty(line: Seq<char>) -> Seq<char> {
    match repeated_path_spec(line) { Some(s) => s, None => Seq::<char>::empty() }
}

pub open spec fn hdr_plus_test(sm: &StateMachine) -> bool {
    sm.state is DiffHeader
    && (is_prefix("+++ "@, sm.line@) || is_prefix("rename to "@, sm.line@) || is_prefix("copy to "@, sm.line@))
}
/// Opaque stand-in for `Box<draw::DrawFunction>` (a boxed `dyn FnMut`); called through `verif_draw`.
#[verifier::external_body]
pub struct DrawFn { _p: u8 }
/// What a draw function writes: one or more complete lines, as one Text event (ends with a newline).
pub uninterp spec fn draw_out(text: Seq<char>, raw_text: Seq<char>, addendum: Seq<char>, text_style: Style, deco: ansi_term::Style) -> Seq<char>;
#[verifier::external_body]
pub fn verif_draw(f: &mut DrawFn, writer: &mut Writer, text: &str, raw_text: &str, addendum: &str, line_width: &Width, text_style: Style, decoration_style: ansi_term::Style) -> (r: std::io::Result<()>)
    ensures r.is_ok() ==> final(writer).hist() == old(writer).hist().push(Ev::Text(draw_out(text@, raw_text@, addendum@, text_style, decoration_style), true)),
            r.is_err() ==> final(writer).hist() == old(writer).hist(),
{ unimplemented!() }
#[verifier::external_body]
pub fn get_draw_function(decoration_style: DecorationStyle) -> (r: (DrawFn, bool, ansi_term::Style))
{ unimplemented!() }

impl AmbiguousDiffMinusCounter {
    /// what `three_dashes_expected` answers (U30 has the function itself under contract)
    pub uninterp spec fn tde(&self) -> bool;
    //@ stub src/handlers/hunk_header.rs AmbiguousDiffMinusCounter::three_dashes_expected
    //@| ensures r == self.tde(),
}
/// the line is taken for the `---` / `rename from` / `copy from` line of a file header
pub open spec fn hdr_minus_test(sm: &StateMachine) -> bool {
    (sm.state is DiffHeader || sm.source == Source::DiffUnified)
    && ((is_prefix("--- "@, sm.line@) && sm.minus_line_counter.tde()) || is_prefix("rename from "@, sm.line@) || is_prefix("copy from "@, sm.line@))
}
impl<'p> Painter<'p> {
    //@ stub src/paint.rs Painter::emit spec=paint.emit
    //@ stub src/paint.rs Painter::paint_buffered_minus_and_plus_lines spec=paint.paint_buffered_minus_and_plus_lines
    //@ stub src/paint.rs Painter::set_syntax spec=paint.set_syntax
    // `set_syntax` as the `+++` handler calls it (its calls are redirected by a rewrite of that handler only): in the middle of
    // a file section the language may be replaced by that of the new name, not reset to the default
    //@ stub src/paint.rs Painter::set_syntax spec=paint.set_syntax_for_the_new_name as=set_syntax_for_the_new_name
}
/// what `parse_diff_header_line` takes from a file header line: the path (or mode) and the file event (U34 has it under contract)
pub uninterp spec fn parsed_header(line: Seq<char>, git_diff_name: bool) -> (Seq<char>, FileEvent);
/// `utils::path::relativize_path_maybe`: the path as shown under --relative-paths; uninterpreted
pub uninterp spec fn relativized(path: Seq<char>, config: &Config) -> Seq<char>;
/// the line is a `new file mode` / `deleted file mode` line of a file header
pub open spec fn hdr_fileop_test(sm: &StateMachine) -> bool {
    (sm.state is DiffHeader || sm.source == Source::DiffUnified) && (is_prefix("deleted file mode "@, sm.line@) || is_prefix("new file mode "@, sm.line@))
}
//@ stub src/handlers/diff_header.rs parse_diff_header_line
//@| ensures r.0@ == parsed_header(line@, git_diff_name).0 && r.1 == parsed_header(line@, git_diff_name).1,
//@ stub src/handlers/diff_header.rs get_filename_from_marker_line
//@ stub src/handlers/diff_header.rs get_filename_from_diff_header_line_file_path
//@ stub src/handlers/diff_header.rs get_repeated_file_path_from_diff_line spec=diff_header.get_repeated
//@ stub src/handlers/diff_header.rs get_file_change_description_from_file_paths
//@ stub src/utils/path.rs relativize_path_maybe
//@| ensures final(path)@ == relativized(old(path)@, config),
//@ stub src/utils/path.rs absolute_path
//@ stub src/features/hyperlinks.rs format_osc8_file_hyperlink

//@ fn src/handlers/diff_header.rs write_generic_diff_header_header_line spec=diff_header.write_generic
//@rewriteall <<<draw_fn(>>> => <<<verif_draw(&mut draw_fn,>>>
//@before <<<if !mode_info.is_empty() {>>>| proof { assert(painter.writer.hist().subrange(0, old(painter).writer.hist().len() as int) =~= old(painter).writer.hist()); lemma_hist_lines_only_text(old(painter).writer.hist(), painter.writer.hist()); }

pub open spec fn mp_known(mp: MergeParents) -> bool { !(mp is Unknown) }
use vstd::std_specs::cmp::PartialEqSpec;
/// ASSUMED: `==` / `!=` on `Option<(String, String)>` (std's PartialEq of Option, tuples and String) compares the contents
pub axiom fn axiom_file_pair_eq()
    ensures <Option<(String, String)> as PartialEqSpec>::obeys_eq_spec(), forall|a: Option<(String, String)>, b: Option<(String, String)>| #[trigger] a.eq_spec(&b) <==> a == b;
pub open spec fn mc_empty(m: &MergeConflictLines) -> bool { m.ours@.len() == 0 && m.ancestral@.len() == 0 && m.theirs@.len() == 0 }
impl<'a> StateMachine<'a> {
    //@ stub src/handlers/merge_conflict.rs StateMachine::handle_unterminated_merge_conflict optional=1 spec=merge.handle_unterminated
    //@ stub src/delta.rs StateMachine::should_handle spec=delta.should_handle
    //@ stub src/delta.rs StateMachine::should_skip_line spec=delta.should_skip_line
    //@ stub src/delta.rs StateMachine::emit_line_unchanged spec=delta.emit_line_unchanged

    //@ fn src/handlers/diff_header.rs StateMachine::should_write_generic_diff_header_header_line spec=diff_header.should_write_generic
    //@ fn src/handlers/diff_header.rs StateMachine::_handle_diff_header_header_line spec=diff_header._handle_header
    //@ fn src/handlers/diff_header.rs StateMachine::test_pending_line_with_diff_name
    //@| ensures r == (self.state is DiffHeader || self.source == Source::DiffUnified),  // @C10,C14:a.pending.file.header.exists.only.in.a.diff.header.or.plain.diff.output
    //@ fn src/handlers/diff_header.rs StateMachine::handle_pending_line_with_diff_name spec=diff_header.handle_pending
    //@before <<<if !self.mode_info.is_empty() {>>>| proof { axiom_file_pair_eq(); }
    //@ fn src/handlers/diff_header.rs StateMachine::test_diff_header_plus_line
    //@| ensures r == hdr_plus_test(self),
    //@|         r ==> self.state is DiffHeader,  // @C14,C01:a.line.is.taken.for.the.plus.header.only.directly.after.the.minus.header.never.inside.a.hunk
    //@ fn src/handlers/diff_header.rs StateMachine::handle_diff_header_plus_line spec=diff_header.handle_plus
    //@rewrite <<<self.painter .set_syntax(>>> => <<<self.painter.set_syntax_for_the_new_name(>>>
    //@before <<<self.painter.paint_buffered_minus_and_plus_lines(); if self.should_write_generic_diff_header_header_line()? {>>>| proof { axiom_file_pair_eq(); }
    //@ fn src/handlers/diff_header.rs StateMachine::test_diff_header_minus_line
    //@| ensures r ==> (self.state is DiffHeader || self.source == Source::DiffUnified),  // @C01,C04,C14:a.minus.header.is.looked.for.only.in.a.diff.header.or.plain.diff.output
    //@|         r == hdr_minus_test(self),
    //@ fn src/handlers/diff_header.rs StateMachine::handle_diff_header_minus_line spec=diff_header.handle_minus
    //@ fn src/handlers/diff_header.rs StateMachine::test_diff_header_file_operation_line
    //@| ensures r ==> (self.state is DiffHeader || self.source == Source::DiffUnified),  // @C04,C14:rename.and.copy.lines.are.looked.for.only.in.a.diff.header
    //@|         r == ((self.state is DiffHeader || self.source == Source::DiffUnified) && (is_prefix("deleted file mode "@, self.line@) || is_prefix("new file mode "@, self.line@))),  // @C04,C14:new.file.and.deleted.file.lines.are.claimed.by.their.prefix
    //@ fn src/handlers/diff_header.rs StateMachine::handle_diff_header_file_operation_line spec=diff_header.handle_file_operation
    //@before <<<let mut handled_line = false; let (_mode_info, file_event) =>>>| proof { axiom_file_pair_eq(); axiom_string_from_str(); }
    //@ fn src/handlers/diff_header_diff.rs StateMachine::test_diff_header_diff_line
    //@| ensures r == is_prefix("diff "@, self.line@),  // @C04,C10,C14:a.file.section.starts.at.a.line.that.starts.with.diff
    //@ fn src/handlers/diff_header_diff.rs StateMachine::handle_diff_header_diff_line spec=diff_header.handle_diff_line
    //@after <<<self.current_file_pair = Some((self.minus_file.clone(), self.plus_file.clone()));>>>| let ghost h0 = self.painter.writer.hist(); let ghost ob0 = self.painter.output_buffer@;
    //@before#2/2 <<<Ok(>>>| assert(/* @C04,C14:the.diff.line.is.passed.on.as.it.is.exactly.when.delta.does.not.write.a.file.header.of.its.own.in.its.place */ self.painter.writer.hist() == (if should_handle_spec(&*self) && !self.config.color_only { h0 } else { h0.push(Ev::Flush(ob0)).push(Ev::Text(frl_spec(self.raw_line@, self.config), true)) }));
    //@before <<<self.handle_pending_line_with_diff_name()?;>>>| assert(/* @C10,C14:hdl.pending.header.is.written.with.the.previous.sections.data */ self.diff_line == old(self).diff_line && self.minus_file == old(self).minus_file && self.plus_file == old(self).plus_file && self.mode_info == old(self).mode_info && self.current_file_pair == old(self).current_file_pair && self.handled_diff_header_header_line_file_pair == old(self).handled_diff_header_header_line_file_pair);
    //@ fn src/handlers/mod.rs StateMachine::handle_additional_cases spec=diff_header.handle_additional_cases
    //@before <<<self.state = to_state;>>>| assert(/* @C10,C14:the.mode.information.of.the.section.before.has.gone.into.that.sections.own.header.before.the.header.of.this.line.is.written */ old(self).state is DiffHeader && !(self.config.file_style.is_omitted && !self.config.color_only) ==> self.mode_info@.len() == 0);
}

} // verus!
fn main() {}
