//@ include prelude/header.rs
//@ unit U24 ansi/mod.rs truncate_str_impl: a truncated string is never wider than asked and keeps every escape sequence of the input (C07, C09), terminates (C03)
verus! {
//@ include prelude/base.rs
//@ include prelude/std_assumed.rs
//@ broadcast vax::vax_group wx::wx_group axiom_cow_to_string

// ---- uninterpreted measures of a string with escape sequences; only how they behave under appending matters ----
pub mod wx {
    use vstd::prelude::*;
    /// display width with escape sequences ignored (`measure_text_width`)
    pub uninterp spec fn mtw(s: Seq<char>) -> nat;
    /// the escape sequences of a string, in order (the `is_ansi` items of `ansi_strings_iterator`)
    pub uninterp spec fn esc_seq(s: Seq<char>) -> Seq<Seq<char>>;
    /// display width of one grapheme cluster (unicode-width)
    pub uninterp spec fn gw(g: Seq<char>) -> nat;
    pub uninterp spec fn is_esc_item(t: Seq<char>) -> bool;
    pub uninterp spec fn is_grapheme(g: Seq<char>) -> bool;
    /// ASSUMED: appending a whole escape-sequence item adds no width and exactly that escape sequence
    pub broadcast axiom fn ax_esc_item(a: Seq<char>, t: Seq<char>)
        requires is_esc_item(t),
        ensures #![trigger mtw(a + t)] #![trigger esc_seq(a + t)] mtw(a + t) == mtw(a), esc_seq(a + t) == esc_seq(a).push(t);
    /// ASSUMED: appending one grapheme of plain text adds its width and no escape sequence
    pub broadcast axiom fn ax_grapheme(a: Seq<char>, g: Seq<char>)
        requires is_grapheme(g),
        ensures #![trigger mtw(a + g)] #![trigger esc_seq(a + g)] mtw(a + g) == mtw(a) + gw(g), esc_seq(a + g) == esc_seq(a);
    pub broadcast axiom fn ax_empty()
        ensures #![trigger mtw(Seq::<char>::empty())] #![trigger esc_seq(Seq::<char>::empty())]
            mtw(Seq::<char>::empty()) == 0, esc_seq(Seq::<char>::empty()) == Seq::<Seq<char>>::empty();
    /// ASSUMED: a space is one grapheme of width 1
    pub broadcast axiom fn ax_space()
        ensures #![trigger is_grapheme(seq![' '])] is_grapheme(seq![' ']), gw(seq![' ']) == 1;
    /// ASSUMED: appending a string that was itself produced by this function (whole graphemes and whole escape
    /// sequences) adds its width; its escape sequences follow those already there
    pub broadcast axiom fn ax_append_whole(a: Seq<char>, b: Seq<char>)
        ensures #![trigger mtw(a + b)] #![trigger esc_seq(a + b)] mtw(a + b) == mtw(a) + mtw(b),
                esc_seq(a + b).len() >= esc_seq(a).len() && esc_seq(a + b).subrange(0, esc_seq(a).len() as int) == esc_seq(a);
    pub broadcast group wx_group { ax_esc_item, ax_grapheme, ax_empty, ax_space, ax_append_whole }
}
pub use wx::*;

/// the escape sequences among the first n items
pub open spec fn esc_items(items: Seq<(&str, bool)>, n: int) -> Seq<Seq<char>>
    decreases n
{
    if n <= 0 || n > items.len() { Seq::empty() }
    else if items[n - 1].1 { esc_items(items, n - 1).push(items[n - 1].0@) }
    else { esc_items(items, n - 1) }
}
/// (R3) `ansi_strings_iterator(s).collect::<Vec<(&str, bool)>>()`. ASSUMED: the items flagged `is_ansi` are
/// exactly the escape sequences of s, in order.
#[verifier::external_body]
pub fn verif_ansi_items<'a>(s: &'a str) -> (r: Vec<(&'a str, bool)>)
    ensures esc_seq(s@) == esc_items(r@, r@.len() as int),
            forall|i: int| 0 <= i < r@.len() && (#[trigger] r@[i]).1 ==> is_esc_item(r@[i].0@),
{ unimplemented!() }
/// (R3) `strip_ansi_codes_from_strings_iterator(items.iter().copied()).width()`: the display width of s
#[verifier::external_body]
pub fn verif_plain_width(s: &str) -> (r: usize) ensures r == mtw(s@) { unimplemented!() }
#[verifier::external_body]
pub fn measure_text_width(s: &str) -> (r: usize) ensures r == mtw(s@) { unimplemented!() }
/// (R3) `t.graphemes(true)` as a vector (unicode-segmentation)
#[verifier::external_body]
pub fn verif_graphemes<'a>(t: &'a str) -> (r: Vec<&'a str>)
    ensures forall|i: int| 0 <= i < r@.len() ==> is_grapheme((#[trigger] r@[i])@),
{ unimplemented!() }
/// (R3) `g.width()` (unicode-width). ASSUMED: a grapheme is at most two columns wide (the code debug_asserts it).
#[verifier::external_body]
pub fn verif_width(g: &str) -> (r: usize) ensures r == gw(g@), r <= 2 { unimplemented!() }
/// `Cow<str>::to_string()`: the text
pub broadcast axiom fn axiom_cow_to_string(c: &Cow<'_, str>, r: String)
    ensures #[trigger] vstd::string::to_string_from_display_ensures::<Cow<'_, str>>(c, r) <==> r@ == cow_view(c);

// ---- strip_ansi_codes: every escape sequence goes, whatever its kind ----
/// the text of s without its escape sequences: `strip_ansi_codes_from_strings_iterator(ansi_strings_iterator(s))`
/// (the iterator - U26 - knows CSI, OSC and other ESC sequences); uninterpreted
pub uninterp spec fn stripped(s: Seq<char>) -> Seq<char>;
#[verifier::external_body]
pub struct VItems<'a> { _p: std::marker::PhantomData<&'a ()> }
impl<'a> VItems<'a> { pub uninterp spec fn of(&self) -> Seq<char>; }
#[verifier::external_body]
pub fn ansi_strings_iterator<'a>(s: &'a str) -> (r: VItems<'a>) ensures r.of() == s@ { unimplemented!() }
#[verifier::external_body]
pub fn strip_ansi_codes_from_strings_iterator<'a>(items: VItems<'a>) -> (r: String) ensures r@ == stripped(items.of()) { unimplemented!() }
//@ fn src/ansi/mod.rs strip_ansi_codes
//@| ensures r@ == stripped(s@),  // @C08,C09:every.escape.sequence.of.a.line.is.stripped.whatever.its.kind.there.is.no.shortcut.that.looks.for.one.kind.only

/// the fill character for a cut double-width grapheme is one column wide (callers pass `Some(' ')` or `None`)
pub open spec fn fill_ok(fill2w: Option<char>) -> bool {
    fill2w matches Some(c) ==> is_grapheme(seq![c]) && gw(seq![c]) == 1
}

//@ fn src/ansi/mod.rs truncate_str_impl
//@| requires fill_ok(fill2w), display_width < usize::MAX - 2,
//@| ensures mtw(s@) > display_width ==> mtw(cow_view(&r)) <= display_width,  // @C07,C09:a.truncated.string.is.not.wider.than.asked
//@|         mtw(s@) <= display_width ==> cow_view(&r) == s@,  // @C09:a.string.that.fits.is.returned.unchanged
//@|         esc_seq(cow_view(&r)).len() >= esc_seq(s@).len() && esc_seq(cow_view(&r)).subrange(0, esc_seq(s@).len() as int) == esc_seq(s@),  // @C09:truncation.keeps.every.escape.sequence.of.the.input.in.order
//@| decreases tail@.len(),
//@rewrite <<<ansi_strings_iterator(s).collect::<Vec<(&str, bool)>>()>>> => <<<verif_ansi_items(s)>>>
//@rewrite <<<strip_ansi_codes_from_strings_iterator(items.iter().copied()).width()>>> => <<<verif_plain_width(s)>>>
//@rewrite <<<for (t, is_ansi) in items {>>> => <<<let ghost items0 = items@; for (t, is_ansi) in it: items {>>>
//@rewrite <<<for g in t.graphemes(true) {>>> => <<<for g in it2: verif_graphemes(t) {>>>
//@rewrite <<<let width_of_grapheme = g.width();>>> => <<<let width_of_grapheme = verif_width(g);>>>
//@rewrite <<<for _ in 0..display_width.saturating_sub(used) {>>> => <<<for _k in 0..display_width.saturating_sub(used) {>>>
//@before <<<truncate_str_impl(tail, display_width, "", fill2w)>>>| proof { reveal_strlit(""); }
//@before <<<return Cow::from(s);>>>| proof { let e = esc_seq(s@); assert(e.subrange(0, e.len() as int) =~= e); }
//@before <<<let mut used = >>>| proof { reveal_strlit(""); }
//@after <<<let mut result = String::new();>>>| proof { assert(result@ =~= Seq::<char>::empty()); }
//@before <<<if width_of_grapheme == 2 && used < display_width {>>>| let ghost r0 = result@;
//@after <<<used < display_width { result.push(fillchar);>>>| proof { assert(result@ =~= r0 + seq![fillchar]); assert(mtw(result@) == mtw(r0) + 1); assert(esc_seq(result@) == esc_seq(r0)); }
//@before <<<result.push_str(&result_tail);>>>| proof { let e = esc_seq(s@); assert(e.subrange(0, e.len() as int) =~= e); }
//@ghostdefault truncated: bool = false
//@loop 1| invariant fill_ok(fill2w), mtw(result@) + mtw(result_tail@) <= display_width, display_width < usize::MAX - 2,
//@loop 1|     !truncated ==> used == mtw(result@) + mtw(result_tail@),
//@loop 1|     it.seq() == items0, esc_seq(s@) == esc_items(items0, items0.len() as int),
//@loop 1|     forall|i: int| 0 <= i < items0.len() && (#[trigger] items0[i]).1 ==> is_esc_item(items0[i].0@),
//@loop 1|     esc_seq(result@) == esc_items(items0, it.index@),
//@loop 2| invariant_except_break !truncated,
//@loop 2| invariant fill_ok(fill2w), mtw(result@) + mtw(result_tail@) <= display_width, display_width < usize::MAX - 2,
//@loop 2|     truncated || used == mtw(result@) + mtw(result_tail@),
//@loop 2|     forall|i: int| 0 <= i < it2.seq().len() ==> is_grapheme((#[trigger] it2.seq()[i])@),
//@loop 2|     esc_seq(result@) == esc_items(items0, it.index@),

//@ fn src/ansi/mod.rs truncate_str
//@| requires display_width < usize::MAX - 2,
//@| ensures mtw(s@) > display_width ==> mtw(cow_view(&r)) <= display_width,  // @C07:truncate_str.result.fits.the.panel
//@|         mtw(s@) <= display_width ==> cow_view(&r) == s@,
//@before <<<truncate_str_impl(s, display_width, tail, Some(' '))>>>| proof { assert(fill_ok(Some(' '))); }
//@ fn src/ansi/mod.rs truncate_str_short
//@| requires display_width < usize::MAX - 2,
//@| ensures mtw(s@) > display_width ==> mtw(cow_view(&r)) <= display_width,  // @C07,C09:a.short.truncation.is.never.wider.than.asked.and.leaves.a.fitting.text.alone
//@|         mtw(s@) <= display_width ==> cow_view(&r) == s@,

} // verus!
fn main() {}
