//@ include prelude/header.rs
//@ unit U35 features/side_by_side.rs + paint.rs: what one row of a side-by-side block does to the two line-number counters (C05), indices in range (C03)
verus! {
//@ include prelude/base.rs
//@ include prelude/std_assumed.rs
//@ include prelude/state.rs
//@ include prelude/ansi_term.rs
//@ include prelude/style.rs
//@ shims merge_conflict grep config cli ansi side_by_side line_numbers
//@ broadcast vax::vax_group
//@ include prelude/minusplus.rs
//@ type src/paint.rs BgFillMethod derives=Clone,Copy,PartialEq,Eq,Structural
//@ type src/paint.rs BgShouldFill derives=Clone,Copy,PartialEq,Eq,Structural
pub type LineSections<'a, S> = Vec<(S, &'a str)>;
#[verifier::external_body]
pub struct SyntectStyle { _p: u8 }
//@ type src/wrapping.rs WrapConfig keep=max_lines noderive
//@ type src/config.rs Config keep=keep_plus_minus_markers,plus_style,minus_style,wrap_config
pub type SideBySideLineWidth = MinusPlus<usize>;
pub mod format {
    use vstd::prelude::*;
    #[verifier::external_body]
    pub struct FormatStringData<'a> { _p: std::marker::PhantomData<&'a ()> }
}
//@ type src/features/line_numbers.rs LineNumbersData noderive
impl Style {
    /// (trusted shim) `Style::paint`: the styled text; no counter is in sight of it
    #[verifier::external_body]
    pub fn paint<'a>(self, s: &'a str) -> ansi_term::ANSIString<'a> { unimplemented!() }
}

pub open spec fn inc(n: usize) -> usize { if n < usize::MAX { (n + 1) as usize } else { n } }
/// The table of `linenumbers_and_styles` (U07 proves it of the function itself): what showing a row in this state does
/// to (old-file counter, new-file counter)
pub open spec fn ln_step(c: (usize, usize), state: State, increment: bool) -> (usize, usize) {
    if !increment { c }
    else if state is HunkMinus { (inc(c.0), c.1) }
    else if state is HunkPlus { (c.0, inc(c.1)) }
    else if state is HunkZero { (inc(c.0), inc(c.1)) }
    else { c }
}
pub open spec fn ctr(d: &LineNumbersData) -> (usize, usize) { (d.line_number.minus, d.line_number.plus) }
/// everything of the line-number data but the two counters
pub open spec fn rest_kept(a: &LineNumbersData, b: &LineNumbersData) -> bool { a.plus_file == b.plus_file && a.hunk_max_line_number_width == b.hunk_max_line_number_width }

//@ stub src/features/line_numbers.rs linenumbers_and_styles spec=line_numbers.linenumbers_and_styles
/// (R3) `ansi_strings.extend(line_numbers::format_and_paint_line_numbers(&data, panel, styles, numbers, config))`: the
/// painted fields are appended to the row's text; the data is only read (`as_ref`)
#[verifier::external_body]
pub fn verif_append_number_fields(line_numbers: MinusPlus<Option<usize>>, styles: MinusPlus<Style>) { unimplemented!() }

//@ define OLD (*old(line_numbers_data))->0
//@ define NEW (*final(line_numbers_data))->0
//@ define LINK (*final(line_numbers_data) is Some) == (*old(line_numbers_data) is Some), *old(line_numbers_data) is Some ==> *final(${NEW}) == *final(${OLD}) && rest_kept(&*${NEW}, &*${OLD})

// the part of Painter::paint_line that deals with the line-number field (nothing after it names `line_numbers_data`)
//@ region src/paint.rs Painter::paint_line
//@sig pub fn paint_line_number_field_region(state: &State, line_numbers_data: &mut Option<&mut LineNumbersData>, side_by_side_panel: Option<PanelSide>, config: &Config)
//@from <<<let output_line_numbers = line_numbers_data.is_some();>>>
//@until <<<let superimposed = superimpose_style_sections(>>>
//@| ensures ${LINK},
//@|     *old(line_numbers_data) is Some ==> ctr(&*${NEW}) == ln_step(ctr(&*${OLD}), *state, side_by_side_panel != Some(Left)),  // @C05:painting.the.left.half.of.a.row.moves.no.counter.the.other.half.and.a.whole.row.move.them.by.the.table
//@rewrite <<<ansi_strings.extend(line_numbers::format_and_paint_line_numbers( line_numbers_data.as_ref().unwrap(), side_by_side_panel, styles, line_numbers, config, ))>>> => <<<verif_append_number_fields(line_numbers, styles)>>>

pub struct Painter { _p: u8 }
impl Painter {
    // ASSUMED of the whole function: what its region above is proved to do
    //@ stub src/paint.rs Painter::paint_line
    //@| ensures ${LINK},
    //@|     *old(line_numbers_data) is Some ==> ctr(&*${NEW}) == ln_step(ctr(&*${OLD}), *state, side_by_side_panel != Some(Left)),
}

/// the state `paint_minus_or_plus_panel_line` hands to the line-number field of an EMPTY half row
pub open spec fn opposite(s: State) -> State {
    match s { State::HunkMinus(DiffType::Unified, r) => State::HunkPlus(DiffType::Unified, r), State::HunkPlus(DiffType::Unified, r) => State::HunkMinus(DiffType::Unified, r), _ => s }
}
pub open spec fn empty_half_state_ok(s: State) -> bool { (s matches State::HunkMinus(DiffType::Unified, _)) || (s matches State::HunkPlus(DiffType::Unified, _)) }
pub open spec fn field_state(line_index: Option<usize>, s: State) -> State { if line_index is Some { s } else { opposite(s) } }

//@ fn src/features/side_by_side.rs paint_minus_or_plus_panel_line
//@| requires line_index matches Some(i) ==> i < syntax_style_sections@.len() && i < diff_style_sections@.len(),  // @C03:the.row.names.a.line.that.exists
//@|     line_index is None ==> empty_half_state_ok(*state),  // @C03:an.empty.half.row.is.a.plain.minus.or.plus.row
//@| ensures ${LINK},
//@|     *old(line_numbers_data) is Some ==> ctr(&*${NEW}) == ln_step(ctr(&*${OLD}), field_state(line_index, *state), panel_side != Left),  // @C05:the.empty.half.of.a.row.is.numbered.with.the.state.of.the.other.side.whose.counter.then.moves

#[verifier::external_body]
pub fn pad_panel_line_to_width(panel_line: &mut String, panel_line_is_empty: bool, line_index: Option<usize>, diff_style_sections: &[LineSections<'_, Style>], lines_have_homolog: Option<&[bool]>, state: &State, panel_side: PanelSide, background_color_extends_to_terminal_width: BgShouldFill, config: &Config)
{ unimplemented!() }

//@ fn src/features/side_by_side.rs paint_left_panel_minus_line
//@| requires line_index matches Some(i) ==> i < syntax_style_sections@.len() && i < diff_style_sections@.len(),
//@|     line_index is None ==> empty_half_state_ok(*state),
//@| ensures ${LINK},
//@|     *old(line_numbers_data) is Some ==> ctr(&*${NEW}) == ctr(&*${OLD}),  // @C05:the.left.half.of.a.row.moves.no.counter
//@ fn src/features/side_by_side.rs paint_right_panel_plus_line
//@| requires line_index matches Some(i) ==> i < syntax_style_sections@.len() && i < diff_style_sections@.len(),
//@|     line_index is None ==> empty_half_state_ok(*state),
//@| ensures ${LINK},
//@|     *old(line_numbers_data) is Some ==> ctr(&*${NEW}) == ln_step(ctr(&*${OLD}), field_state(line_index, *state), true),  // @C05:the.right.half.of.a.row.moves.the.counters.by.the.table

/// the row begins a removed line (not a continuation row of a wrapped one, not an empty left half)
pub open spec fn begins_removed(ix: Option<usize>, states: Seq<State>) -> bool { ix matches Some(i) && states[i as int] is HunkMinus }
/// the row begins an added line
pub open spec fn begins_added(ix: Option<usize>, states: Seq<State>) -> bool { ix matches Some(i) && states[i as int] is HunkPlus }
/// the states wrapping gives the rows of a block: the left ones are removed lines or their continuation rows, the right ones added lines or theirs
pub open spec fn row_states_ok(ix: Option<usize>, states: Seq<State>, left: bool) -> bool {
    ix matches Some(i) ==> i < states.len() && (if left { states[i as int] is HunkMinus || states[i as int] is HunkMinusWrapped } else { states[i as int] is HunkPlus || states[i as int] is HunkPlusWrapped })
}

// one row of paint_minus_and_plus_lines_side_by_side: the body of its loop over the alignment
//@ region src/features/side_by_side.rs paint_minus_and_plus_lines_side_by_side
//@sig pub fn sbs_row_region<'a>(minus_line_index: Option<usize>, plus_line_index: Option<usize>, line_states: &LeftRight<Vec<State>>, syntax_sections: &LeftRight<Vec<LineSections<'a, SyntectStyle>>>, diff_sections: &LeftRight<Vec<LineSections<'a, Style>>>, lines_have_homolog: &LeftRight<Vec<bool>>, line_numbers_data: &mut LineNumbersData, bg_should_fill: LeftRight<BgShouldFill>, output_buffer: &mut String, config: &Config)
//@fromafter <<<for (minus_line_index, plus_line_index) in line_alignment>>>
//@toblock
//@| requires row_states_ok(minus_line_index, line_states.minus@, true), row_states_ok(plus_line_index, line_states.plus@, false),  // @C03:sbs.row.states.assumed
//@|     minus_line_index matches Some(i) ==> i < syntax_sections.minus@.len() && i < diff_sections.minus@.len(),
//@|     plus_line_index matches Some(i) ==> i < syntax_sections.plus@.len() && i < diff_sections.plus@.len(),
//@|     minus_line_index is Some || plus_line_index is Some,  // (every entry of the alignment names a line: U32 `entry_ok` for infer_edits; assumed of wrap_minusplus_block)
//@|     old(line_numbers_data).line_number.minus < usize::MAX && old(line_numbers_data).line_number.plus < usize::MAX,
//@| ensures final(line_numbers_data).line_number.minus == (if begins_removed(minus_line_index, line_states.minus@) { inc(old(line_numbers_data).line_number.minus) } else { old(line_numbers_data).line_number.minus }),  // @C05:the.old.file.counter.advances.on.exactly.the.rows.that.begin.a.removed.line
//@|     final(line_numbers_data).line_number.plus == (if begins_added(plus_line_index, line_states.plus@) { inc(old(line_numbers_data).line_number.plus) } else { old(line_numbers_data).line_number.plus }),  // @C05:the.new.file.counter.advances.on.exactly.the.rows.that.begin.an.added.line
//@|     rest_kept(final(line_numbers_data), old(line_numbers_data)),

// one row of paint_zero_lines_side_by_side (an unchanged line or a continuation row of one): both halves are painted
// with the same state, the left one first
/// (R3) `painted_prefix.clone()` (an `ansi_term::ANSIString`)
#[verifier::external_body]
pub fn verif_clone_prefix<'a>(p: &Option<ansi_term::ANSIString<'a>>) -> Option<ansi_term::ANSIString<'a>> { unimplemented!() }
//@ region src/features/side_by_side.rs paint_zero_lines_side_by_side
//@sig pub fn sbs_zero_row_region<'a>(syntax_sections: LineSections<'a, SyntectStyle>, diff_sections: &LineSections<'a, Style>, state: State, line_index: usize, diff_style_sections: Vec<LineSections<'a, Style>>, line_numbers_data: &mut Option<&mut LineNumbersData>, painted_prefix: Option<ansi_term::ANSIString>, background_color_extends_to_terminal_width: BgShouldFill, output_buffer: &mut String, config: &Config)
//@from <<<for panel_side in>>>
//@toblock
//@| requires *old(line_numbers_data) is Some ==> (*old(line_numbers_data))->0.line_number.minus < usize::MAX && (*old(line_numbers_data))->0.line_number.plus < usize::MAX,
//@| ensures ${LINK},
//@|     *old(line_numbers_data) is Some ==> ctr(&*${NEW}) == (if state is HunkZero { (inc(ctr(&*${OLD}).0), inc(ctr(&*${OLD}).1)) } else if state is HunkZeroWrapped { ctr(&*${OLD}) } else { ln_step(ctr(&*${OLD}), state, true) }),  // @C05:a.row.that.begins.an.unchanged.line.advances.both.counters.once.a.continuation.row.advances.none
//@rewrite <<<for panel_side in &[>>> => <<<let ghost l0 = *line_numbers_data; for panel_side in it: &[>>>
//@rewrite <<<painted_prefix.clone()>>> => <<<verif_clone_prefix(&painted_prefix)>>>
//@loop 1| invariant it.seq().len() == 2, it.seq()[0] == Left, it.seq()[1] == Right,
//@loop 1|     (*line_numbers_data is Some) == (l0 is Some),
//@loop 1|     l0 is Some ==> *final((*line_numbers_data)->0) == *final(l0->0) && rest_kept(&*(*line_numbers_data)->0, &*l0->0)
//@loop 1|         && ctr(&*(*line_numbers_data)->0) == (if it.index@ <= 1 { ctr(&*l0->0) } else { ln_step(ctr(&*l0->0), state, true) }),

// ---- whether the lines of a block are wrapped at all (C07) ----
/// what `available_line_width` / `has_long_lines` answer (the functions themselves: closures over `&mut` captures and
/// iterator adapters, not under contract)
pub uninterp spec fn avail_spec(config: &Config, data: &LineNumbersData) -> SideBySideLineWidth;
pub uninterp spec fn long_lines_spec(lines: LeftRight<&Vec<(String, State)>>, w: SideBySideLineWidth) -> (bool, LeftRight<Vec<bool>>);
//@ stub src/features/side_by_side.rs available_line_width
//@| ensures r == avail_spec(config, data),
//@ stub src/features/side_by_side.rs has_long_lines
//@| ensures r == long_lines_spec(*lines, *line_width),
/// (R3) `LeftRight::default()`
#[verifier::external_body]
pub fn verif_lr_default<T>() -> LeftRight<T> { unimplemented!() }

//@ region src/features/side_by_side.rs paint_minus_and_plus_lines_side_by_side
//@sig pub fn sbs_whether_to_wrap_region(lines: LeftRight<&Vec<(String, State)>>, line_numbers_data: &LineNumbersData, config: &Config) -> (r: (bool, SideBySideLineWidth, LeftRight<Vec<bool>>))
//@from <<<let (should_wrap, line_width, long_lines) = {>>>
//@to <<<(should_wrap, line_width, long_lines) } };>>>
//@tail (should_wrap, line_width, long_lines)
//@| ensures r.0 == (config.wrap_config.max_lines != 1 && long_lines_spec(lines, avail_spec(config, line_numbers_data)).0),  // @C07:the.lines.of.a.block.are.wrapped.whenever.one.is.too.long.for.its.panel.unless.wrapping.is.switched.off.and.zero.means.no.limit
//@|     config.wrap_config.max_lines != 1 ==> r.1 == avail_spec(config, line_numbers_data) && r.2 == long_lines_spec(lines, r.1).1,
//@rewriteall <<<LeftRight::default()>>> => <<<verif_lr_default()>>>

} // verus!
fn main() {}
