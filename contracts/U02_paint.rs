//@ include prelude/header.rs
//@ unit U02 paint.rs core: emit, paint_buffered_minus_and_plus_lines, prepare (C01, C02, C11)
verus! {
//@ set PAINTER_EXTRA ,config,highlighter
//@ include prelude/sm_env.rs

//@ type src/minusplus.rs MinusPlus

impl<T> MinusPlus<T> {
    //@ fn src/minusplus.rs MinusPlus::new
    //@| ensures r.minus == minus, r.plus == plus,  // @C01:minusplus.new.keeps.the.sides
}

//@ stub src/paint.rs paint_minus_and_plus_lines spec=paint.paint_minus_and_plus_lines
//@ stub src/utils/tabs.rs remove_prefix_and_expand spec=tabs.remove_prefix_and_expand

impl<'p> Painter<'p> {
    //@ fn src/paint.rs Painter::emit spec=paint.emit od=off flush=on
    //@before <<<self.output_buffer.clear();>>>| proof { lemma_hist_lines_push(old(self).writer.hist(), Ev::Flush(old(self).output_buffer@)); }
    //@ fn src/paint.rs Painter::paint_buffered_minus_and_plus_lines spec=paint.paint_buffered_minus_and_plus_lines
}

//@ fn src/paint.rs prepare spec=paint.prepare
//@before <<<"\n".to_string()>>>| proof { reveal_strlit("\n"); }

} // verus!
fn main() {}
