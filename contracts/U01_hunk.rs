//@ unit U01 handlers/hunk.rs: handle_hunk_line (C01 once/in-order, C11 lag, OD, BufInv)
use vstd::prelude::*;
use std::borrow::Cow;
use std::cmp::min;
verus! {
//@ include prelude/base.rs
//@ include prelude/state.rs

//@ shims merge_conflict grep tabs utils::tabs config

#[verifier::external_body]
pub struct TabCfg { _p: u8 }
//@ type src/config.rs Config keep=line_buffer_size,tab_cfg

//@ type src/paint.rs Painter keep=minus_lines,plus_lines,writer,output_buffer
//@ type src/delta.rs StateMachine keep=line,raw_line,state,painter,config,minus_line_counter

impl DiffType {
    //@ stub src/delta.rs DiffType::n_parents
}
impl AmbiguousDiffMinusCounter {
    // assumed: decrements an isize (underflow needs 2^63 input lines; not an obligation)
    //@ stub src/handlers/hunk_header.rs AmbiguousDiffMinusCounter::count_line
}

impl<'p> Painter<'p> {
    //@ stub src/paint.rs Painter::paint_buffered_minus_and_plus_lines spec=paint.paint_buffered_minus_and_plus_lines
    //@ stub src/paint.rs Painter::paint_zero_line spec=paint.paint_zero_line
    //@ stub src/paint.rs Painter::emit spec=paint.emit
}

//@ stub src/paint.rs prepare
//@ stub src/handlers/hunk.rs is_word_diff
//@ stub src/handlers/hunk.rs new_line_state
//@ stub src/utils/tabs.rs expand

impl StateMachine<'_> {
    //@ stub src/handlers/hunk_header.rs StateMachine::emit_hunk_header_line spec=hunk_header.emit_hunk_header_line
    //@ fn src/handlers/hunk.rs StateMachine::test_hunk_line
    //@ fn src/handlers/hunk.rs StateMachine::handle_hunk_line spec=hunk.handle_hunk_line
}

} // verus!
fn main() {}
