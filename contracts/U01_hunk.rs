//@ include prelude/header.rs
//@ unit U01 handlers/hunk.rs: handle_hunk_line (C01 once/in-order/text, C11 lag, OD, BufInv)
verus! {
//@ set CONFIG_EXTRA ,inspect_raw_lines,git_minus_style,git_plus_style
//@ include prelude/sm_env.rs
//@ include prelude/line_state.rs


impl DiffType {
    //@ stub src/delta.rs DiffType::n_parents spec=delta.n_parents
}
impl AmbiguousDiffMinusCounter {
    /// what counting one line makes of the counter (U30 has the function itself under contract)
    pub uninterp spec fn counted_once(&self) -> Self;
    //@ stub src/handlers/hunk_header.rs AmbiguousDiffMinusCounter::count_line
    //@| ensures *final(self) == old(self).counted_once(),
}

impl<'p> Painter<'p> {
    //@ stub src/paint.rs Painter::paint_buffered_minus_and_plus_lines spec=paint.paint_buffered_minus_and_plus_lines
    //@ stub src/paint.rs Painter::paint_zero_line spec=paint.paint_zero_line
    //@ stub src/paint.rs Painter::emit spec=paint.emit
}

//@ stub src/paint.rs prepare spec=paint.prepare
//@ stub src/handlers/hunk.rs is_word_diff spec=hunk.is_word_diff
//@ stub src/handlers/hunk.rs new_line_state spec=hunk.new_line_state
//@ stub src/utils/tabs.rs expand spec=tabs.expand

impl StateMachine<'_> {
    //@ stub src/handlers/hunk_header.rs StateMachine::emit_hunk_header_line spec=hunk_header.emit_hunk_header_line
    //@ fn src/handlers/hunk.rs StateMachine::test_hunk_line
    //@| ensures r == (self.state is HunkHeader || self.state is HunkZero || self.state is HunkMinus || self.state is HunkPlus),  // @C01,C02,C04:hunk.lines.are.the.lines.that.arrive.in.a.hunk.state
    // (this one query needs about 30 of the default 40 rlimit units; it gets 80 so that a harmless edit of the function does not push it over)
    //@ fn src/handlers/hunk.rs StateMachine::handle_hunk_line spec=hunk.handle_hunk_line attrs=verifier::rlimit(80)
    //@before? <<<if let State::HunkHeader(_, parsed_hunk_header, line, raw_line) = &self.state.clone()>>>| assert(/* @C01,C02,C11:hhl.order.step */ all_lines(&self.painter) =~= all_lines(&old(self).painter));
    //@before <<<self.state = match new_line_state(>>>| assert(/* @C01,C02,C11:hhl.order.step */ all_lines(&self.painter) =~= all_lines(&old(self).painter)); let ghost mid = all_lines(&self.painter);
    //@before#1/2 <<<let n_parents = diff_type.n_parents(); let line = prepare(&self.line, n_parents, self.config);>>>| assert(/* @C01,C02,C11:hhl.order.step */ all_lines(&self.painter) =~= mid); assert(self.painter.plus_lines@.len() == 0);
    //@after <<<self.painter.minus_lines.push((line, state.clone()));>>>| assert(/* @C01,C02,C11:hhl.order.step */ all_lines(&self.painter) =~= mid.push(self.painter.minus_lines@.last().0@));
    //@after <<<self.painter.plus_lines.push((line, state.clone()));>>>| assert(/* @C01,C02,C11:hhl.order.step */ all_lines(&self.painter) =~= mid.push(self.painter.plus_lines@.last().0@));
    //@before <<<let n_parents = if is_word_diff()>>>| assert(/* @C01,C02,C11:hhl.order.step */ all_lines(&self.painter) =~= mid); assert(pending(&self.painter) =~= Seq::<Seq<char>>::empty());
    //@before <<<self.painter .output_buffer .push_str(>>>| assert(/* @C01,C02,C11:hhl.order.step */ all_lines(&self.painter) =~= mid); assert(pending(&self.painter) =~= Seq::<Seq<char>>::empty()); let ghost buf0 = self.painter.output_buffer@;
    //@before <<<self.painter.output_buffer.push('\n');>>>| assert(self.painter.output_buffer@ == buf0 + expand_spec(self.raw_line@, &self.config.tab_cfg));
    //@after <<<self.painter.paint_zero_line(&line, state.clone());>>>| assert(/* @C01,C02,C11:hhl.order.step */ all_lines(&self.painter) =~= mid.push(line@));
    //@after <<<self.painter.output_buffer.push('\n');>>>| assert(/* @C01,C02,C11:hhl.order.step */ all_lines(&self.painter) =~= mid.push(vis(expand_spec(self.raw_line@, &self.config.tab_cfg))));
    //@before <<<if !self.test_hunk_line() {>>>| let ghost mut fell_through = false; let ghost mut header_shown = false;
    //@after? <<<self.emit_hunk_header_line(parsed_hunk_header, line, raw_line)?;>>>| proof { header_shown = true; }
    //@before <<<self.state = match new_line_state(>>>| assert(/* @C02,C14:a.hunk.header.that.was.held.back.is.shown.before.the.first.line.of.its.hunk */ old(self).state is HunkHeader ==> header_shown);
    //@before <<<self.painter.output_buffer.push('\n');>>>| proof { fell_through = true; }
    //@before#2/2 <<<Ok(>>>| assert(/* @C01:a.line.of.a.hunk.that.is.no.hunk.line.leaves.the.marker.columns.of.the.hunk.alone */ fell_through ==> self.state == State::HunkZero(hunk_dt(old(self).state), None));
    //@before#2/2 <<<Ok(>>>| assert(/* @C01,C02,C11:hhl.order.step */ all_lines(&self.painter).drop_last() =~= all_lines(&old(self).painter));
    // the same function once more (same text), for the two clauses about the KIND of the line only: kept apart from the
    // bookkeeping of the line history above so that each query stays small
    //@ fn src/handlers/hunk.rs StateMachine::handle_hunk_line as=handle_hunk_line_kinds spec=hunk.handle_hunk_line_kinds
    //@before <<<if !self.test_hunk_line() {>>>| let ghost mut fell_through = false;
    //@before <<<self.painter.output_buffer.push('\n');>>>| proof { fell_through = true; }
    //@before#2/2 <<<Ok(>>>| assert(/* @C01,C10,C14:the.lines.of.the.old.file.removed.unchanged.and.truly.empty.ones.are.counted.once.each.and.no.other.line.is */ self.minus_line_counter == (if (!fell_through && (self.state is HunkMinus || self.state is HunkZero)) || (fell_through && old(self).line@.len() == 0) { old(self).minus_line_counter.counted_once() } else { old(self).minus_line_counter }));
}

} // verus!
fn main() {}
