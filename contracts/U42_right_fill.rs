//@ include prelude/header.rs
//@ unit U42 paint.rs Painter::right_fill_background_color: the fill ends with clear-to-end-of-line followed by a reset (C09); cutting off the reset it replaces never cuts a character (C03)
verus! {
//@ include prelude/base.rs
//@ include prelude/std_assumed.rs
//@ include prelude/ansi_term.rs
//@ include prelude/style.rs
//@ broadcast vax::vax_group
pub mod ansi {
    use super::*;
    //@ type src/ansi/mod.rs ANSI_CSI_CLEAR_TO_EOL
    //@ type src/ansi/mod.rs ANSI_SGR_RESET
}
/// (R3) `ansi_term::ANSIStrings(&[fill_style.paint("")]).to_string()`: the escape sequences of the style around no text; uninterpreted
pub uninterp spec fn painted_nothing(style: Style) -> Seq<char>;
#[verifier::external_body]
pub fn verif_paint_nothing(style: Style) -> (r: String) ensures r@ == painted_nothing(style) { unimplemented!() }
/// (R3) `line.to_lowercase().ends_with(&ansi::ANSI_SGR_RESET.to_lowercase())`. ASSUMED (Unicode case mapping: ESC, `[`, `0` are
/// the lower case of themselves only, `m` of `m` and `M` only - all one byte each): when it answers yes the line ends with as many
/// bytes as the reset sequence has, and they begin on a character boundary.
#[verifier::external_body]
pub fn verif_ends_with_reset_ignoring_case(line: &String) -> (r: bool)
    ensures r ==> encode_utf8(line@).len() >= ansi::ANSI_SGR_RESET.spec_bytes().len()
                  && is_char_boundary(encode_utf8(line@), encode_utf8(line@).len() - ansi::ANSI_SGR_RESET.spec_bytes().len()),
{ unimplemented!() }

//@ fn src/paint.rs Painter::right_fill_background_color spec=paint.right_fill
//@rewrite <<<&ansi_term::ANSIStrings(&[fill_style.paint("")]).to_string()>>> => <<<&verif_paint_nothing(fill_style)>>>
//@after? <<<line.push_str(ansi::ANSI_SGR_RESET);>>>| proof { let p = ansi::ANSI_CSI_CLEAR_TO_EOL@ + ansi::ANSI_SGR_RESET@; assert(/* @C09:right_fill.the.last.two.things.appended.are.clear.to.end.of.line.and.reset */ line@.subrange(line@.len() - p.len(), line@.len() as int) =~= p); }
//@rewrite <<<line .to_lowercase() .ends_with(&ansi::ANSI_SGR_RESET.to_lowercase())>>> => <<<verif_ends_with_reset_ignoring_case(line)>>>

} // verus!
fn main() {}
