//@ include prelude/header.rs
//@ unit U09 handlers/blame.rs: colour choice for blame lines (C17), no unreachable arm / division by zero (C03)
verus! {
//@ include prelude/base.rs
//@ include prelude/std_assumed.rs
//@ include prelude/ansi_term.rs
//@ include prelude/style.rs
//@ shims config
//@ broadcast vax::vax_group vstd::std_specs::hash::group_hash_axioms axiom_string_obeys_key_model axiom_maps_borrowed_functional
//@ type src/config.rs Config keep=blame_palette,blame_code_style,blame_separator_style
//@ type src/delta.rs StateMachine keep=config,blame_key_colors

use vstd::std_specs::hash::*;
// ToOwned for T: Clone: "Creates owned data from borrowed data, usually by cloning." (blanket impl calls clone)
pub assume_specification<T: Clone>[ <T as ToOwned>::to_owned ](t: &T) -> (r: T)
    ensures call_ensures(T::clone, (t,), r);
/// ASSUMED: `String`'s `Hash` and `Eq` agree (std guarantees `k1 == k2 -> hash(k1) == hash(k2)` for String),
/// so vstd's HashMap model applies to `HashMap<String, _>` (vstd ships this axiom only for integer keys).
pub broadcast axiom fn axiom_string_obeys_key_model()
    ensures #[trigger] obeys_key_model::<String>();
/// ASSUMED: a borrowed key maps to at most one value (the map is a function of the key).
pub broadcast axiom fn axiom_maps_borrowed_functional(m: Map<String, String>, k: &str, v: String, w: String)
    requires #[trigger] maps_borrowed_key_to_value(m, k, v), #[trigger] maps_borrowed_key_to_value(m, k, w),
    ensures v == w;
pub open spec fn palette_distinct(p: Seq<String>) -> bool {
    forall|i: int, j: int| 0 <= i < j < p.len() ==> p[i]@ != p[j]@
}
pub open spec fn in_palette(p: Seq<String>, c: Seq<char>) -> bool {
    exists|i: int| 0 <= i < p.len() && #[trigger] p[i]@ == c
}

pub proof fn lemma_next_mod_differs(n: int, c: int)
    requires n >= 0, c >= 1,
    ensures c >= 2 ==> (n + 1) % c != n % c,
            0 <= (n + 1) % c < c, 0 <= n % c < c,
{
    vstd::arithmetic::div_mod::lemma_mod_pos_bound(n, c);
    vstd::arithmetic::div_mod::lemma_mod_pos_bound(n + 1, c);
    if c >= 2 {
        let r = n % c;
        vstd::arithmetic::div_mod::lemma_add_mod_noop(n, 1, c);
        vstd::arithmetic::div_mod::lemma_small_mod(1, c as nat);
        assert((n + 1) % c == (r + 1) % c);
        if r + 1 < c {
            vstd::arithmetic::div_mod::lemma_small_mod((r + 1) as nat, c as nat);
        } else {
            assert(r + 1 == c);
            vstd::arithmetic::div_mod::lemma_mod_self_0(c);
        }
    }
}

impl<'a> StateMachine<'a> {
    //@ fn src/handlers/blame.rs StateMachine::get_next_color spec=blame.get_next_color
    //@afterstmt <<<let n_colors =>>>| proof { lemma_next_mod_differs(n_keys as int, n_colors as int); }
    //@ fn src/handlers/blame.rs StateMachine::get_color spec=blame.get_color
    //@rewrite <<<debug_assert!(key_color == previous_key_color);>>> => <<<debug_assert!(*key_color == *previous_key_color);>>>
    //@rewrite <<<if key_color != previous_key_color {>>> => <<<if *key_color != *previous_key_color {>>>

    // handle_blame_line: which style the code part and the separators of a blame line get
    //@ region src/handlers/blame.rs StateMachine::handle_blame_line
    //@sig pub fn blame_line_styles(&self, metadata_style: Style) -> (r: (Style, Style))
    //@fromafter <<<self.blame_metadata_style(&key, previous_key.as_deref(), is_repeat);>>>
    //@until <<<let (nr_prefix, line_number, nr_suffix)>>>
    //@tail (code_style, separator_style)
    //@| ensures r.0 == (match self.config.blame_code_style { Some(s) => s, None => metadata_style }),  // @C15,C17:a.configured.blame.code.style.is.used.as.given
    //@|         r.1 == (match self.config.blame_separator_style { Some(s) => s, None => r.0 }),  // @C17:blame.separator.style.defaults.to.the.code.style
}

} // verus!
fn main() {}
