use vstd::prelude::*;
verus! {

#[verifier::external_type_specification]
#[verifier::external_body]
pub struct ExIoError(std::io::Error);

// ---- abstract environment (generated prelude) ----
pub struct TabCfg { pub w: usize }
pub struct Config { pub line_buffer_size: usize, pub tab_cfg: TabCfg }
#[verifier::external_body]
pub struct Writer { _p: u8 }

#[derive(Clone, Debug, PartialEq, Eq)]
pub enum DiffType {
    Unified,
    Combined(MergeParents, InMergeConflict),
}
#[derive(Clone, Debug, PartialEq, Eq)]
pub enum MergeParents {
    Number(usize),
    Prefix(String),
    Unknown,
}
#[derive(Clone, Debug, PartialEq, Eq)]
pub enum InMergeConflict { Yes, No }

#[derive(Clone, Default, Debug, PartialEq, Eq)]
pub struct ParsedHunkHeader {
    code_fragment: String,
    line_numbers_and_hunk_lengths: Vec<(usize, usize)>,
}

#[derive(Clone, Debug, PartialEq, Eq)]
pub enum State {
    CommitMeta,
    DiffHeader(DiffType),
    HunkHeader(DiffType, ParsedHunkHeader, String, String),
    HunkZero(DiffType, Option<String>),
    HunkMinus(DiffType, Option<String>),
    HunkPlus(DiffType, Option<String>),
    Unknown,
}

impl DiffType {
    #[verifier::external_body]
    pub fn n_parents(&self) -> usize { unimplemented!() }
}

pub struct AmbiguousDiffMinusCounter(isize);
impl AmbiguousDiffMinusCounter {
    #[verifier::external_body]
    pub fn count_line(&mut self) { unimplemented!() }
}

pub struct Painter<'p> {
    pub minus_lines: Vec<(String, State)>,
    pub plus_lines: Vec<(String, State)>,
    pub writer: &'p mut Writer,
    pub output_buffer: String,
}

impl<'p> Painter<'p> {
    #[verifier::external_body]
    pub fn paint_buffered_minus_and_plus_lines(&mut self)
        ensures final(self).minus_lines@.len() == 0, final(self).plus_lines@.len() == 0,
    { unimplemented!() }
    #[verifier::external_body]
    pub fn paint_zero_line(&mut self, line: &str, state: State)
        ensures final(self).minus_lines@ == old(self).minus_lines@, final(self).plus_lines@ == old(self).plus_lines@,
    { unimplemented!() }
    #[verifier::external_body]
    pub fn emit(&mut self) -> (r: std::io::Result<()>)
        ensures final(self).minus_lines@ == old(self).minus_lines@, final(self).plus_lines@ == old(self).plus_lines@,
          r.is_ok() ==> final(self).output_buffer@.len() == 0
    { unimplemented!() }
}

#[verifier::external_body]
pub fn prepare(line: &str, prefix_length: usize, config: &Config) -> String { unimplemented!() }
#[verifier::external_body]
pub fn is_word_diff() -> bool { unimplemented!() }
#[verifier::external_body]
fn new_line_state(new_line: &str, new_raw_line: &str, prev_state: &State, config: &Config) -> Option<State> { unimplemented!() }

pub mod tabs {
    use super::*;
    #[verifier::external_body]
    pub fn expand(line: &str, tab_cfg: &TabCfg) -> String { unimplemented!() }
}

pub struct StateMachine<'a> {
    pub line: String,
    pub raw_line: String,
    pub state: State,
    pub painter: Painter<'a>,
    pub config: &'a Config,
    pub minus_line_counter: AmbiguousDiffMinusCounter,
}

impl StateMachine<'_> {
    #[verifier::external_body]
    pub fn emit_hunk_header_line(&mut self, parsed_hunk_header: &ParsedHunkHeader, line: &str, raw_line: &str) -> (r: std::io::Result<bool>)
      ensures final(self).painter.minus_lines@.len() == 0, final(self).painter.plus_lines@.len() == 0,
              final(self).state == old(self).state, final(self).config == old(self).config,
    { unimplemented!() }

    #[inline]
    fn test_hunk_line(&self) -> bool {
        matches!(
            self.state,
            State::HunkHeader(_, _, _, _)
                | State::HunkZero(_, _)
                | State::HunkMinus(_, _)
                | State::HunkPlus(_, _)
        )
    }

    pub fn handle_hunk_line(&mut self) -> (r: std::io::Result<bool>)
      requires old(self).config.line_buffer_size < usize::MAX,
      ensures
        final(self).config == old(self).config,
        r == Ok::<bool, std::io::Error>(true) ==> final(self).painter.output_buffer@.len() == 0
          && final(self).painter.minus_lines@.len() <= final(self).config.line_buffer_size + 1
          && final(self).painter.plus_lines@.len() <= final(self).config.line_buffer_size + 1
          && (final(self).state is HunkZero ==> final(self).painter.minus_lines@.len() == 0 && final(self).painter.plus_lines@.len() == 0),
        r == Ok::<bool, std::io::Error>(false) ==> final(self).painter == old(self).painter && final(self).state == old(self).state,
    {
        use DiffType::*;
        use State::*;

        // A true hunk line should start with one of: '+', '-', ' '. However, handle_hunk_line
        // handles all lines until the state transitions away from the hunk states.
        if !self.test_hunk_line() {
            return Ok(false);
        }
        // Don't let the line buffers become arbitrarily large -- if we
        // were to allow that, then for a large deleted/added file we
        // would process the entire file before painting anything.
        if self.painter.minus_lines.len() > self.config.line_buffer_size
            || self.painter.plus_lines.len() > self.config.line_buffer_size
        {
            self.painter.paint_buffered_minus_and_plus_lines();
        }
        if let State::HunkHeader(_, parsed_hunk_header, line, raw_line) = &self.state.clone() {
            self.emit_hunk_header_line(parsed_hunk_header, line, raw_line)?;
        }
        self.state = match new_line_state(&self.line, &self.raw_line, &self.state, self.config) {
            Some(HunkMinus(diff_type, raw_line)) => {
                if let HunkPlus(_, _) = self.state {
                    // We have just entered a new subhunk; process the previous one
                    // and flush the line buffers.
                    self.painter.paint_buffered_minus_and_plus_lines();
                }
                let n_parents = diff_type.n_parents();
                let line = prepare(&self.line, n_parents, self.config);
                let state = HunkMinus(diff_type, raw_line);
                self.painter.minus_lines.push((line, state.clone()));
                self.minus_line_counter.count_line();
                state
            }
            Some(HunkPlus(diff_type, raw_line)) => {
                let n_parents = diff_type.n_parents();
                let line = prepare(&self.line, n_parents, self.config);
                let state = HunkPlus(diff_type, raw_line);
                self.painter.plus_lines.push((line, state.clone()));
                state
            }
            Some(HunkZero(diff_type, raw_line)) => {
                // We are in a zero (unchanged) line, therefore we have just exited a subhunk (a
                // sequence of consecutive minus (removed) and/or plus (added) lines). Process that
                // subhunk and flush the line buffers.
                self.painter.paint_buffered_minus_and_plus_lines();
                let n_parents = if is_word_diff() {
                    0
                } else {
                    diff_type.n_parents()
                };
                let line = prepare(&self.line, n_parents, self.config);
                let state = State::HunkZero(diff_type, raw_line);
                self.painter.paint_zero_line(&line, state.clone());
                self.minus_line_counter.count_line();
                state
            }
            _ => {
                // The first character here could be e.g. '\' from '\ No newline at end of file'. This
                // is not a hunk line, but the parser does not have a more accurate state corresponding
                // to this.
                self.painter.paint_buffered_minus_and_plus_lines();
                self.painter
                    .output_buffer
                    .push_str(&tabs::expand(&self.raw_line, &self.config.tab_cfg));
                self.painter.output_buffer.push('\n');
                State::HunkZero(Unified, None)
            }
        };
        self.painter.emit()?;
        Ok(true)
    }
}
}
fn main() {}
