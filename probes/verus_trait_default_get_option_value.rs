use vstd::prelude::*;
use std::collections::HashMap;
verus! {
pub enum OptionValue { Boolean(bool), Int(usize), String(String) }
pub enum ProvenancedOptionValue { GitConfigValue(OptionValue), DefaultValue(OptionValue) }
use ProvenancedOptionValue::*;

#[verifier::external_body]
pub struct GitConfig { _p: u8 }
#[verifier::external_body]
pub struct Opt { _p: u8 }
impl Opt {
    #[verifier::external_body]
    pub fn features_vec(&self) -> Option<Vec<String>> { unimplemented!() }
}
#[verifier::external_body]
pub struct BuiltinFeature { _p: u8 }

pub trait GitConfigGet: Sized {
    fn git_config_get(key: &str, git_config: &GitConfig) -> Option<Self>;
}
impl GitConfig {
    #[verifier::external_body]
    pub fn get<T: GitConfigGet>(&self, key: &str) -> Option<T> { unimplemented!() }
}
#[verifier::external_body]
pub fn key_main(option_name: &str) -> String { unimplemented!() }

pub trait FromOV: Sized { fn from_ov(v: OptionValue) -> Self; }

pub trait GetOptionValue {
    fn get_option_value(
        option_name: &str,
        builtin_features: &HashMap<String, BuiltinFeature>,
        opt: &Opt,
        git_config: &mut Option<GitConfig>,
    ) -> Option<Self>
    where
        Self: Sized,
        Self: GitConfigGet,
        Self: FromOV,
    {
        if let Some(git_config) = git_config {
            if let Some(value) = git_config.get::<Self>(&key_main(option_name)) {
                return Some(value);
            }
        }
        if let Some(features) = &opt.features_vec() {
            for feature in features {
                match Self::get_provenanced_value_for_feature(
                    option_name,
                    feature,
                    builtin_features,
                    opt,
                    git_config,
                ) {
                    Some(GitConfigValue(value)) | Some(DefaultValue(value)) => {
                        return Some(Self::from_ov(value));
                    }
                    None => {}
                }
            }
        }
        None
    }
    fn get_provenanced_value_for_feature(
        option_name: &str,
        feature: &str,
        builtin_features: &HashMap<String, BuiltinFeature>,
        opt: &Opt,
        git_config: &mut Option<GitConfig>,
    ) -> Option<ProvenancedOptionValue>
    where
        Self: Sized,
        Self: GitConfigGet;
}
}
fn main() {}
