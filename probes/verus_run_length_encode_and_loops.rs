use vstd::prelude::*;
verus! {
fn run_length_encode<T>(sequence: Vec<T>) -> Vec<(T, usize)>
where
    T: Copy,
    T: PartialEq,
{
    let mut encoded = Vec::with_capacity(sequence.len());

    if sequence.is_empty() {
        return encoded;
    }

    let end = sequence.len();
    let (mut i, mut j) = (0, 1);
    let mut curr = &sequence[i];
    loop
      invariant i < j <= end, end == sequence.len(),
      decreases end - j
    {
        if j == end || sequence[j] != *curr {
            encoded.push((*curr, j - i));
            if j == end {
                return encoded;
            } else {
                curr = &sequence[j];
                i = j;
            }
        }
        j += 1;
    }
}

pub fn t1(v: &Vec<(Option<usize>, Option<usize>)>) -> usize {
    let mut n: usize = 0;
    for (m, p) in v
      invariant n <= 0
    {
        if let (Some(_), Some(_)) = (m, p) { }
    }
    n
}
pub fn t2(plus_lines: Vec<&str>, k: usize) -> usize
  requires k <= plus_lines.len()
{
    let mut n: usize = 0;
    'outer: for a in 0..3usize {
      for plus_line in &plus_lines[k..] {
        if plus_line.len() > 3 { }
      }
    }
    n
}
}
fn main() {}
