use vstd::prelude::*;
use vstd::std_specs::iter::IteratorSpec;
verus! {
pub open spec fn cnt(al: Seq<(Option<usize>, Option<usize>)>, k: int) -> int
  decreases k
{
    if k <= 0 { 0 } else { cnt(al, k - 1) + (if al[k-1].0.is_some() { 1int } else { 0 }) }
}
fn body(line_alignment: Vec<(Option<usize>, Option<usize>)>) -> (n: usize)
  ensures n == cnt(line_alignment@, line_alignment.len() as int)
{
    let ghost al = line_alignment@;
    let mut n: usize = 0;
    for (m, p) in it: line_alignment
      invariant
        it.history@ + it.iter.remaining() == al,
        it.history@.len() == it.index@,
        n == cnt(al, it.index@),
        n <= it.index@ <= al.len(),
    {
        if m.is_some() { n += 1; }
    }
    n
}
}
fn main() {}
