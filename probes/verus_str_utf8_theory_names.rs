use vstd::prelude::*;
use vstd::utf8::*;
use vstd::string::StringSliceAdditionalSpecFns;
verus! {
pub fn f(line: &str, a: usize) -> (r: usize)
  requires a <= line.spec_bytes().len(), is_char_boundary(line.spec_bytes(), a as int)
  ensures r == line.spec_bytes().len() - a
{
    let file = &line[a..];
    file.len()
}
pub fn g(line: &str, a: usize, b: usize) -> (r: usize)
  requires a <= b <= line.spec_bytes().len(), is_char_boundary(line.spec_bytes(), a as int), is_char_boundary(line.spec_bytes(), b as int)
  ensures r == b - a
{
    let file = &line[a..b];
    assert(file.spec_bytes() == line.spec_bytes().subrange(a as int, b as int));
    file.len()
}
}
fn main() {}
