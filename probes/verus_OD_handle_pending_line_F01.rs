use vstd::prelude::*;
verus! {
#[verifier::external_type_specification]
#[verifier::external_body]
pub struct ExIoError(std::io::Error);

#[verifier::external_body]
pub struct Writer { _p: u8 }
impl Writer { pub uninterp spec fn hist(&self) -> Seq<int>; }

pub struct Config { pub hyperlinks: bool, pub color_only: bool, pub file_modified_label: String }
#[derive(Clone, PartialEq, Eq)]
pub enum DiffType { Unified, Combined }
#[derive(Clone, PartialEq, Eq)]
pub enum State { DiffHeader(DiffType), HunkPlus(DiffType, Option<String>), Unknown }
#[derive(PartialEq, Eq)]
pub enum Source { GitDiff, DiffUnified, Unknown }
#[derive(PartialEq, Eq)]
pub enum FileEvent { Change, NoEvent }

pub struct Painter<'p> {
    pub minus_lines: Vec<(String, State)>,
    pub plus_lines: Vec<(String, State)>,
    pub writer: &'p mut Writer,
    pub output_buffer: String,
}
impl<'p> Painter<'p> {
    #[verifier::external_body]
    pub fn paint_buffered_minus_and_plus_lines(&mut self)
        ensures final(self).minus_lines@.len() == 0, final(self).plus_lines@.len() == 0,
                final(self).writer.hist() == old(self).writer.hist(),
    { unimplemented!() }
    #[verifier::external_body]
    pub fn emit(&mut self) -> (r: std::io::Result<()>)
        ensures r.is_ok() ==> final(self).output_buffer@.len() == 0,
                final(self).minus_lines == old(self).minus_lines, final(self).plus_lines == old(self).plus_lines,
    { unimplemented!() }
}

// contract of write_generic_diff_header_header_line: OD is its precondition
#[verifier::external_body]
pub fn write_generic_diff_header_header_line(line: &str, raw_line: &str, painter: &mut Painter, mode_info: &mut String, config: &Config) -> (r: std::io::Result<()>)
    requires old(painter).output_buffer@.len() == 0,     // OD
    ensures final(painter).output_buffer@.len() == 0, final(painter).minus_lines == old(painter).minus_lines, final(painter).plus_lines == old(painter).plus_lines,
            r.is_ok() ==> final(mode_info)@.len() == 0,
{ unimplemented!() }

#[verifier::external_body]
pub fn get_repeated_file_path_from_diff_line(line: &str) -> Option<String> { unimplemented!() }
#[verifier::external_body]
pub fn verif_format() -> String { unimplemented!() }
#[verifier::external_body]
pub fn format_file_stub(file: &str, config: &Config) -> String { unimplemented!() }

pub struct StateMachine<'a> {
    pub line: String,
    pub raw_line: String,
    pub state: State,
    pub source: Source,
    pub minus_file: String,
    pub plus_file: String,
    pub minus_file_event: FileEvent,
    pub plus_file_event: FileEvent,
    pub diff_line: String,
    pub mode_info: String,
    pub painter: Painter<'a>,
    pub config: &'a Config,
    pub current_file_pair: Option<(String, String)>,
    pub handled_diff_header_header_line_file_pair: Option<(String, String)>,
}

impl StateMachine<'_> {
    #[verifier::external_body]
    pub fn should_handle(&self) -> bool { unimplemented!() }
    #[verifier::external_body]
    fn _handle_diff_header_header_line(&mut self, comparing: bool) -> (r: std::io::Result<()>)
        requires old(self).painter.output_buffer@.len() == 0,   // OD (it writes)
        ensures final(self).painter.output_buffer@.len() == 0,
    { unimplemented!() }

    fn test_pending_line_with_diff_name(&self) -> bool {
        matches!(self.state, State::DiffHeader(_)) || self.source == Source::DiffUnified
    }

    pub fn handle_pending_line_with_diff_name(&mut self) -> std::io::Result<()>
    {
        if !self.test_pending_line_with_diff_name() {
            return Ok(());
        }

        if !self.mode_info.is_empty() {
            let label = verif_format();
            let name = get_repeated_file_path_from_diff_line(&self.diff_line).unwrap_or_default();
            let line = verif_format();
            write_generic_diff_header_header_line(
                &line,
                &line,
                &mut self.painter,
                &mut self.mode_info,
                self.config,
            )
        } else if !self.config.color_only
            && self.should_handle()
            && self.handled_diff_header_header_line_file_pair != self.current_file_pair
        {
            self._handle_diff_header_header_line(self.source == Source::DiffUnified)?;
            self.handled_diff_header_header_line_file_pair = self.current_file_pair.clone();
            Ok(())
        } else {
            Ok(())
        }
    }
}
}
fn main() {}
