use vstd::prelude::*;
use std::collections::VecDeque;
verus! {

const DELETION_COST: usize = 2;
const INSERTION_COST: usize = 2;
const INITIAL_MISMATCH_PENALTY: usize = 1;

#[derive(Clone, Copy, Debug, PartialEq, Eq)]
pub enum Operation { NoOp, Deletion, Insertion }
use Operation::*;

#[derive(Debug)]
pub struct Cell { pub parent: usize, pub operation: Operation, pub cost: usize }
impl Clone for Cell {
    fn clone(&self) -> (r: Self) ensures r == *self { Cell { parent: self.parent, operation: self.operation, cost: self.cost } }
}

pub struct Alignment<'a> {
    pub x: Vec<&'a str>,
    pub y: Vec<&'a str>,
    pub table: Vec<Cell>,
    pub dim: [usize; 2],
}

// abstracted expression: candidates.iter().min_by_key(|cell| cell.cost).unwrap().clone()
#[verifier::external_body]
fn verif_first_min_by_cost(c: &[Cell; 3]) -> (r: Cell)
  ensures (r == c[0] || r == c[1] || r == c[2]),
          r.cost <= c[0].cost, r.cost <= c[1].cost, r.cost <= c[2].cost,
{ unimplemented!() }

impl<'a> Alignment<'a> {
    pub open spec fn wf_dims(&self) -> bool {
        &&& self.dim[0] == self.y.len() + 1
        &&& self.dim[1] == self.x.len() + 1
        &&& self.table.len() == self.dim[0] * self.dim[1]
        &&& self.dim[0] * self.dim[1] <= usize::MAX
        &&& self.table.len() * 4 + 4 < usize::MAX   // cost bound head-room
    }
    pub open spec fn idx(&self, i: int, j: int) -> int { j * self.dim[1] + i }

    // cell (i,j) well formed: parent is the neighbour that matches the operation
    pub open spec fn cell_ok(&self, i: int, j: int) -> bool {
        let c = self.table[self.idx(i, j)];
        if i == 0 && j == 0 { true }
        else {
            &&& c.cost <= 2 * (i + j) + (i + j)   // loose bound: each step costs at most 3
            &&& match c.operation {
                Deletion => i > 0 && c.parent == self.idx(i - 1, j),
                Insertion => j > 0 && c.parent == self.idx(i, j - 1),
                NoOp => i > 0 && j > 0 && c.parent == self.idx(i - 1, j - 1) && self.x[i - 1] == self.y[j - 1],
            }
        }
    }


    pub open spec fn row0_ok(&self, upto: int) -> bool {
        forall|c: int| 0 <= c < upto ==> #[trigger] self.cell_ok(c, 0)
    }
    pub open spec fn col0_ok(&self, upto: int) -> bool {
        forall|r: int| 0 <= r < upto ==> #[trigger] self.cell_ok(0, r)
    }
    pub open spec fn cols_ok(&self, upto_col: int) -> bool {
        forall|c: int, r: int| 0 <= c < upto_col && 0 <= r < self.dim[0] ==> #[trigger] self.cell_ok(c, r)
    }
    pub open spec fn col_partial_ok(&self, col: int, upto_row: int) -> bool {
        forall|r: int| 0 <= r < upto_row ==> #[trigger] self.cell_ok(col, r)
    }

    proof fn lemma_idx_inj(&self, c1: int, r1: int, c2: int, r2: int)
        requires 0 <= c1 < self.dim[1], 0 <= c2 < self.dim[1], 0 <= r1, 0 <= r2, self.idx(c1, r1) == self.idx(c2, r2)
        ensures c1 == c2, r1 == r2
    {
        let d = self.dim[1] as int;
        assert(r1 == r2) by (nonlinear_arith)
            requires 0 <= c1 < d, 0 <= c2 < d, 0 <= r1, 0 <= r2, r1 * d + c1 == r2 * d + c2;
    }

    pub fn fill(&mut self)
        requires old(self).wf_dims(),
        ensures final(self).wf_dims(), final(self).x == old(self).x, final(self).y == old(self).y, final(self).dim == old(self).dim,
                final(self).cols_ok(final(self).dim[1] as int),
    {
        for i in 1..self.dim[1]
            invariant self.wf_dims(), self.x == old(self).x, self.y == old(self).y, self.dim == old(self).dim,
                      self.row0_ok(i as int),
        {
            self.table[i] = Cell {
                parent: 0,
                operation: Deletion,
                cost: i * DELETION_COST + INITIAL_MISMATCH_PENALTY,
            };
            assert(self.idx(i as int, 0) == i);
            assert(self.idx(i as int - 1, 0) == i - 1);
            assert forall|c: int| 0 <= c < i + 1 implies #[trigger] self.cell_ok(c, 0) by { }
        }
    }

    fn index(&self, i: usize, j: usize) -> (r: usize)
        requires self.wf_dims(), i < self.dim[1], j < self.dim[0]
        ensures r == self.idx(i as int, j as int), r < self.table.len()
    {
        proof {
            assert(j * self.dim[1] + i < self.dim[0] * self.dim[1]) by (nonlinear_arith)
                requires i < self.dim[1], j < self.dim[0];
        }
        j * self.dim[1] + i
    }

    fn mismatch_cost(&self, parent: usize, basic_cost: usize) -> (r: usize)
        requires parent < self.table.len(), basic_cost <= 2, self.table[parent as int].cost < usize::MAX - 3
        ensures r <= self.table[parent as int].cost + basic_cost + 1, r >= self.table[parent as int].cost
    {
        self.table[parent].cost
            + basic_cost
            + if self.table[parent].operation == NoOp {
                INITIAL_MISMATCH_PENALTY
            } else {
                0
            }
    }
}
}
fn main() {}
