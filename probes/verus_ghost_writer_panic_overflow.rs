use vstd::prelude::*;
use std::ops::{Index, IndexMut};
verus! {

#[verifier::external_type_specification]
#[verifier::external_body]
pub struct ExIoError(std::io::Error);

#[verifier::external_body]
pub struct Writer { _p: u8 }
impl Writer {
    pub uninterp spec fn hist(&self) -> Seq<int>;
}
#[verifier::external_body]
pub fn verif_write(w: &mut Writer, tag: u8) -> (r: std::io::Result<()>)
    ensures final(w).hist() == old(w).hist().push(tag as int)
{ unimplemented!() }

#[verifier::external_body]
pub fn verif_panic() -> !
    requires false
{ panic!() }

pub struct Painter<'p> {
    pub writer: &'p mut Writer,
    pub output_buffer: String,
}
impl<'p> Painter<'p> {
    pub fn emit(&mut self) -> (r: std::io::Result<()>)
        ensures r.is_ok() ==> final(self).output_buffer@.len() == 0,
                final(self).writer.hist().len() >= old(self).writer.hist().len(),
    {
        verif_write(self.writer, 0)?;
        self.output_buffer.clear();
        Ok(())
    }
}

#[derive(Debug, Clone, PartialEq, Eq)]
pub struct MinusPlus<T> {
    pub minus: T,
    pub plus: T,
}

#[derive(Debug, Clone, Copy, PartialEq, Eq)]
pub enum MinusPlusIndex {
    Minus,
    Plus,
}
pub use MinusPlusIndex::*;

impl<T> Index<MinusPlusIndex> for MinusPlus<T> {
    type Output = T;
    fn index(&self, side: MinusPlusIndex) -> &Self::Output {
        match side {
            Minus => &self.minus,
            Plus => &self.plus,
        }
    }
}

impl<T> IndexMut<MinusPlusIndex> for MinusPlus<T> {
    fn index_mut(&mut self, side: MinusPlusIndex) -> &mut Self::Output {
        match side {
            Minus => &mut self.minus,
            Plus => &mut self.plus,
        }
    }
}

pub fn g(d: &mut MinusPlus<usize>, increment: bool) -> (r: usize)
{
    let nr_left = d[Minus];
    d[Minus] += increment as usize;
    nr_left
}

pub fn h(v: &Vec<(usize, usize)>) -> usize {
    let a = v[0].0 + v[v.len() - 1].1;
    if a > 5 { verif_panic() }
    a
}
}
fn main() {}
