use vstd::prelude::*;
use std::collections::HashMap;
verus! {
pub assume_specification<T> [<T as std::borrow::ToOwned>::to_owned] (x: &T) -> (r: T) where T: std::clone::Clone ensures r == *x;
pub struct Config { pub blame_palette: Vec<String> }
pub struct SM<'a> {
    pub blame_key_colors: HashMap<String, String>,
    pub config: &'a Config,
}
#[verifier::external_body]
pub fn delta_unreachable(message: &str) -> !
  requires false
{ panic!() }

impl SM<'_> {
    fn get_color(&self, this_key: &str, previous_key: Option<&str>, is_repeat: bool) -> String {
        // Determine color for this line
        let previous_key_color = match previous_key {
            Some(previous_key) => self.blame_key_colors.get(previous_key),
            None => None,
        };

        match (
            self.blame_key_colors.get(this_key),
            previous_key_color,
            is_repeat,
        ) {
            (Some(key_color), Some(previous_key_color), true) => {
                // Repeated key: assign same color
                key_color.to_owned()
            }
            (None, Some(previous_key_color), false) => {
                // The key has no color: assign the next color that differs
                // from previous key.
                self.get_next_color(Some(previous_key_color))
            }
            (None, None, false) => {
                // The key has no color, and there is no previous key:
                // Just assign the next color. is_repeat is necessarily false.
                self.get_next_color(None)
            }
            (Some(key_color), Some(previous_key_color), false) => {
                if key_color != previous_key_color {
                    // Consecutive keys differ without a collision
                    key_color.to_owned()
                } else {
                    // Consecutive keys differ; prevent color collision
                    self.get_next_color(Some(key_color))
                }
            }
            (None, _, true) => delta_unreachable("is_repeat cannot be true when key has no color."),
            (Some(_), None, _) => {
                delta_unreachable("There must be a previous key if the key has a color.")
            }
        }
    }

    fn get_next_color(&self, other_than_color: Option<&str>) -> String {
        let n_keys = self.blame_key_colors.len();
        let n_colors = self.config.blame_palette.len();
        let color = self.config.blame_palette[n_keys % n_colors].clone();
        if Some(color.as_str()) != other_than_color {
            color
        } else {
            self.config.blame_palette[(n_keys + 1) % n_colors].clone()
        }
    }
}
}
fn main() {}
