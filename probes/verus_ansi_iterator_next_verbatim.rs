use vstd::prelude::*;
verus! {
#[verifier::external_body]
pub struct Bytes<'a> { _p: &'a u8 }
impl<'a> Bytes<'a> {
    #[verifier::external_body]
    pub fn next(&mut self) -> Option<u8> { unimplemented!() }
}
#[verifier::external_body]
pub struct Parser { _p: u8 }
#[derive(Clone, Copy, PartialEq)]
pub struct ATStyle { pub is_bold: bool }

#[derive(Clone, PartialEq)]
pub enum Element {
    Sgr(ATStyle, usize, usize),
    Csi(usize, usize),
    Esc(usize, usize),
    Osc(usize, usize),
    Text(usize, usize),
}
impl Element {
    fn set_range(&mut self, start: usize, end: usize) {
        let (from, to) = match self {
            Element::Sgr(_, from, to) => (from, to),
            Element::Csi(from, to) => (from, to),
            Element::Esc(from, to) => (from, to),
            Element::Osc(from, to) => (from, to),
            Element::Text(from, to) => (from, to),
        };

        *from = start;
        *to = end;
    }
}
pub struct AnsiElementIterator<'a> {
    pub bytes: Bytes<'a>,
    pub machine: Parser,
    pub element: Option<Element>,
    pub text_length: usize,
    pub start: usize,
    pub pos: usize,
}
impl<'a> AnsiElementIterator<'a> {
    #[verifier::external_body]
    fn advance_vte(&mut self, byte: u8) { unimplemented!() }

    #[verifier::exec_allows_no_decreases_clause]
    fn next(&mut self) -> Option<Element> {
        // If the last element emitted was text, then there may be a non-text element waiting
        // to be emitted. In that case we do not consume a new byte.
        while self.element.is_none() {
            match self.bytes.next() {
                Some(b) => self.advance_vte(b),
                None => break,
            }
        }

        if let Some(mut element) = self.element.take() {
            // There is a non-text element waiting to be emitted, but it may have preceding
            // text, which must be emitted first.
            if self.text_length > 0 {
                let start = self.start;
                self.start += self.text_length;
                self.text_length = 0;
                self.element = Some(element);
                return Some(Element::Text(start, self.start));
            }

            let start = self.start;
            self.start = self.pos;
            element.set_range(start, self.pos);

            return Some(element);
        }

        if self.text_length > 0 {
            self.text_length = 0;
            return Some(Element::Text(self.start, self.pos));
        }

        None
    }
}
}
fn main() {}
