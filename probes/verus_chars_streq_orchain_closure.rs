use vstd::prelude::*;
verus! {
#[verifier::external_type_specification]
#[verifier::external_body]
pub struct ExIoError(std::io::Error);

pub fn t_chars(s: &str) -> usize {
    let mut n: usize = 0;
    for c in s.chars() {
        if c == '\n' { }
    }
    n
}
pub fn t_eq(word: &str) -> bool {
    word == "blink"
}
pub fn t_slice(line: &str, a: usize) -> usize {
    let t = &line[a..];
    t.len()
}
pub struct S { pub x: usize }
impl S {
  #[verifier::external_body]
  fn h1(&mut self) -> (r: std::io::Result<bool>) { unimplemented!() }
  #[verifier::external_body]
  fn h2(&mut self) -> (r: std::io::Result<bool>) { unimplemented!() }
  fn skip(&self) -> bool { self.x > 3 }
  fn chain(&mut self) -> std::io::Result<()> {
      let _ = self.h1()? || self.h2()? || self.skip() || self.h1()?;
      Ok(())
  }
}
pub fn t_closure(a: usize) -> usize 
  requires a < 100
{
    let f = |x: usize| -> (r: usize) requires x < 1000 ensures r == x + 1 { x + 1 };
    f(a)
}
}
fn main() {}
