use vstd::prelude::*;
verus! {
#[derive(Clone, Debug, PartialEq, Eq)]
pub enum DiffType { Unified }
#[derive(Clone, Debug, PartialEq, Eq)]
pub enum State {
    HunkZero(DiffType, Option<String>),
    HunkMinus(DiffType, Option<String>),
    HunkPlus(DiffType, Option<String>),
    Unknown,
    HunkZeroWrapped,
    HunkMinusWrapped,
    HunkPlusWrapped,
}
pub struct LND { pub left: usize, pub right: usize }

pub open spec fn is_minus(s: State) -> bool { s is HunkMinus }
pub open spec fn is_plus(s: State) -> bool { s is HunkPlus }

// contract of paint_left_panel_minus_line (derived from paint_line/linenumbers_and_styles with Left => no increment)
#[verifier::external_body]
fn paint_left(idx: Option<usize>, state: &State, d: &mut LND) -> (shown: Option<usize>)
  ensures final(d).left == old(d).left, final(d).right == old(d).right,
          shown == (if idx.is_some() && is_minus(*state) { Some(old(d).left) } else { None::<usize> }),
{ unimplemented!() }

// right panel: increment = true; with idx None the opposite state is used
#[verifier::external_body]
fn paint_right(idx: Option<usize>, state: &State, d: &mut LND) -> (shown: Option<usize>)
  ensures
    idx.is_some() && is_plus(*state) ==> final(d).right == old(d).right + 1 && final(d).left == old(d).left && shown == Some(old(d).right),
    idx.is_some() && (*state is HunkPlusWrapped) ==> final(d).right == old(d).right && final(d).left == old(d).left && shown.is_none(),
    // idx None: state is the default HunkPlus(Unified, None) -> opposite = HunkMinus, increment left
    idx.is_none() ==> final(d).left == old(d).left + 1 && final(d).right == old(d).right && shown.is_none(),
{ unimplemented!() }

pub open spec fn count_minus(al: Seq<(Option<usize>, Option<usize>)>, st: Seq<State>, k: int) -> int
  decreases k
{
    if k <= 0 { 0 } else {
        count_minus(al, st, k - 1) + (match al[k-1].0 { Some(i) => if 0 <= i < st.len() && is_minus(st[i as int]) { 1int } else { 0 }, None => 0 })
    }
}

fn body(line_alignment: Vec<(Option<usize>, Option<usize>)>, left_states: &Vec<State>, right_states: &Vec<State>, d: &mut LND)
  requires
    forall|k: int| 0 <= k < line_alignment.len() ==> (#[trigger] line_alignment[k]).0.is_some() || line_alignment[k].1.is_some(),
    forall|k: int| 0 <= k < line_alignment.len() ==> match (#[trigger] line_alignment[k]).0 { Some(i) => i < left_states.len() && (left_states[i as int] is HunkMinus || left_states[i as int] is HunkMinusWrapped), None => true },
    forall|k: int| 0 <= k < line_alignment.len() ==> match (#[trigger] line_alignment[k]).1 { Some(i) => i < right_states.len() && (right_states[i as int] is HunkPlus || right_states[i as int] is HunkPlusWrapped), None => true },
    old(d).left + line_alignment.len() < usize::MAX, old(d).right + line_alignment.len() < usize::MAX,
  ensures
    final(d).left == old(d).left + count_minus(line_alignment@, left_states@, line_alignment.len() as int),
{
    let dflt_minus = State::HunkMinus(DiffType::Unified, None);
    let dflt_plus = State::HunkPlus(DiffType::Unified, None);
    let ghost al = line_alignment@;
    let ghost d0 = *d;
    let mut k: usize = 0;
    for (minus_line_index, plus_line_index) in it: line_alignment
      invariant
        it.history@ == al.take(it.index@ as int),
        d.left == d0.left + count_minus(al, left_states@, it.index@),
        d.left <= d0.left + it.index@, d.right <= d0.right + it.index@,
        d0.left + al.len() < usize::MAX, d0.right + al.len() < usize::MAX,
        forall|k: int| 0 <= k < al.len() ==> (#[trigger] al[k]).0.is_some() || al[k].1.is_some(),
        forall|k: int| 0 <= k < al.len() ==> match (#[trigger] al[k]).0 { Some(i) => i < left_states.len() && (left_states[i as int] is HunkMinus || left_states[i as int] is HunkMinusWrapped), None => true },
        forall|k: int| 0 <= k < al.len() ==> match (#[trigger] al[k]).1 { Some(i) => i < right_states.len() && (right_states[i as int] is HunkPlus || right_states[i as int] is HunkPlusWrapped), None => true },
    {
        let left_state = match minus_line_index {
            Some(i) => &left_states[i],
            None => &dflt_minus,
        };
        let _l = paint_left(minus_line_index, left_state, d);
        let right_state = match plus_line_index {
            Some(i) => &right_states[i],
            None => &dflt_plus,
        };
        let _r = paint_right(plus_line_index, right_state, d);
        match (left_state, right_state, minus_line_index, plus_line_index) {
            (State::HunkMinusWrapped, State::HunkPlus(_, _), Some(_), None) => {
                d.left = d.left.saturating_sub(1)
            }
            (State::HunkMinusWrapped | State::HunkPlusWrapped, _, _, _) => {}
            (_, _, Some(_), Some(_)) => d.left += 1,
            _ => {}
        }
    }
}
}
fn main() {}
