use vstd::prelude::*;
use std::ops::{Index, IndexMut};
verus! {
#[derive(Debug, PartialEq, Eq)]
pub struct MinusPlus<T> {
    pub minus: T,
    pub plus: T,
}
#[derive(Debug, Clone, Copy, PartialEq, Eq)]
pub enum MinusPlusIndex {
    Minus,
    Plus,
}
pub use MinusPlusIndex::*;

impl<T> Index<MinusPlusIndex> for MinusPlus<T> {
    type Output = T;
    fn index(&self, side: MinusPlusIndex) -> (r: &Self::Output)
       ensures *r == (match side { Minus => self.minus, Plus => self.plus })
    {
        match side {
            Minus => &self.minus,
            Plus => &self.plus,
        }
    }
}
impl<T> vstd::std_specs::core::IndexSpecImpl<MinusPlusIndex> for MinusPlus<T> {
    open spec fn index_req(&self, side: &MinusPlusIndex) -> bool { true }
}
pub fn g(d: &MinusPlus<usize>) -> (r: usize)
  ensures r == d.minus
{
    let nr_left = d[Minus];
    nr_left
}
}
fn main() {}
