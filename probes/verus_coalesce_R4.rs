use vstd::prelude::*;
verus! {
#[derive(Clone, Copy, PartialEq, Eq)]
pub struct SColor { pub r: u8, pub g: u8, pub b: u8, pub a: u8 }
#[derive(Clone, Copy, PartialEq, Eq)]
pub struct SyntectStyle { pub foreground: SColor, pub background: SColor, pub font_style: u8 }
#[derive(Clone, Copy, PartialEq, Eq)]
pub enum Color { Black, Fixed(u8), RGB(u8,u8,u8) }
#[derive(Clone, Copy, PartialEq, Eq)]
pub struct ATStyle { pub foreground: Option<Color>, pub background: Option<Color>, pub is_bold: bool }
#[derive(Clone, Copy, PartialEq, Eq)]
pub struct Style { pub ansi_term_style: ATStyle, pub is_emph: bool, pub is_syntax_highlighted: bool }

pub uninterp spec fn to_ansi_color_spec(c: SColor, t: bool) -> Option<Color>;
#[verifier::external_body]
pub fn to_ansi_color(color: SColor, true_color: bool) -> (r: Option<Color>)
  ensures r == to_ansi_color_spec(color, true_color)
{ unimplemented!() }

    fn coalesce(
        style_sections: Vec<((SyntectStyle, Style), char)>,
        true_color: bool,
        null_syntect_style: SyntectStyle,
    ) -> Vec<(Style, String)> {
        let make_superimposed_style = |p: (SyntectStyle, Style)| { let (syntect_style, style) = p;
            if style.is_syntax_highlighted && syntect_style != null_syntect_style {
                Style {
                    ansi_term_style: ATStyle {
                        foreground: to_ansi_color(syntect_style.foreground, true_color),
                        ..style.ansi_term_style
                    },
                    ..style
                }
            } else {
                style
            }
        };
        let mut coalesced: Vec<(Style, String)> = Vec::new();
        let mut style_sections = style_sections.iter();
        if let Some((style_pair, c)) = style_sections.next() {
            let mut current_string = c.to_string();
            let mut current_style_pair = style_pair;
            for (style_pair, c) in style_sections {
                if style_pair != current_style_pair {
                    let style = make_superimposed_style(*current_style_pair);
                    coalesced.push((style, current_string));
                    current_string = String::new();
                    current_style_pair = style_pair;
                }
                current_string.push(*c);
            }

            // TODO: This is not the ideal location for the following code.
            if current_string.ends_with('\n') {
                // Remove the terminating newline whose presence was necessary for the syntax
                // highlighter to work correctly.
                current_string.truncate(current_string.len() - 1);
            }
            let style = make_superimposed_style(*current_style_pair);
            coalesced.push((style, current_string));
        }
        coalesced
    }
}
fn main() {}
