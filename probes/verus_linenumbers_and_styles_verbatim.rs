use vstd::prelude::*;
use std::ops::{Index, IndexMut};
use vstd::std_specs::core::IndexSpecImpl;
verus! {
#[derive(Clone, PartialEq, Eq)]
pub enum DiffType { Unified }
#[derive(Clone, PartialEq, Eq)]
pub enum State {
    HunkZero(DiffType, Option<String>),
    HunkMinus(DiffType, Option<String>),
    HunkPlus(DiffType, Option<String>),
    Unknown,
    HunkZeroWrapped,
    HunkMinusWrapped,
    HunkPlusWrapped,
}
#[derive(Clone, Copy, PartialEq)]
pub struct Style { pub k: u8 }

#[derive(PartialEq, Eq)]
pub struct MinusPlus<T> { pub minus: T, pub plus: T }
#[derive(Clone, Copy, PartialEq, Eq)]
pub enum MinusPlusIndex { Minus, Plus }
pub use MinusPlusIndex::*;
pub use MinusPlusIndex::Minus as Left;
pub use MinusPlusIndex::Plus as Right;

impl<T> Index<MinusPlusIndex> for MinusPlus<T> {
    type Output = T;
    fn index(&self, side: MinusPlusIndex) -> (r: &Self::Output)
       ensures *r == (match side { Minus => self.minus, Plus => self.plus })
    {
        match side {
            Minus => &self.minus,
            Plus => &self.plus,
        }
    }
}
impl<T> IndexSpecImpl<MinusPlusIndex> for MinusPlus<T> {
    open spec fn index_req(&self, side: &MinusPlusIndex) -> bool { true }
}
impl<T> IndexMut<MinusPlusIndex> for MinusPlus<T> {
    fn index_mut(&mut self, side: MinusPlusIndex) -> &mut Self::Output {
        match side {
            Minus => &mut self.minus,
            Plus => &mut self.plus,
        }
    }
}
impl<T> MinusPlus<T> {
    pub fn new(minus: T, plus: T) -> (r: Self) ensures r.minus == minus, r.plus == plus { MinusPlus { minus, plus } }
}

pub struct LineNumbersData { pub line_number: MinusPlus<usize> }
pub struct Config { pub line_numbers_style_minusplus: MinusPlus<Style>, pub line_numbers_zero_style: Style }

pub fn linenumbers_and_styles<'a>(
    line_numbers_data: &'a mut LineNumbersData,
    state: &State,
    config: &'a Config,
    increment: bool,
) -> (r: Option<(MinusPlus<Option<usize>>, MinusPlus<Style>)>)
  requires old(line_numbers_data).line_number.minus < usize::MAX, old(line_numbers_data).line_number.plus < usize::MAX,
  ensures
    (*state is HunkMinus) ==> r.is_some() && r.unwrap().0.minus == Some(old(line_numbers_data).line_number.minus) && r.unwrap().0.plus.is_none()
        && final(line_numbers_data).line_number.minus == old(line_numbers_data).line_number.minus + (if increment {1int} else {0})
        && final(line_numbers_data).line_number.plus == old(line_numbers_data).line_number.plus,
    (*state is HunkMinusWrapped) ==> r.is_some() && r.unwrap().0.minus.is_none() && r.unwrap().0.plus.is_none()
        && final(line_numbers_data).line_number == old(line_numbers_data).line_number,
    (*state is Unknown) ==> r.is_none() && final(line_numbers_data).line_number == old(line_numbers_data).line_number,
{
    let nr_left = line_numbers_data.line_number[Left];
    let nr_right = line_numbers_data.line_number[Right];
    let (minus_style, zero_style, plus_style) = (
        config.line_numbers_style_minusplus[Minus],
        config.line_numbers_zero_style,
        config.line_numbers_style_minusplus[Plus],
    );
    let ((minus_number, plus_number), (minus_style, plus_style)) = match state {
        State::HunkMinus(_, _) => {
            line_numbers_data.line_number[Left] += increment as usize;
            ((Some(nr_left), None), (minus_style, plus_style))
        }
        State::HunkMinusWrapped => ((None, None), (minus_style, plus_style)),
        State::HunkZero(_, _) => {
            line_numbers_data.line_number[Left] += increment as usize;
            line_numbers_data.line_number[Right] += increment as usize;
            ((Some(nr_left), Some(nr_right)), (zero_style, zero_style))
        }
        State::HunkZeroWrapped => ((None, None), (zero_style, zero_style)),
        State::HunkPlus(_, _) => {
            line_numbers_data.line_number[Right] += increment as usize;
            ((None, Some(nr_right)), (minus_style, plus_style))
        }
        State::HunkPlusWrapped => ((None, None), (minus_style, plus_style)),
        _ => return None,
    };
    Some((
        MinusPlus::new(minus_number, plus_number),
        MinusPlus::new(minus_style, plus_style),
    ))
}
}
fn main() {}
