use vstd::prelude::*;
verus! {
#[verifier::external_type_specification]
#[verifier::external_body]
pub struct ExIoError(std::io::Error);

#[verifier::external_body]
pub struct ByteLines { _p: u8 }
impl ByteLines {
    #[verifier::external_body]
    pub fn next(&mut self) -> Option<Result<&[u8], std::io::Error>> { unimplemented!() }
}
#[derive(PartialEq, Eq)]
pub enum Source { GitDiff, DiffUnified, Unknown }

pub struct SM { pub x: usize, pub source: Source, pub line: String }
impl SM {
  #[verifier::external_body]
  fn ingest_line(&mut self, raw_line_bytes: &[u8]) { unimplemented!() }
  #[verifier::external_body]
  fn h1(&mut self) -> (r: std::io::Result<bool>) { unimplemented!() }
  #[verifier::external_body]
  fn h2(&mut self) -> (r: std::io::Result<bool>) { unimplemented!() }
  fn should_skip_line(&self) -> bool { self.x > 3 }

    #[verifier::exec_allows_no_decreases_clause]
    fn consume(&mut self, mut lines: ByteLines) -> std::io::Result<()>
    {
        while let Some(Ok(raw_line_bytes)) = lines.next() {
            self.ingest_line(raw_line_bytes);

            if self.source == Source::Unknown {
                self.source = detect_source(&self.line);
            }
            let _ = self.h1()?
                || self.h2()?
                || self.should_skip_line()
                || self.h1()?;
        }
        self.h1()?;
        Ok(())
    }
}
#[verifier::external_body]
fn detect_source(line: &str) -> Source { unimplemented!() }

fn outer(a: usize) -> usize
  requires a < 10
{
    pub fn inner(b: usize) -> usize requires b < 100 { b + 1 }
    macro_rules! twice {
        ($e:tt) => {{ inner($e) + inner($e) }};
    }
    twice!(a)
}
}
fn main() {}
